//! Look-around definitions: the only ones that produce late records and end-of-input edges.
use logos::Logos;

#[derive(Logos, Debug, PartialEq)]
pub enum EndAnchored {
    #[regex("a$")]
    AEnd,
    #[regex("[b-z]+")]
    Word,
}

#[derive(Logos, Debug, PartialEq)]
#[logos(utf8 = false)]
pub enum WordBoundary {
    #[regex(r"let(?-u:\b)")]
    Let,
    #[regex(r"[a-z]+")]
    Ident,
    #[regex(r"[ \n]+")]
    Ws,
}

#[derive(Logos, Debug, PartialEq)]
pub enum MultiLine {
    #[regex(r"(?m);$", priority = 3)]
    SemiEol,
    #[token(";")]
    Semi,
    #[regex(r"[a-z]+")]
    Word,
    #[regex(r"\n")]
    Nl,
}

#[derive(Logos, Debug, PartialEq)]
#[logos(utf8 = false)]
pub enum NotBoundary {
    #[regex(r"x(?-u:\B)", priority = 3)]
    XInside,
    #[regex(r"[a-wyz]+")]
    Other,
    #[token("x")]
    X,
}

#[derive(Logos, Debug, PartialEq)]
pub enum EndOfText {
    #[regex(r"end\z")]
    End,
    #[regex(r"[a-z]+")]
    Word,
    #[regex(r" +")]
    Space,
}

// Patterns that can never match behind a repetition: before dead-end pruning the automaton has non-accepting
// states with self loops from which no accept is reachable; pruning must remove them (trim automaton, C02).
#[derive(Logos, Debug, PartialEq)]
#[logos(utf8 = false)]
pub enum DeadCycle {
    #[regex(r"[0-9]+(?-u:\b)[a-z]+")]
    Never,
    #[regex(r"[a-z]+")]
    Word,
    #[token(";")]
    Semi,
}

#[derive(Logos, Debug, PartialEq)]
#[logos(utf8 = false)]
pub enum DeadChain {
    #[regex(r"ab(?-u:\b)cd")]
    Never,
    #[regex(r"x+(?-u:\B) y*")]
    NeverLoop,
    #[regex(r"[0-9]+")]
    Num,
}

/// Every pattern of the definitions in this module ends in a look-ahead assertion, so a match is only confirmed by the
/// byte after it (or the end of input): no state may record a match *before* having read that byte (rule G16).
pub mod expect_late {
    use logos::Logos;
    #[derive(Logos, Debug, PartialEq)]
    #[logos(utf8 = false)]
    pub enum Keyword {
        #[regex(r"let(?-u:\b)")]
        Let,
    }
    #[derive(Logos, Debug, PartialEq)]
    #[logos(utf8 = false)]
    pub enum Keywords {
        #[regex(r"if(?-u:\b)")]
        If,
        #[regex(r"in(?-u:\b)")]
        In,
        #[regex(r"[0-9]+(?-u:\b)", priority = 1)]
        Num,
    }
    #[derive(Logos, Debug, PartialEq)]
    pub enum LineEnd {
        #[regex(r"(?m)[a-z]+$")]
        LastWord,
        #[regex(r"(?m);$", priority = 9)]
        LastSemi,
    }
}

// One leaf with both an unconditional ending and a look-around ending: its early and late accepting states must stay
// distinct (an end-of-input edge may only lead into a late recorder).
#[derive(Logos, Debug, PartialEq)]
pub enum MixedEnding {
    #[regex("ab?", priority = 1)]
    Short,
    #[regex("ab|A$", priority = 5)]
    Long,
}

// An end-anchored token whose last byte has no other continuation: the state before the end-of-input edge has no byte
// edges at all.
#[derive(Logos, Debug, PartialEq)]
#[logos(skip r"[ \t]+")]
pub enum TrailingTilde {
    #[regex("[a-z]+")]
    Word,
    #[regex("[0-9]+")]
    Num,
    #[token("=")]
    Eq,
    #[regex("~$")]
    Tilde,
}

// Look-ahead whose failing bytes are kept alive by another pattern: the state before the assertion has a successor for
// every byte value, but only some successors accept (early-accept detection must see the non-accepting ones).
#[derive(Logos, Debug, PartialEq)]
pub enum CoveredLookahead {
    #[regex(r"let(?-u:\b)")]
    Let,
    #[regex(r"let[0-9A-Za-z_]+!")]
    Macro,
}

#[derive(Logos, Debug, PartialEq)]
pub enum CoveredWord {
    #[regex(r"[a-z]+(?-u:\b)")]
    Word,
    #[regex(r"[a-zA-Z0-9_]+:")]
    Label,
}

// A look-ahead match that another, longer pattern overtakes: the state after the longer match carries both a late
// accept (the shorter, look-ahead pattern) and an early accept (the longer one).
#[derive(Logos, Debug, PartialEq)]
pub enum Overtaken {
    #[regex(r"a(?-u:\b)")]
    A,
    #[token("a-")]
    ADash,
    #[token("-")]
    Dash,
    #[regex(r"[0-9]+(?-u:\b)")]
    Num,
    #[regex(r"[0-9]+\.")]
    NumDot,
    #[token(".")]
    Dot,
}

// States that differ ONLY in their end-of-input edge (after `x` the end of input leads to the accept of EndX, after `y` to
// the accept of EndY; no byte edges, no accept of their own): a de-duplication key that leaves the end-of-input edge out
// merges them and the wrong variant is reported at the end of the input (round-8 seed C01-m).
#[derive(Logos)]
pub enum EoiTwins {
    #[regex("x$")]
    EndX,
    #[regex("y$")]
    EndY,
    #[regex("[a-w]+")]
    Word,
}

// The same with a shared unconditional alternative: `;` / `,` always match as Punct, and as the higher-priority
// LastSemi / LastComma only at the end of the input.
#[derive(Logos)]
pub enum EoiTwinsPunct {
    #[regex(";$", priority = 5)]
    LastSemi,
    #[regex(",$", priority = 5)]
    LastComma,
    #[regex("[;,]", priority = 1)]
    Punct,
}
