//! Look-around definitions: the only ones that produce late records and end-of-input edges.
use logos::Logos;

#[derive(Logos, Debug, PartialEq)]
pub enum EndAnchored {
    #[regex("a$")]
    AEnd,
    #[regex("[b-z]+")]
    Word,
}

#[derive(Logos, Debug, PartialEq)]
#[logos(utf8 = false)]
pub enum WordBoundary {
    #[regex(r"let(?-u:\b)")]
    Let,
    #[regex(r"[a-z]+")]
    Ident,
    #[regex(r"[ \n]+")]
    Ws,
}

#[derive(Logos, Debug, PartialEq)]
pub enum MultiLine {
    #[regex(r"(?m);$", priority = 3)]
    SemiEol,
    #[token(";")]
    Semi,
    #[regex(r"[a-z]+")]
    Word,
    #[regex(r"\n")]
    Nl,
}

#[derive(Logos, Debug, PartialEq)]
#[logos(utf8 = false)]
pub enum NotBoundary {
    #[regex(r"x(?-u:\B)", priority = 3)]
    XInside,
    #[regex(r"[a-wyz]+")]
    Other,
    #[token("x")]
    X,
}

#[derive(Logos, Debug, PartialEq)]
pub enum EndOfText {
    #[regex(r"end\z")]
    End,
    #[regex(r"[a-z]+")]
    Word,
    #[regex(r" +")]
    Space,
}
