//! Byte-mode definitions whose edges touch the ends of the byte range (0x00, 0x7F/0x80, 0xFF), including states that
//! de-duplication merges (union of byte classes) and forks of every size.
use logos::Logos;

#[derive(Logos, Debug, PartialEq)]
#[logos(utf8 = false)]
pub enum MergedHigh {
    #[regex(b"[\x00-\x7F][\x01-\xFF]|[\x80-\xFF][\x01-\xFF]")]
    Pair,
}

#[derive(Logos, Debug, PartialEq)]
#[logos(utf8 = false)]
pub enum Edges {
    #[regex(b"\\\\[\x00-\x7F]")]
    Escape,
    #[regex(b"[\x80-\xFF]+")]
    High,
    #[regex(b"\x00+")]
    Nul,
    #[regex(b"[a-z]+")]
    Word,
    #[regex(b"\x7F[\x00-\x1F]")]
    Ctl,
}

#[derive(Logos, Debug, PartialEq)]
#[logos(utf8 = false)]
pub enum NotY {
    #[regex(b"x(?-u:[^y])")]
    XNotY,
    #[regex(b"(?-u:[^\x00-\x10])\xFF")]
    ThenFf,
    #[token(b"\xFF\xFF\xFF")]
    Fff,
}

#[derive(Logos, Debug, PartialEq)]
pub enum StrEdges {
    #[regex("\\\\[\x00-\x7F]")]
    Escape,
    #[regex("[\u{80}-\u{10FFFF}]+")]
    NonAscii,
    #[regex("[a-z]+")]
    Word,
    #[regex("\x7F[\x00-\x1F]")]
    Ctl,
}

// Self loops over "every byte except one" and two-edge states whose range touches 0x00 / 0xFF with a hole
// (the comparison-chain and fast-loop renderings must keep the excepted byte).
#[derive(Logos, Debug, PartialEq)]
#[logos(utf8 = false)]
pub enum ExceptLoops {
    #[regex(b"#[^\n]*", allow_greedy = true)]
    Comment,
    #[regex(br#""[^"]*""#)]
    Str,
    #[regex(b"[a-z]+")]
    Ident,
    #[regex(b"'[\x00-\x7F&&[^']]'")]
    Char,
    #[regex(b"<[\x80-\xFF&&[^\xC0]]>")]
    High,
}

#[derive(Logos, Debug, PartialEq)]
pub enum ExceptLoopsStr {
    #[regex("//[^\n]*", allow_greedy = true)]
    Comment,
    #[regex(r#""[^"]*""#)]
    Str,
    #[regex("[a-km-z]+")]
    NoL,
    #[regex("[0-46-9]+")]
    NoFive,
    #[regex("'[\x00-\x7F&&[^']]'")]
    Char,
}
