//! Definitions the derive MUST reject (each expands to compile_error!).  The capture tolerates the failing build of a
//! crate that contains them only because they live in their own crate feature: see `must_reject` in Cargo.toml.
//! Every enum in `rejects::<reason>` must be flagged `rejected` by the analyser; an accepted one is a violation.
pub mod empty_match {
    use logos::Logos;
    #[derive(Logos)]
    pub enum A {
        #[regex("a*")]
        X,
    }
    #[derive(Logos)]
    #[logos(skip r"[ \t]*")]
    pub enum B {
        #[token("a")]
        X,
    }
    #[derive(Logos)]
    pub enum C {
        #[regex("(a|)b?")]
        X,
    }
}
pub mod non_utf8_in_str_mode {
    use logos::Logos;
    #[derive(Logos)]
    pub enum A {
        #[regex(b"\xFF+")]
        X,
    }
    #[derive(Logos)]
    #[logos(skip(b"[\x80-\xFF]"))]
    pub enum B {
        #[token("a")]
        X,
    }
    #[derive(Logos)]
    #[logos(subpattern hi = b"\xC3")]
    pub enum C {
        #[regex(b"(?&hi)a")]
        X,
    }
    #[derive(Logos)]
    #[logos(skip(r"(?-u:[^a-z])"))]
    pub enum D {
        #[token("a")]
        X,
    }
}
pub mod greedy_dot {
    use logos::Logos;
    #[derive(Logos)]
    pub enum A {
        #[regex("a.*")]
        X,
    }
    #[derive(Logos)]
    pub enum B {
        #[regex("a(.*b)?")]
        X,
    }
    #[derive(Logos)]
    #[logos(skip("#.+"))]
    pub enum C {
        #[token("a")]
        X,
    }
}
pub mod greedy_dot_hidden {
    //! the greedy dot is not visible in the attribute text: it comes from a subpattern or from a string escape
    use logos::Logos;
    #[derive(Logos)]
    #[logos(subpattern rest = r".*")]
    pub enum A {
        #[regex(r"//(?&rest)")]
        X,
    }
    #[derive(Logos)]
    #[logos(subpattern tail = r".+")]
    #[logos(skip(r"#(?&tail)", allow_greedy = false))]
    pub enum B {
        #[token("a")]
        X,
    }
    #[derive(Logos)]
    pub enum C {
        #[regex("-.\x2a")]
        X,
    }
    #[derive(Logos)]
    #[logos(subpattern any = r"[^\n]")]
    pub enum D {
        #[regex(r"%(?&any){2,}")]
        X,
    }
}
pub mod empty_callback {
    //! `callback = ` without a value cannot be implemented: it must be a diagnostic, not an empty label
    use logos::Logos;
    #[derive(Logos)]
    pub enum A {
        #[regex("a", callback = )]
        X,
    }
    #[derive(Logos)]
    #[logos(skip("[ ]+", callback = ))]
    pub enum B {
        #[token("a")]
        X,
    }
    #[derive(Logos)]
    pub enum C {
        #[token("a", callback = )]
        X,
    }
}
pub mod undefined_subpattern {
    use logos::Logos;
    #[derive(Logos)]
    pub enum A {
        #[regex("(?&nope)a")]
        X,
    }
    #[derive(Logos)]
    #[logos(subpattern b = "(?&a)x")]
    #[logos(subpattern a = "y")]
    pub enum B {
        #[regex("(?&b)")]
        X,
    }
}
pub mod variants {
    use logos::Logos;
    #[derive(Logos)]
    pub enum A {
        #[token("a")]
        X { field: u8 },
    }
    #[derive(Logos)]
    pub enum B {
        #[token("a")]
        X(),
    }
    #[derive(Logos)]
    pub enum C {
        #[token("a")]
        X(u8, u8),
    }
}
pub mod equal_priority {
    use logos::Logos;
    #[derive(Logos)]
    pub enum A {
        #[token("ab")]
        X,
        #[regex("a[b-c]", priority = 4)]
        Y,
    }
    #[derive(Logos)]
    pub enum B {
        #[regex("[a-z]", priority = 0)]
        X,
        #[regex(".", priority = 0)]
        Y,
    }
    #[derive(Logos)]
    #[logos(skip("[ \t]+"))]
    #[logos(skip("[ \n]+"))]
    pub enum C {
        #[token("a")]
        X,
    }
    #[derive(Logos)]
    pub enum D {
        #[regex("a$")]
        X,
        #[token("a")]
        Y,
    }
}
pub mod look_behind {
    use logos::Logos;
    #[derive(Logos)]
    #[logos(utf8 = false)]
    pub enum A {
        #[regex(r"(?-u:\b)a")]
        X,
    }
}
pub mod greedy_dot_explicit_false {
    use logos::Logos;
    #[derive(Logos)]
    pub enum A {
        #[regex("//.*", allow_greedy = false)]
        X,
    }
    #[derive(Logos)]
    #[logos(skip("#.*", allow_greedy = false))]
    pub enum B {
        #[token("a")]
        X,
    }
}
