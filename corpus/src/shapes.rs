//! Definitions that instantiate every rendering branch of the generator (shape coverage).
use logos::{Filter, FilterResult, Lexer, Logos, Skip};

// ---- every callback return type, on unit and value variants, plus skip callbacks and an error callback ----

#[derive(Debug, Default, Clone, PartialEq)]
pub enum LexError {
    #[default]
    Other,
    Bad(String),
}

fn on_error<'s>(lex: &mut Lexer<'s, Callbacks<'s>>) -> LexError {
    LexError::Bad(lex.slice().to_string())
}

fn unit_bool<'s>(lex: &mut Lexer<'s, Callbacks<'s>>) -> bool {
    lex.slice().len() > 1
}
fn unit_unit<'s>(_lex: &mut Lexer<'s, Callbacks<'s>>) {}
fn unit_skip<'s>(_lex: &mut Lexer<'s, Callbacks<'s>>) -> Skip {
    Skip
}
fn unit_result_skip<'s>(lex: &mut Lexer<'s, Callbacks<'s>>) -> Result<Skip, LexError> {
    if lex.slice().is_empty() { Err(LexError::Other) } else { Ok(Skip) }
}
fn unit_filter<'s>(lex: &mut Lexer<'s, Callbacks<'s>>) -> Filter<()> {
    if lex.slice().len() > 2 { Filter::Emit(()) } else { Filter::Skip }
}
fn unit_filter_result<'s>(lex: &mut Lexer<'s, Callbacks<'s>>) -> FilterResult<(), LexError> {
    match lex.slice().len() { 0 => FilterResult::Error(LexError::Other), 1 => FilterResult::Skip, _ => FilterResult::Emit(()) }
}
fn val_plain<'s>(lex: &mut Lexer<'s, Callbacks<'s>>) -> u64 {
    lex.slice().len() as u64
}
fn val_option<'s>(lex: &mut Lexer<'s, Callbacks<'s>>) -> Option<u64> {
    lex.slice()[1..].parse().ok()
}
fn val_result<'s>(lex: &mut Lexer<'s, Callbacks<'s>>) -> Result<u64, LexError> {
    lex.slice()[1..].parse().map_err(|_| LexError::Other)
}
fn val_filter<'s>(lex: &mut Lexer<'s, Callbacks<'s>>) -> Filter<u64> {
    Filter::Emit(1)
}
fn val_filter_result<'s>(lex: &mut Lexer<'s, Callbacks<'s>>) -> FilterResult<u64, LexError> {
    FilterResult::Emit(2)
}
fn any_token<'s>(lex: &mut Lexer<'s, Callbacks<'s>>) -> Callbacks<'s> {
    Callbacks::Text(lex.slice())
}
fn any_token_result<'s>(lex: &mut Lexer<'s, Callbacks<'s>>) -> Result<Callbacks<'s>, LexError> {
    Ok(Callbacks::Text(lex.slice()))
}
fn bumping<'s>(lex: &mut Lexer<'s, Callbacks<'s>>) -> &'s str {
    lex.bump(1);
    lex.slice()
}
fn skip_unit<'s>(lex: &mut Lexer<'s, Callbacks<'s>>) {
    lex.extras += 1;
}
fn skip_result<'s>(lex: &mut Lexer<'s, Callbacks<'s>>) -> Result<(), LexError> {
    Ok(())
}

#[derive(Logos, Debug, PartialEq)]
#[logos(error(LexError, on_error))]
#[logos(extras = usize)]
#[logos(skip(r"[ \t]+", skip_unit))]
#[logos(skip(r"#[^\n]*", skip_result, priority = 1, allow_greedy = true))]
#[logos(skip r"\n")]
pub enum Callbacks<'s> {
    #[regex("a[a-z]*", unit_bool)]
    UnitBool,
    #[regex("b[a-z]*", unit_unit)]
    UnitUnit,
    #[regex("c[a-z]*", unit_skip)]
    UnitSkip,
    #[regex("d[a-z]*", unit_result_skip)]
    UnitResultSkip,
    #[regex("e[a-z]*", unit_filter)]
    UnitFilter,
    #[regex("f[a-z]*", unit_filter_result)]
    UnitFilterResult,
    #[regex("g[0-9]+", val_plain)]
    ValPlain(u64),
    #[regex("h[0-9]+", val_option)]
    ValOption(u64),
    #[regex("i[0-9]+", val_result)]
    ValResult(u64),
    #[regex("j[0-9]+", val_filter)]
    ValFilter(u64),
    #[regex("k[0-9]+", val_filter_result)]
    ValFilterResult(u64),
    #[regex("l[a-z]*", any_token)]
    #[regex("m[a-z]*", any_token_result)]
    Any,
    #[regex("n[a-z]*")]
    Text(&'s str),
    #[regex("o[a-z]*", bumping)]
    Bumped(&'s str),
    #[regex("p[a-z]*", |lex| lex.slice().len())]
    Inline(usize),
    #[token("q", callback = |_| Skip)]
    InlineSkip,
}

// ---- more than 8 distinct loop masks: two lookup tables ----
#[derive(Logos, Debug, PartialEq)]
#[logos(utf8 = false)]
pub enum ManyLoops {
    #[regex(b"a[0-9]+")]
    A,
    #[regex(b"b[a-f]+")]
    B,
    #[regex(b"c[g-m]+")]
    C,
    #[regex(b"d[n-z]+")]
    D,
    #[regex(b"e[A-F]+")]
    E,
    #[regex(b"f[G-M]+")]
    F,
    #[regex(b"g[N-Z]+")]
    G,
    #[regex(b"h[!-/]+")]
    H,
    #[regex(b"i[:-@]+")]
    I,
    #[regex(b"j[\\[-`]+")]
    J,
    #[regex(b"k[{-~]+")]
    K,
    #[regex(b"l[\x80-\xBF]+")]
    L,
}

// ---- comparison chain with an exception, LUT test in a fork, jump tables ----
#[derive(Logos, Debug, PartialEq)]
#[logos(utf8 = false)]
pub enum Forks {
    #[regex(b"(?-u)x[^b]")]
    NotB,
    #[regex(b"y[a-c0-3_]")]
    Mixed,
    #[regex(b"z[a-z]", priority = 10)]
    ZLower,
    #[regex(b"z[A-Z]")]
    ZUpper,
    #[regex(b"z[0-9]")]
    ZDigit,
    #[regex(b"z[!-/]")]
    ZPunct,
}

// ---- nested loops, optional tails, unicode ----
#[derive(Logos, Debug, PartialEq)]
#[logos(skip r"\s+")]
pub enum Loops<'s> {
    #[regex(r"([a-z]+-)*[a-z]+")]
    Kebab(&'s str),
    #[regex(r"[0-9]+(\.[0-9]+)?([eE][+-]?[0-9]+)?")]
    Number(&'s str),
    #[regex(r#""([^"\\]|\\.)*""#)]
    Str(&'s str),
    #[regex(r"\p{Lu}\p{Ll}*")]
    Capitalised(&'s str),
    #[regex(r"/\*([^*]|\*+[^*/])*\*+/")]
    Comment,
}

// ---- generics and lifetimes ----
#[derive(Logos, Debug, PartialEq)]
#[logos(type T = &'s str)]
pub enum Generic<'s, T> {
    #[regex("[a-z]+", |lex| lex.slice())]
    Word(T),
    #[token("!")]
    Bang,
    #[token("?", |_| core::marker::PhantomData)]
    Phantom(core::marker::PhantomData<&'s ()>),
}

// ---- no patterns at all ----
#[derive(Logos, Debug, PartialEq)]
pub enum Empty {}

// ---- tokens with a looping body and an optional, non-extendable suffix; a keyword overlapping an identifier ----
#[derive(Logos, Debug, PartialEq)]
#[logos(skip r"[ \t]+")]
pub enum OptionalSuffix {
    #[regex("[0-9]+f?")]
    Num,
    #[regex("[a-z]+!?")]
    Ident,
    #[token("fn")]
    Fn,
    #[regex("x+y?", priority = 20)]
    Xy,
}

// ---- one callback function shared by several variants and by a skip definition (round-8 seed C13-n): the glue code of
// each leaf must construct that leaf's own variant, whatever the callback's name ----
fn shared_unit<'s>(_lex: &mut Lexer<'s, SharedLabel<'s>>) {}
fn shared_slice<'s>(lex: &mut Lexer<'s, SharedLabel<'s>>) -> &'s str {
    lex.slice()
}

#[derive(Logos)]
#[logos(skip(r"#[a-z]*", shared_unit))]
pub enum SharedLabel<'s> {
    #[token("+", shared_unit)]
    Plus,
    #[token("-", shared_unit)]
    Minus,
    #[regex("[a-z]+", shared_slice)]
    Lower(&'s str),
    #[regex("[A-Z]+", shared_slice)]
    Upper(&'s str),
}
