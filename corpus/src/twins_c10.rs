//! C10 twins: a literal token must generate the same lexer as the regex that spells it out.
//! Every `pub mod gN` is a group; all enums in a group must produce token-identical `fn lex` bodies.
pub mod g1 {
    use logos::Logos;
    #[derive(Logos)]
    pub enum A {
        #[token("a+b|c")]
        X,
        #[regex("[a-z]+")]
        W,
    }
    #[derive(Logos)]
    pub enum B {
        #[regex(r"a\+b\|c", priority = 10)]
        X,
        #[regex("[a-z]+")]
        W,
    }
}
pub mod g2 {
    use logos::Logos;
    #[derive(Logos)]
    pub enum A {
        #[token("aé", ignore(case))]
        X,
        #[regex("[0-9]+")]
        N,
    }
    #[derive(Logos)]
    pub enum B {
        #[regex("(?i)aé", priority = 6)]
        X,
        #[regex("[0-9]+")]
        N,
    }
}
pub mod g3 {
    use logos::Logos;
    #[derive(Logos)]
    #[logos(utf8 = false)]
    pub enum A {
        #[token(b"\xFFk", ignore(case))]
        X,
        #[regex(b"[0-9]+")]
        N,
    }
    #[derive(Logos)]
    #[logos(utf8 = false)]
    pub enum B {
        #[regex(b"(?i-u)\xFFk", priority = 4)]
        X,
        #[regex(b"[0-9]+")]
        N,
    }
}
pub mod g4 {
    use logos::Logos;
    #[derive(Logos)]
    #[logos(skip("x", ignore(case)))]
    pub enum A {
        #[regex("[0-9]+")]
        N,
    }
    #[derive(Logos)]
    #[logos(skip("(?i)x"))]
    pub enum B {
        #[regex("[0-9]+")]
        N,
    }
}
pub mod g5 {
    use logos::Logos;
    // every regex metacharacter, verbatim
    #[derive(Logos)]
    pub enum A {
        #[token(r".*+?()[]{}|^$\-#& ~")]
        X,
        #[regex("[a-z]+")]
        W,
    }
    #[derive(Logos)]
    pub enum B {
        #[regex(r"\.\*\+\?\(\)\[\]\{\}\|\^\$\\\-\#\& \~", priority = 40)]
        X,
        #[regex("[a-z]+")]
        W,
    }
}
