//! C11 twins: a subpattern reference must generate the same lexer as the hand-inlined scoped group.
pub mod g1 {
    use logos::Logos;
    #[derive(Logos)]
    #[logos(subpattern alt = r"a|bc")]
    pub enum A {
        #[regex("(?&alt)d+")]
        X,
        #[regex("[0-9]+")]
        N,
    }
    #[derive(Logos)]
    pub enum B {
        #[regex("(?u:a|bc)d+")]
        X,
        #[regex("[0-9]+")]
        N,
    }
}
pub mod g2 {
    use logos::Logos;
    #[derive(Logos)]
    #[logos(subpattern sign = r"\+|-")]
    #[logos(subpattern signed = r"(?&sign)[0-9]+")]
    pub enum A {
        #[regex("(?&signed)x")]
        X,
        #[regex("[a-w]+")]
        W,
    }
    #[derive(Logos)]
    pub enum B {
        #[regex(r"(?u:(?u:\+|-)[0-9]+)x")]
        X,
        #[regex("[a-w]+")]
        W,
    }
}
pub mod g3 {
    use logos::Logos;
    #[derive(Logos)]
    #[logos(subpattern kw = "(?i)select")]
    pub enum A {
        #[regex("(?&kw)_x")]
        X,
        #[regex("[0-9]+")]
        N,
    }
    #[derive(Logos)]
    pub enum B {
        #[regex("(?u:(?i)select)_x")]
        X,
        #[regex("[0-9]+")]
        N,
    }
}
pub mod g4 {
    use logos::Logos;
    #[derive(Logos)]
    #[logos(utf8 = false)]
    #[logos(subpattern hi = b"\xFF|\xFE")]
    pub enum A {
        #[regex(b"(?&hi)z")]
        X,
        #[regex(b"[0-9]+")]
        N,
    }
    #[derive(Logos)]
    #[logos(utf8 = false)]
    pub enum B {
        #[regex(b"(?-u:\xFF|\xFE)z")]
        X,
        #[regex(b"[0-9]+")]
        N,
    }
}
pub mod g5 {
    use logos::Logos;
    // references at the start, in the middle and at the end; unicode class inside the subpattern
    #[derive(Logos)]
    #[logos(subpattern w = r"\p{Greek}|q")]
    pub enum A {
        #[regex("(?&w)-[0-9](?&w)+=(?&w)")]
        X,
        #[regex("[0-9]+")]
        N,
    }
    #[derive(Logos)]
    pub enum B {
        #[regex(r"(?u:\p{Greek}|q)-[0-9](?u:\p{Greek}|q)+=(?u:\p{Greek}|q)")]
        X,
        #[regex("[0-9]+")]
        N,
    }
}
pub mod g6 {
    use logos::Logos;
    // non-ASCII text around the references; a quantifier directly after the last reference
    #[derive(Logos)]
    #[logos(subpattern digit = r"[0-9]")]
    pub enum A {
        #[regex("€(?&digit)+")]
        X,
        #[regex("é(?&digit)é(?&digit)*")]
        Y,
        #[regex("[a-z]+")]
        W,
    }
    #[derive(Logos)]
    pub enum B {
        #[regex("€(?u:[0-9])+")]
        X,
        #[regex("é(?u:[0-9])é(?u:[0-9])*")]
        Y,
        #[regex("[a-z]+")]
        W,
    }
}
