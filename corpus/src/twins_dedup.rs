//! State de-duplication twins: two spellings whose DFAs differ only by equivalent states that de-duplication merges
//! (merging their byte classes) must generate the same lexer as the spelling that never had the duplicate states.
pub mod g1 {
    use logos::Logos;
    #[derive(Logos)]
    pub enum A {
        #[regex(r"UTC\+[0-9][0-9]|UTC-[0-9][0-9]")]
        Offset,
        #[token(",")]
        Comma,
        #[regex("[0-9]+")]
        Number,
    }
    #[derive(Logos)]
    pub enum B {
        #[regex(r"UTC[+\-][0-9][0-9]")]
        Offset,
        #[token(",")]
        Comma,
        #[regex("[0-9]+")]
        Number,
    }
}
