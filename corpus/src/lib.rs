//! Corpus of lexer definitions for the generated-code analyser (never executed; only expanded and parsed).
#![allow(dead_code, unused)]
pub mod byte_edges;
pub mod lookaround;
pub mod perms;
pub mod rejects;
pub mod shapes;
pub mod twins_c10;
pub mod twins_c11;
pub mod twins_c12;
pub mod twins_dedup;
pub mod enum_quick;
