//! C12 twins: the same definition in str mode and with `utf8 = false` must generate the same `fn lex` body.
pub mod g1 {
    use logos::Logos;
    #[derive(Logos)]
    #[logos(skip r"[ \t\n]+")]
    pub enum A {
        #[regex(r"\p{L}+")]
        Word,
        #[regex("[0-9]+")]
        Num,
        #[token("→")]
        Arrow,
        #[regex(r#""[^"]*""#)]
        Str,
    }
    #[derive(Logos)]
    #[logos(utf8 = false)]
    #[logos(skip r"[ \t\n]+")]
    pub enum B {
        #[regex(r"\p{L}+")]
        Word,
        #[regex("[0-9]+")]
        Num,
        #[token("→")]
        Arrow,
        #[regex(r#""[^"]*""#)]
        Str,
    }
}
pub mod g2 {
    use logos::Logos;
    #[derive(Logos)]
    #[logos(subpattern id = r"[a-zà-ÿ_][a-zà-ÿ0-9_]*")]
    pub enum A {
        #[regex("(?&id)")]
        Ident,
        #[regex(r"//.*", allow_greedy = true)]
        Comment,
        #[token("élève", ignore(case))]
        Kw,
        #[regex(r"\s+")]
        Ws,
    }
    #[derive(Logos)]
    #[logos(utf8 = false)]
    #[logos(subpattern id = r"[a-zà-ÿ_][a-zà-ÿ0-9_]*")]
    pub enum B {
        #[regex("(?&id)")]
        Ident,
        #[regex(r"//.*", allow_greedy = true)]
        Comment,
        #[token("élève", ignore(case))]
        Kw,
        #[regex(r"\s+")]
        Ws,
    }
}
