#![feature(prelude_import)]
extern crate std;
#[prelude_import]
use std::prelude::rust_2021::*;
use logos::Logos;
#[logos(skip r"[ \t]+")]
pub enum Fx {

    #[regex("[a-z]+")]
    Word,

    #[regex("a$", priority = 10)]
    AEnd,

    #[token("let")]
    Let,

    #[token("=")]
    Eq,

    #[token("==")]
    EqEq,
}
#[automatically_derived]
impl<'s> ::logos::Logos<'s> for Fx {
    type Error = ();
    type Extras = ();
    type Source = ::core::primitive::str;
    fn lex(lex: &mut ::logos::Lexer<'s, Self>)
        ->
            ::core::option::Option<::core::result::Result<Self,
            <Self as ::logos::Logos<'s>>::Error>> {
        use ::logos::internal::{
            LexerInternal, CallbackRetVal, CallbackResult, SkipRetVal,
            SkipResult,
        };
        use ::core::result::Result as _Result;
        use ::core::option::Option as _Option;
        use ::logos::Lexer as _Lexer;
        use ::logos::Logos;
        macro_rules! _fast_loop {
            ($lex : ident, $test : ident, $offset : ident) =>
            {
                'fast_loop :
                {
                    while let _Option :: Some(arr) = $lex.read :: < &
                    [:: core :: primitive :: u8; 8usize] > ($offset)
                    {
                        if $test(arr [0usize])
                        { $offset += 0usize; break 'fast_loop; } if
                        $test(arr [1usize]) { $offset += 1usize; break 'fast_loop; }
                        if $test(arr [2usize])
                        { $offset += 2usize; break 'fast_loop; } if
                        $test(arr [3usize]) { $offset += 3usize; break 'fast_loop; }
                        if $test(arr [4usize])
                        { $offset += 4usize; break 'fast_loop; } if
                        $test(arr [5usize]) { $offset += 5usize; break 'fast_loop; }
                        if $test(arr [6usize])
                        { $offset += 6usize; break 'fast_loop; } if
                        $test(arr [7usize]) { $offset += 7usize; break 'fast_loop; }
                        $offset += 8usize;
                    } while let _Option :: Some(byte) = $lex.read :: < :: core
                    :: primitive :: u8 > ($offset)
                    { if $test(byte) { break 'fast_loop; } $offset += 1; }
                }
            };
        }
        macro_rules! _take_action {
            ($lex : ident, $offset : ident, $context : ident, $state : ident)
            =>
            {
                {
                    let action = _get_action($lex, $offset, $context); match
                    action
                    {
                        CallbackResult :: Emit(tok) =>
                        { return _Option :: Some(_Result :: Ok(tok)); },
                        CallbackResult :: Skip =>
                        {
                            $lex.trivia(); $offset = $lex.offset(); $context = _Option
                            :: None; $state = LogosState :: State8; continue;
                        }, CallbackResult :: Error(err) =>
                        { return _Option :: Some(_Result :: Err(err)); },
                        CallbackResult :: DefaultError =>
                        {
                            return _Option :: Some(_Result :: Err(_make_error($lex)));
                        },
                    }
                }
            }
        }
        const _TABLE_0: [::core::primitive::u8; 256] =
            [0u8, 0u8, 0u8, 0u8, 0u8, 0u8, 0u8, 0u8, 0u8, 2u8, 0u8, 0u8, 0u8,
                    0u8, 0u8, 0u8, 0u8, 0u8, 0u8, 0u8, 0u8, 0u8, 0u8, 0u8, 0u8,
                    0u8, 0u8, 0u8, 0u8, 0u8, 0u8, 0u8, 2u8, 0u8, 0u8, 0u8, 0u8,
                    0u8, 0u8, 0u8, 0u8, 0u8, 0u8, 0u8, 0u8, 0u8, 0u8, 0u8, 0u8,
                    0u8, 0u8, 0u8, 0u8, 0u8, 0u8, 0u8, 0u8, 0u8, 0u8, 0u8, 0u8,
                    0u8, 0u8, 0u8, 0u8, 0u8, 0u8, 0u8, 0u8, 0u8, 0u8, 0u8, 0u8,
                    0u8, 0u8, 0u8, 0u8, 0u8, 0u8, 0u8, 0u8, 0u8, 0u8, 0u8, 0u8,
                    0u8, 0u8, 0u8, 0u8, 0u8, 0u8, 0u8, 0u8, 0u8, 0u8, 0u8, 0u8,
                    1u8, 1u8, 1u8, 1u8, 1u8, 1u8, 1u8, 1u8, 1u8, 1u8, 1u8, 1u8,
                    1u8, 1u8, 1u8, 1u8, 1u8, 1u8, 1u8, 1u8, 1u8, 1u8, 1u8, 1u8,
                    1u8, 1u8, 0u8, 0u8, 0u8, 0u8, 0u8, 0u8, 0u8, 0u8, 0u8, 0u8,
                    0u8, 0u8, 0u8, 0u8, 0u8, 0u8, 0u8, 0u8, 0u8, 0u8, 0u8, 0u8,
                    0u8, 0u8, 0u8, 0u8, 0u8, 0u8, 0u8, 0u8, 0u8, 0u8, 0u8, 0u8,
                    0u8, 0u8, 0u8, 0u8, 0u8, 0u8, 0u8, 0u8, 0u8, 0u8, 0u8, 0u8,
                    0u8, 0u8, 0u8, 0u8, 0u8, 0u8, 0u8, 0u8, 0u8, 0u8, 0u8, 0u8,
                    0u8, 0u8, 0u8, 0u8, 0u8, 0u8, 0u8, 0u8, 0u8, 0u8, 0u8, 0u8,
                    0u8, 0u8, 0u8, 0u8, 0u8, 0u8, 0u8, 0u8, 0u8, 0u8, 0u8, 0u8,
                    0u8, 0u8, 0u8, 0u8, 0u8, 0u8, 0u8, 0u8, 0u8, 0u8, 0u8, 0u8,
                    0u8, 0u8, 0u8, 0u8, 0u8, 0u8, 0u8, 0u8, 0u8, 0u8, 0u8, 0u8,
                    0u8, 0u8, 0u8, 0u8, 0u8, 0u8, 0u8, 0u8, 0u8, 0u8, 0u8, 0u8,
                    0u8, 0u8, 0u8, 0u8, 0u8, 0u8, 0u8, 0u8, 0u8, 0u8, 0u8, 0u8,
                    0u8, 0u8, 0u8];
        #[inline]
        fn _make_error<'s>(lex: &mut _Lexer<'s, Fx>)
            -> <Fx as Logos<'s>>::Error {
            <<Fx as Logos<'s>>::Error as ::core::default::Default>::default()
        }
        #[inline]
        fn _get_action<'s>(lex: &mut _Lexer<'s, Fx>,
            offset: ::core::primitive::usize, context: _Option<LogosLeaf>)
            -> CallbackResult<'s, Fx> {
            match context {
                _Option::None => {
                    lex.end_to_boundary(offset.max(lex.offset() + 1));
                    CallbackResult::Error(_make_error(lex))
                }
                _Option::Some(LogosLeaf::Leaf0) => { CallbackResult::Skip }
                _Option::Some(LogosLeaf::Leaf1) => {
                    CallbackResult::Emit(Fx::Word)
                }
                _Option::Some(LogosLeaf::Leaf2) => {
                    CallbackResult::Emit(Fx::AEnd)
                }
                _Option::Some(LogosLeaf::Leaf3) => {
                    CallbackResult::Emit(Fx::Let)
                }
                _Option::Some(LogosLeaf::Leaf4) => {
                    CallbackResult::Emit(Fx::Eq)
                }
                _Option::Some(LogosLeaf::Leaf5) => {
                    CallbackResult::Emit(Fx::EqEq)
                }
            }
        }
        enum LogosLeaf {
            Leaf0 = 0isize,
            Leaf1 = 1isize,
            Leaf2 = 2isize,
            Leaf3 = 3isize,
            Leaf4 = 4isize,
            Leaf5 = 5isize,
        }
        #[automatically_derived]
        #[doc(hidden)]
        unsafe impl ::core::clone::TrivialClone for LogosLeaf { }
        #[automatically_derived]
        impl ::core::clone::Clone for LogosLeaf {
            #[inline]
            fn clone(&self) -> LogosLeaf { *self }
        }
        #[automatically_derived]
        impl ::core::marker::Copy for LogosLeaf { }
        enum LogosState {
            State0,
            State1,
            State10,
            State11,
            State2,
            State3,
            State4,
            State5,
            State6,
            State7,
            State8,
            State9,
        }
        #[automatically_derived]
        #[doc(hidden)]
        unsafe impl ::core::clone::TrivialClone for LogosState { }
        #[automatically_derived]
        impl ::core::clone::Clone for LogosState {
            #[inline]
            fn clone(&self) -> LogosState { *self }
        }
        #[automatically_derived]
        impl ::core::marker::Copy for LogosState { }
        let mut state = LogosState::State8;
        let mut offset = lex.offset();
        let mut context: _Option<LogosLeaf> = _Option::None;
        loop {
            match state {
                LogosState::State0 => {
                    lex.end(offset - 1);
                    context = _Option::Some(LogosLeaf::Leaf1);
                    let other = lex.read::<::core::primitive::u8>(offset);
                    if let _Option::Some(byte) = other {} else {}
                    {
                        let action = _get_action(lex, offset, context);
                        match action {
                            CallbackResult::Emit(tok) => {
                                return _Option::Some(_Result::Ok(tok));
                            }
                            CallbackResult::Skip => {
                                lex.trivia();
                                offset = lex.offset();
                                context = _Option::None;
                                state = LogosState::State8;
                                continue;
                            }
                            CallbackResult::Error(err) => {
                                return _Option::Some(_Result::Err(err));
                            }
                            CallbackResult::DefaultError => {
                                return _Option::Some(_Result::Err(_make_error(lex)));
                            }
                        }
                    }
                }
                LogosState::State1 => {
                    #[inline]
                    fn loop_test(byte: ::core::primitive::u8)
                        -> ::core::primitive::bool {
                        _TABLE_0[byte as ::core::primitive::usize] & 1u8 == 0
                    }
                    'fast_loop:
                        {
                        while let _Option::Some(arr) =
                                lex.read::<&[::core::primitive::u8; 8usize]>(offset) {
                            if loop_test(arr[0usize]) {
                                offset += 0usize;
                                break 'fast_loop;
                            }
                            if loop_test(arr[1usize]) {
                                offset += 1usize;
                                break 'fast_loop;
                            }
                            if loop_test(arr[2usize]) {
                                offset += 2usize;
                                break 'fast_loop;
                            }
                            if loop_test(arr[3usize]) {
                                offset += 3usize;
                                break 'fast_loop;
                            }
                            if loop_test(arr[4usize]) {
                                offset += 4usize;
                                break 'fast_loop;
                            }
                            if loop_test(arr[5usize]) {
                                offset += 5usize;
                                break 'fast_loop;
                            }
                            if loop_test(arr[6usize]) {
                                offset += 6usize;
                                break 'fast_loop;
                            }
                            if loop_test(arr[7usize]) {
                                offset += 7usize;
                                break 'fast_loop;
                            }
                            offset += 8usize;
                        }
                        while let _Option::Some(byte) =
                                lex.read::<::core::primitive::u8>(offset) {
                            if loop_test(byte) { break 'fast_loop; }
                            offset += 1;
                        }
                    };
                    lex.end(offset);
                    context = _Option::Some(LogosLeaf::Leaf1);
                    let other = lex.read::<::core::primitive::u8>(offset);
                    if let _Option::Some(byte) = other {
                        if (#[allow(non_exhaustive_omitted_patterns)] match byte {
                                        0u8..=96u8 => true,
                                        _ => false,
                                    }) ||
                                (#[allow(non_exhaustive_omitted_patterns)] match byte {
                                        b'{'..=255u8 => true,
                                        _ => false,
                                    }) {
                            offset += 1;
                            state = LogosState::State0;
                            continue;
                        }
                    } else {
                        if lex.is_prefix() {
                            lex.end(lex.offset());
                            return _Option::None
                        }
                        offset += 1;
                        state = LogosState::State0;
                        continue;
                    }
                    {
                        let action = _get_action(lex, offset, context);
                        match action {
                            CallbackResult::Emit(tok) => {
                                return _Option::Some(_Result::Ok(tok));
                            }
                            CallbackResult::Skip => {
                                lex.trivia();
                                offset = lex.offset();
                                context = _Option::None;
                                state = LogosState::State8;
                                continue;
                            }
                            CallbackResult::Error(err) => {
                                return _Option::Some(_Result::Err(err));
                            }
                            CallbackResult::DefaultError => {
                                return _Option::Some(_Result::Err(_make_error(lex)));
                            }
                        }
                    }
                }
                LogosState::State2 => {
                    lex.end(offset);
                    context = _Option::Some(LogosLeaf::Leaf1);
                    let other = lex.read::<::core::primitive::u8>(offset);
                    if let _Option::Some(byte) = other {
                        const TABLE: [_Option<LogosState>; 256] =
                            [_Option::Some(LogosState::State0),
                                    _Option::Some(LogosState::State0),
                                    _Option::Some(LogosState::State0),
                                    _Option::Some(LogosState::State0),
                                    _Option::Some(LogosState::State0),
                                    _Option::Some(LogosState::State0),
                                    _Option::Some(LogosState::State0),
                                    _Option::Some(LogosState::State0),
                                    _Option::Some(LogosState::State0),
                                    _Option::Some(LogosState::State0),
                                    _Option::Some(LogosState::State0),
                                    _Option::Some(LogosState::State0),
                                    _Option::Some(LogosState::State0),
                                    _Option::Some(LogosState::State0),
                                    _Option::Some(LogosState::State0),
                                    _Option::Some(LogosState::State0),
                                    _Option::Some(LogosState::State0),
                                    _Option::Some(LogosState::State0),
                                    _Option::Some(LogosState::State0),
                                    _Option::Some(LogosState::State0),
                                    _Option::Some(LogosState::State0),
                                    _Option::Some(LogosState::State0),
                                    _Option::Some(LogosState::State0),
                                    _Option::Some(LogosState::State0),
                                    _Option::Some(LogosState::State0),
                                    _Option::Some(LogosState::State0),
                                    _Option::Some(LogosState::State0),
                                    _Option::Some(LogosState::State0),
                                    _Option::Some(LogosState::State0),
                                    _Option::Some(LogosState::State0),
                                    _Option::Some(LogosState::State0),
                                    _Option::Some(LogosState::State0),
                                    _Option::Some(LogosState::State0),
                                    _Option::Some(LogosState::State0),
                                    _Option::Some(LogosState::State0),
                                    _Option::Some(LogosState::State0),
                                    _Option::Some(LogosState::State0),
                                    _Option::Some(LogosState::State0),
                                    _Option::Some(LogosState::State0),
                                    _Option::Some(LogosState::State0),
                                    _Option::Some(LogosState::State0),
                                    _Option::Some(LogosState::State0),
                                    _Option::Some(LogosState::State0),
                                    _Option::Some(LogosState::State0),
                                    _Option::Some(LogosState::State0),
                                    _Option::Some(LogosState::State0),
                                    _Option::Some(LogosState::State0),
                                    _Option::Some(LogosState::State0),
                                    _Option::Some(LogosState::State0),
                                    _Option::Some(LogosState::State0),
                                    _Option::Some(LogosState::State0),
                                    _Option::Some(LogosState::State0),
                                    _Option::Some(LogosState::State0),
                                    _Option::Some(LogosState::State0),
                                    _Option::Some(LogosState::State0),
                                    _Option::Some(LogosState::State0),
                                    _Option::Some(LogosState::State0),
                                    _Option::Some(LogosState::State0),
                                    _Option::Some(LogosState::State0),
                                    _Option::Some(LogosState::State0),
                                    _Option::Some(LogosState::State0),
                                    _Option::Some(LogosState::State0),
                                    _Option::Some(LogosState::State0),
                                    _Option::Some(LogosState::State0),
                                    _Option::Some(LogosState::State0),
                                    _Option::Some(LogosState::State0),
                                    _Option::Some(LogosState::State0),
                                    _Option::Some(LogosState::State0),
                                    _Option::Some(LogosState::State0),
                                    _Option::Some(LogosState::State0),
                                    _Option::Some(LogosState::State0),
                                    _Option::Some(LogosState::State0),
                                    _Option::Some(LogosState::State0),
                                    _Option::Some(LogosState::State0),
                                    _Option::Some(LogosState::State0),
                                    _Option::Some(LogosState::State0),
                                    _Option::Some(LogosState::State0),
                                    _Option::Some(LogosState::State0),
                                    _Option::Some(LogosState::State0),
                                    _Option::Some(LogosState::State0),
                                    _Option::Some(LogosState::State0),
                                    _Option::Some(LogosState::State0),
                                    _Option::Some(LogosState::State0),
                                    _Option::Some(LogosState::State0),
                                    _Option::Some(LogosState::State0),
                                    _Option::Some(LogosState::State0),
                                    _Option::Some(LogosState::State0),
                                    _Option::Some(LogosState::State0),
                                    _Option::Some(LogosState::State0),
                                    _Option::Some(LogosState::State0),
                                    _Option::Some(LogosState::State0),
                                    _Option::Some(LogosState::State0),
                                    _Option::Some(LogosState::State0),
                                    _Option::Some(LogosState::State0),
                                    _Option::Some(LogosState::State0),
                                    _Option::Some(LogosState::State0),
                                    _Option::Some(LogosState::State0),
                                    _Option::Some(LogosState::State1),
                                    _Option::Some(LogosState::State1),
                                    _Option::Some(LogosState::State1),
                                    _Option::Some(LogosState::State1),
                                    _Option::Some(LogosState::State1),
                                    _Option::Some(LogosState::State1),
                                    _Option::Some(LogosState::State1),
                                    _Option::Some(LogosState::State1),
                                    _Option::Some(LogosState::State1),
                                    _Option::Some(LogosState::State1),
                                    _Option::Some(LogosState::State1),
                                    _Option::Some(LogosState::State1),
                                    _Option::Some(LogosState::State1),
                                    _Option::Some(LogosState::State1),
                                    _Option::Some(LogosState::State1),
                                    _Option::Some(LogosState::State1),
                                    _Option::Some(LogosState::State1),
                                    _Option::Some(LogosState::State1),
                                    _Option::Some(LogosState::State1),
                                    _Option::Some(LogosState::State3),
                                    _Option::Some(LogosState::State1),
                                    _Option::Some(LogosState::State1),
                                    _Option::Some(LogosState::State1),
                                    _Option::Some(LogosState::State1),
                                    _Option::Some(LogosState::State1),
                                    _Option::Some(LogosState::State1),
                                    _Option::Some(LogosState::State0),
                                    _Option::Some(LogosState::State0),
                                    _Option::Some(LogosState::State0),
                                    _Option::Some(LogosState::State0),
                                    _Option::Some(LogosState::State0),
                                    _Option::Some(LogosState::State0),
                                    _Option::Some(LogosState::State0),
                                    _Option::Some(LogosState::State0),
                                    _Option::Some(LogosState::State0),
                                    _Option::Some(LogosState::State0),
                                    _Option::Some(LogosState::State0),
                                    _Option::Some(LogosState::State0),
                                    _Option::Some(LogosState::State0),
                                    _Option::Some(LogosState::State0),
                                    _Option::Some(LogosState::State0),
                                    _Option::Some(LogosState::State0),
                                    _Option::Some(LogosState::State0),
                                    _Option::Some(LogosState::State0),
                                    _Option::Some(LogosState::State0),
                                    _Option::Some(LogosState::State0),
                                    _Option::Some(LogosState::State0),
                                    _Option::Some(LogosState::State0),
                                    _Option::Some(LogosState::State0),
                                    _Option::Some(LogosState::State0),
                                    _Option::Some(LogosState::State0),
                                    _Option::Some(LogosState::State0),
                                    _Option::Some(LogosState::State0),
                                    _Option::Some(LogosState::State0),
                                    _Option::Some(LogosState::State0),
                                    _Option::Some(LogosState::State0),
                                    _Option::Some(LogosState::State0),
                                    _Option::Some(LogosState::State0),
                                    _Option::Some(LogosState::State0),
                                    _Option::Some(LogosState::State0),
                                    _Option::Some(LogosState::State0),
                                    _Option::Some(LogosState::State0),
                                    _Option::Some(LogosState::State0),
                                    _Option::Some(LogosState::State0),
                                    _Option::Some(LogosState::State0),
                                    _Option::Some(LogosState::State0),
                                    _Option::Some(LogosState::State0),
                                    _Option::Some(LogosState::State0),
                                    _Option::Some(LogosState::State0),
                                    _Option::Some(LogosState::State0),
                                    _Option::Some(LogosState::State0),
                                    _Option::Some(LogosState::State0),
                                    _Option::Some(LogosState::State0),
                                    _Option::Some(LogosState::State0),
                                    _Option::Some(LogosState::State0),
                                    _Option::Some(LogosState::State0),
                                    _Option::Some(LogosState::State0),
                                    _Option::Some(LogosState::State0),
                                    _Option::Some(LogosState::State0),
                                    _Option::Some(LogosState::State0),
                                    _Option::Some(LogosState::State0),
                                    _Option::Some(LogosState::State0),
                                    _Option::Some(LogosState::State0),
                                    _Option::Some(LogosState::State0),
                                    _Option::Some(LogosState::State0),
                                    _Option::Some(LogosState::State0),
                                    _Option::Some(LogosState::State0),
                                    _Option::Some(LogosState::State0),
                                    _Option::Some(LogosState::State0),
                                    _Option::Some(LogosState::State0),
                                    _Option::Some(LogosState::State0),
                                    _Option::Some(LogosState::State0),
                                    _Option::Some(LogosState::State0),
                                    _Option::Some(LogosState::State0),
                                    _Option::Some(LogosState::State0),
                                    _Option::Some(LogosState::State0),
                                    _Option::Some(LogosState::State0),
                                    _Option::Some(LogosState::State0),
                                    _Option::Some(LogosState::State0),
                                    _Option::Some(LogosState::State0),
                                    _Option::Some(LogosState::State0),
                                    _Option::Some(LogosState::State0),
                                    _Option::Some(LogosState::State0),
                                    _Option::Some(LogosState::State0),
                                    _Option::Some(LogosState::State0),
                                    _Option::Some(LogosState::State0),
                                    _Option::Some(LogosState::State0),
                                    _Option::Some(LogosState::State0),
                                    _Option::Some(LogosState::State0),
                                    _Option::Some(LogosState::State0),
                                    _Option::Some(LogosState::State0),
                                    _Option::Some(LogosState::State0),
                                    _Option::Some(LogosState::State0),
                                    _Option::Some(LogosState::State0),
                                    _Option::Some(LogosState::State0),
                                    _Option::Some(LogosState::State0),
                                    _Option::Some(LogosState::State0),
                                    _Option::Some(LogosState::State0),
                                    _Option::Some(LogosState::State0),
                                    _Option::Some(LogosState::State0),
                                    _Option::Some(LogosState::State0),
                                    _Option::Some(LogosState::State0),
                                    _Option::Some(LogosState::State0),
                                    _Option::Some(LogosState::State0),
                                    _Option::Some(LogosState::State0),
                                    _Option::Some(LogosState::State0),
                                    _Option::Some(LogosState::State0),
                                    _Option::Some(LogosState::State0),
                                    _Option::Some(LogosState::State0),
                                    _Option::Some(LogosState::State0),
                                    _Option::Some(LogosState::State0),
                                    _Option::Some(LogosState::State0),
                                    _Option::Some(LogosState::State0),
                                    _Option::Some(LogosState::State0),
                                    _Option::Some(LogosState::State0),
                                    _Option::Some(LogosState::State0),
                                    _Option::Some(LogosState::State0),
                                    _Option::Some(LogosState::State0),
                                    _Option::Some(LogosState::State0),
                                    _Option::Some(LogosState::State0),
                                    _Option::Some(LogosState::State0),
                                    _Option::Some(LogosState::State0),
                                    _Option::Some(LogosState::State0),
                                    _Option::Some(LogosState::State0),
                                    _Option::Some(LogosState::State0),
                                    _Option::Some(LogosState::State0),
                                    _Option::Some(LogosState::State0),
                                    _Option::Some(LogosState::State0),
                                    _Option::Some(LogosState::State0),
                                    _Option::Some(LogosState::State0),
                                    _Option::Some(LogosState::State0),
                                    _Option::Some(LogosState::State0),
                                    _Option::Some(LogosState::State0),
                                    _Option::Some(LogosState::State0),
                                    _Option::Some(LogosState::State0),
                                    _Option::Some(LogosState::State0),
                                    _Option::Some(LogosState::State0),
                                    _Option::Some(LogosState::State0),
                                    _Option::Some(LogosState::State0)];
                        let next_state = TABLE[byte as ::core::primitive::usize];
                        if let _Option::Some(next_state) = next_state {
                            offset += 1;
                            state = next_state;
                            continue;
                        }
                    } else {
                        if lex.is_prefix() {
                            lex.end(lex.offset());
                            return _Option::None
                        }
                        offset += 1;
                        state = LogosState::State0;
                        continue;
                    }
                    {
                        let action = _get_action(lex, offset, context);
                        match action {
                            CallbackResult::Emit(tok) => {
                                return _Option::Some(_Result::Ok(tok));
                            }
                            CallbackResult::Skip => {
                                lex.trivia();
                                offset = lex.offset();
                                context = _Option::None;
                                state = LogosState::State8;
                                continue;
                            }
                            CallbackResult::Error(err) => {
                                return _Option::Some(_Result::Err(err));
                            }
                            CallbackResult::DefaultError => {
                                return _Option::Some(_Result::Err(_make_error(lex)));
                            }
                        }
                    }
                }
                LogosState::State3 => {
                    lex.end(offset);
                    context = _Option::Some(LogosLeaf::Leaf3);
                    let other = lex.read::<::core::primitive::u8>(offset);
                    if let _Option::Some(byte) = other {
                        if (#[allow(non_exhaustive_omitted_patterns)] match byte {
                                    b'a'..=b'z' => true,
                                    _ => false,
                                }) {
                            offset += 1;
                            state = LogosState::State4;
                            continue;
                        }
                    } else {
                        if lex.is_prefix() {
                            lex.end(lex.offset());
                            return _Option::None
                        }
                    }
                    {
                        let action = _get_action(lex, offset, context);
                        match action {
                            CallbackResult::Emit(tok) => {
                                return _Option::Some(_Result::Ok(tok));
                            }
                            CallbackResult::Skip => {
                                lex.trivia();
                                offset = lex.offset();
                                context = _Option::None;
                                state = LogosState::State8;
                                continue;
                            }
                            CallbackResult::Error(err) => {
                                return _Option::Some(_Result::Err(err));
                            }
                            CallbackResult::DefaultError => {
                                return _Option::Some(_Result::Err(_make_error(lex)));
                            }
                        }
                    }
                }
                LogosState::State4 => {
                    lex.end(offset);
                    context = _Option::Some(LogosLeaf::Leaf1);
                    let other = lex.read::<::core::primitive::u8>(offset);
                    if let _Option::Some(byte) = other {
                        if (#[allow(non_exhaustive_omitted_patterns)] match byte {
                                        0u8..=96u8 => true,
                                        _ => false,
                                    }) ||
                                (#[allow(non_exhaustive_omitted_patterns)] match byte {
                                        b'{'..=255u8 => true,
                                        _ => false,
                                    }) {
                            offset += 1;
                            state = LogosState::State0;
                            continue;
                        }
                        if (#[allow(non_exhaustive_omitted_patterns)] match byte {
                                    b'a'..=b'z' => true,
                                    _ => false,
                                }) {
                            offset += 1;
                            state = LogosState::State1;
                            continue;
                        }
                    } else {
                        if lex.is_prefix() {
                            lex.end(lex.offset());
                            return _Option::None
                        }
                        offset += 1;
                        state = LogosState::State0;
                        continue;
                    }
                    {
                        let action = _get_action(lex, offset, context);
                        match action {
                            CallbackResult::Emit(tok) => {
                                return _Option::Some(_Result::Ok(tok));
                            }
                            CallbackResult::Skip => {
                                lex.trivia();
                                offset = lex.offset();
                                context = _Option::None;
                                state = LogosState::State8;
                                continue;
                            }
                            CallbackResult::Error(err) => {
                                return _Option::Some(_Result::Err(err));
                            }
                            CallbackResult::DefaultError => {
                                return _Option::Some(_Result::Err(_make_error(lex)));
                            }
                        }
                    }
                }
                LogosState::State5 => {
                    lex.end(offset - 1);
                    context = _Option::Some(LogosLeaf::Leaf2);
                    let other = lex.read::<::core::primitive::u8>(offset);
                    if let _Option::Some(byte) = other {} else {}
                    {
                        let action = _get_action(lex, offset, context);
                        match action {
                            CallbackResult::Emit(tok) => {
                                return _Option::Some(_Result::Ok(tok));
                            }
                            CallbackResult::Skip => {
                                lex.trivia();
                                offset = lex.offset();
                                context = _Option::None;
                                state = LogosState::State8;
                                continue;
                            }
                            CallbackResult::Error(err) => {
                                return _Option::Some(_Result::Err(err));
                            }
                            CallbackResult::DefaultError => {
                                return _Option::Some(_Result::Err(_make_error(lex)));
                            }
                        }
                    }
                }
                LogosState::State6 => {
                    lex.end(offset);
                    context = _Option::Some(LogosLeaf::Leaf5);
                    let other = lex.read::<::core::primitive::u8>(offset);
                    if let _Option::Some(byte) = other {} else {}
                    {
                        let action = _get_action(lex, offset, context);
                        match action {
                            CallbackResult::Emit(tok) => {
                                return _Option::Some(_Result::Ok(tok));
                            }
                            CallbackResult::Skip => {
                                lex.trivia();
                                offset = lex.offset();
                                context = _Option::None;
                                state = LogosState::State8;
                                continue;
                            }
                            CallbackResult::Error(err) => {
                                return _Option::Some(_Result::Err(err));
                            }
                            CallbackResult::DefaultError => {
                                return _Option::Some(_Result::Err(_make_error(lex)));
                            }
                        }
                    }
                }
                LogosState::State7 => {
                    #[inline]
                    fn loop_test(byte: ::core::primitive::u8)
                        -> ::core::primitive::bool {
                        _TABLE_0[byte as ::core::primitive::usize] & 2u8 == 0
                    }
                    'fast_loop:
                        {
                        while let _Option::Some(arr) =
                                lex.read::<&[::core::primitive::u8; 8usize]>(offset) {
                            if loop_test(arr[0usize]) {
                                offset += 0usize;
                                break 'fast_loop;
                            }
                            if loop_test(arr[1usize]) {
                                offset += 1usize;
                                break 'fast_loop;
                            }
                            if loop_test(arr[2usize]) {
                                offset += 2usize;
                                break 'fast_loop;
                            }
                            if loop_test(arr[3usize]) {
                                offset += 3usize;
                                break 'fast_loop;
                            }
                            if loop_test(arr[4usize]) {
                                offset += 4usize;
                                break 'fast_loop;
                            }
                            if loop_test(arr[5usize]) {
                                offset += 5usize;
                                break 'fast_loop;
                            }
                            if loop_test(arr[6usize]) {
                                offset += 6usize;
                                break 'fast_loop;
                            }
                            if loop_test(arr[7usize]) {
                                offset += 7usize;
                                break 'fast_loop;
                            }
                            offset += 8usize;
                        }
                        while let _Option::Some(byte) =
                                lex.read::<::core::primitive::u8>(offset) {
                            if loop_test(byte) { break 'fast_loop; }
                            offset += 1;
                        }
                    };
                    lex.end(offset);
                    context = _Option::Some(LogosLeaf::Leaf0);
                    let other = lex.read::<::core::primitive::u8>(offset);
                    if let _Option::Some(byte) = other
                        {} else {
                        if lex.is_prefix() {
                            lex.end(lex.offset());
                            return _Option::None
                        }
                    }
                    {
                        let action = _get_action(lex, offset, context);
                        match action {
                            CallbackResult::Emit(tok) => {
                                return _Option::Some(_Result::Ok(tok));
                            }
                            CallbackResult::Skip => {
                                lex.trivia();
                                offset = lex.offset();
                                context = _Option::None;
                                state = LogosState::State8;
                                continue;
                            }
                            CallbackResult::Error(err) => {
                                return _Option::Some(_Result::Err(err));
                            }
                            CallbackResult::DefaultError => {
                                return _Option::Some(_Result::Err(_make_error(lex)));
                            }
                        }
                    }
                }
                LogosState::State8 => {
                    let other = lex.read::<::core::primitive::u8>(offset);
                    if let _Option::Some(byte) = other {
                        const TABLE: [_Option<LogosState>; 256] =
                            [_Option::None, _Option::None, _Option::None, _Option::None,
                                    _Option::None, _Option::None, _Option::None, _Option::None,
                                    _Option::None, _Option::Some(LogosState::State7),
                                    _Option::None, _Option::None, _Option::None, _Option::None,
                                    _Option::None, _Option::None, _Option::None, _Option::None,
                                    _Option::None, _Option::None, _Option::None, _Option::None,
                                    _Option::None, _Option::None, _Option::None, _Option::None,
                                    _Option::None, _Option::None, _Option::None, _Option::None,
                                    _Option::None, _Option::None,
                                    _Option::Some(LogosState::State7), _Option::None,
                                    _Option::None, _Option::None, _Option::None, _Option::None,
                                    _Option::None, _Option::None, _Option::None, _Option::None,
                                    _Option::None, _Option::None, _Option::None, _Option::None,
                                    _Option::None, _Option::None, _Option::None, _Option::None,
                                    _Option::None, _Option::None, _Option::None, _Option::None,
                                    _Option::None, _Option::None, _Option::None, _Option::None,
                                    _Option::None, _Option::None, _Option::None,
                                    _Option::Some(LogosState::State9), _Option::None,
                                    _Option::None, _Option::None, _Option::None, _Option::None,
                                    _Option::None, _Option::None, _Option::None, _Option::None,
                                    _Option::None, _Option::None, _Option::None, _Option::None,
                                    _Option::None, _Option::None, _Option::None, _Option::None,
                                    _Option::None, _Option::None, _Option::None, _Option::None,
                                    _Option::None, _Option::None, _Option::None, _Option::None,
                                    _Option::None, _Option::None, _Option::None, _Option::None,
                                    _Option::None, _Option::None, _Option::None, _Option::None,
                                    _Option::None, _Option::None,
                                    _Option::Some(LogosState::State10),
                                    _Option::Some(LogosState::State4),
                                    _Option::Some(LogosState::State4),
                                    _Option::Some(LogosState::State4),
                                    _Option::Some(LogosState::State4),
                                    _Option::Some(LogosState::State4),
                                    _Option::Some(LogosState::State4),
                                    _Option::Some(LogosState::State4),
                                    _Option::Some(LogosState::State4),
                                    _Option::Some(LogosState::State4),
                                    _Option::Some(LogosState::State4),
                                    _Option::Some(LogosState::State11),
                                    _Option::Some(LogosState::State4),
                                    _Option::Some(LogosState::State4),
                                    _Option::Some(LogosState::State4),
                                    _Option::Some(LogosState::State4),
                                    _Option::Some(LogosState::State4),
                                    _Option::Some(LogosState::State4),
                                    _Option::Some(LogosState::State4),
                                    _Option::Some(LogosState::State4),
                                    _Option::Some(LogosState::State4),
                                    _Option::Some(LogosState::State4),
                                    _Option::Some(LogosState::State4),
                                    _Option::Some(LogosState::State4),
                                    _Option::Some(LogosState::State4),
                                    _Option::Some(LogosState::State4), _Option::None,
                                    _Option::None, _Option::None, _Option::None, _Option::None,
                                    _Option::None, _Option::None, _Option::None, _Option::None,
                                    _Option::None, _Option::None, _Option::None, _Option::None,
                                    _Option::None, _Option::None, _Option::None, _Option::None,
                                    _Option::None, _Option::None, _Option::None, _Option::None,
                                    _Option::None, _Option::None, _Option::None, _Option::None,
                                    _Option::None, _Option::None, _Option::None, _Option::None,
                                    _Option::None, _Option::None, _Option::None, _Option::None,
                                    _Option::None, _Option::None, _Option::None, _Option::None,
                                    _Option::None, _Option::None, _Option::None, _Option::None,
                                    _Option::None, _Option::None, _Option::None, _Option::None,
                                    _Option::None, _Option::None, _Option::None, _Option::None,
                                    _Option::None, _Option::None, _Option::None, _Option::None,
                                    _Option::None, _Option::None, _Option::None, _Option::None,
                                    _Option::None, _Option::None, _Option::None, _Option::None,
                                    _Option::None, _Option::None, _Option::None, _Option::None,
                                    _Option::None, _Option::None, _Option::None, _Option::None,
                                    _Option::None, _Option::None, _Option::None, _Option::None,
                                    _Option::None, _Option::None, _Option::None, _Option::None,
                                    _Option::None, _Option::None, _Option::None, _Option::None,
                                    _Option::None, _Option::None, _Option::None, _Option::None,
                                    _Option::None, _Option::None, _Option::None, _Option::None,
                                    _Option::None, _Option::None, _Option::None, _Option::None,
                                    _Option::None, _Option::None, _Option::None, _Option::None,
                                    _Option::None, _Option::None, _Option::None, _Option::None,
                                    _Option::None, _Option::None, _Option::None, _Option::None,
                                    _Option::None, _Option::None, _Option::None, _Option::None,
                                    _Option::None, _Option::None, _Option::None, _Option::None,
                                    _Option::None, _Option::None, _Option::None, _Option::None,
                                    _Option::None, _Option::None, _Option::None, _Option::None,
                                    _Option::None, _Option::None, _Option::None, _Option::None,
                                    _Option::None, _Option::None, _Option::None, _Option::None,
                                    _Option::None, _Option::None, _Option::None, _Option::None];
                        let next_state = TABLE[byte as ::core::primitive::usize];
                        if let _Option::Some(next_state) = next_state {
                            offset += 1;
                            state = next_state;
                            continue;
                        }
                    } else {
                        if lex.is_prefix() {
                            lex.end(lex.offset());
                            return _Option::None
                        }
                        if lex.offset() == offset { return _Option::None }
                    }
                    {
                        let action = _get_action(lex, offset, context);
                        match action {
                            CallbackResult::Emit(tok) => {
                                return _Option::Some(_Result::Ok(tok));
                            }
                            CallbackResult::Skip => {
                                lex.trivia();
                                offset = lex.offset();
                                context = _Option::None;
                                state = LogosState::State8;
                                continue;
                            }
                            CallbackResult::Error(err) => {
                                return _Option::Some(_Result::Err(err));
                            }
                            CallbackResult::DefaultError => {
                                return _Option::Some(_Result::Err(_make_error(lex)));
                            }
                        }
                    }
                }
                LogosState::State9 => {
                    lex.end(offset);
                    context = _Option::Some(LogosLeaf::Leaf4);
                    let other = lex.read::<::core::primitive::u8>(offset);
                    if let _Option::Some(byte) = other {
                        if (byte == b'!') {
                            offset += 1;
                            state = LogosState::State6;
                            continue;
                        }
                    } else {
                        if lex.is_prefix() {
                            lex.end(lex.offset());
                            return _Option::None
                        }
                    }
                    {
                        let action = _get_action(lex, offset, context);
                        match action {
                            CallbackResult::Emit(tok) => {
                                return _Option::Some(_Result::Ok(tok));
                            }
                            CallbackResult::Skip => {
                                lex.trivia();
                                offset = lex.offset();
                                context = _Option::None;
                                state = LogosState::State8;
                                continue;
                            }
                            CallbackResult::Error(err) => {
                                return _Option::Some(_Result::Err(err));
                            }
                            CallbackResult::DefaultError => {
                                return _Option::Some(_Result::Err(_make_error(lex)));
                            }
                        }
                    }
                }
                LogosState::State10 => {
                    let other = lex.read::<::core::primitive::u8>(offset);
                    if let _Option::Some(byte) = other {
                        if (#[allow(non_exhaustive_omitted_patterns)] match byte {
                                        0u8..=96u8 => true,
                                        _ => false,
                                    }) ||
                                (#[allow(non_exhaustive_omitted_patterns)] match byte {
                                        b'{'..=255u8 => true,
                                        _ => false,
                                    }) {
                            offset += 1;
                            state = LogosState::State0;
                            continue;
                        }
                        if (#[allow(non_exhaustive_omitted_patterns)] match byte {
                                    b'a'..=b'z' => true,
                                    _ => false,
                                }) {
                            offset += 1;
                            state = LogosState::State1;
                            continue;
                        }
                    } else {
                        if lex.is_prefix() {
                            lex.end(lex.offset());
                            return _Option::None
                        }
                        offset += 1;
                        state = LogosState::State5;
                        continue;
                    }
                    {
                        let action = _get_action(lex, offset, context);
                        match action {
                            CallbackResult::Emit(tok) => {
                                return _Option::Some(_Result::Ok(tok));
                            }
                            CallbackResult::Skip => {
                                lex.trivia();
                                offset = lex.offset();
                                context = _Option::None;
                                state = LogosState::State8;
                                continue;
                            }
                            CallbackResult::Error(err) => {
                                return _Option::Some(_Result::Err(err));
                            }
                            CallbackResult::DefaultError => {
                                return _Option::Some(_Result::Err(_make_error(lex)));
                            }
                        }
                    }
                }
                LogosState::State11 => {
                    lex.end(offset);
                    context = _Option::Some(LogosLeaf::Leaf1);
                    let other = lex.read::<::core::primitive::u8>(offset);
                    if let _Option::Some(byte) = other {
                        const TABLE: [_Option<LogosState>; 256] =
                            [_Option::Some(LogosState::State0),
                                    _Option::Some(LogosState::State0),
                                    _Option::Some(LogosState::State0),
                                    _Option::Some(LogosState::State0),
                                    _Option::Some(LogosState::State0),
                                    _Option::Some(LogosState::State0),
                                    _Option::Some(LogosState::State0),
                                    _Option::Some(LogosState::State0),
                                    _Option::Some(LogosState::State0),
                                    _Option::Some(LogosState::State0),
                                    _Option::Some(LogosState::State0),
                                    _Option::Some(LogosState::State0),
                                    _Option::Some(LogosState::State0),
                                    _Option::Some(LogosState::State0),
                                    _Option::Some(LogosState::State0),
                                    _Option::Some(LogosState::State0),
                                    _Option::Some(LogosState::State0),
                                    _Option::Some(LogosState::State0),
                                    _Option::Some(LogosState::State0),
                                    _Option::Some(LogosState::State0),
                                    _Option::Some(LogosState::State0),
                                    _Option::Some(LogosState::State0),
                                    _Option::Some(LogosState::State0),
                                    _Option::Some(LogosState::State0),
                                    _Option::Some(LogosState::State0),
                                    _Option::Some(LogosState::State0),
                                    _Option::Some(LogosState::State0),
                                    _Option::Some(LogosState::State0),
                                    _Option::Some(LogosState::State0),
                                    _Option::Some(LogosState::State0),
                                    _Option::Some(LogosState::State0),
                                    _Option::Some(LogosState::State0),
                                    _Option::Some(LogosState::State0),
                                    _Option::Some(LogosState::State0),
                                    _Option::Some(LogosState::State0),
                                    _Option::Some(LogosState::State0),
                                    _Option::Some(LogosState::State0),
                                    _Option::Some(LogosState::State0),
                                    _Option::Some(LogosState::State0),
                                    _Option::Some(LogosState::State0),
                                    _Option::Some(LogosState::State0),
                                    _Option::Some(LogosState::State0),
                                    _Option::Some(LogosState::State0),
                                    _Option::Some(LogosState::State0),
                                    _Option::Some(LogosState::State0),
                                    _Option::Some(LogosState::State0),
                                    _Option::Some(LogosState::State0),
                                    _Option::Some(LogosState::State0),
                                    _Option::Some(LogosState::State0),
                                    _Option::Some(LogosState::State0),
                                    _Option::Some(LogosState::State0),
                                    _Option::Some(LogosState::State0),
                                    _Option::Some(LogosState::State0),
                                    _Option::Some(LogosState::State0),
                                    _Option::Some(LogosState::State0),
                                    _Option::Some(LogosState::State0),
                                    _Option::Some(LogosState::State0),
                                    _Option::Some(LogosState::State0),
                                    _Option::Some(LogosState::State0),
                                    _Option::Some(LogosState::State0),
                                    _Option::Some(LogosState::State0),
                                    _Option::Some(LogosState::State0),
                                    _Option::Some(LogosState::State0),
                                    _Option::Some(LogosState::State0),
                                    _Option::Some(LogosState::State0),
                                    _Option::Some(LogosState::State0),
                                    _Option::Some(LogosState::State0),
                                    _Option::Some(LogosState::State0),
                                    _Option::Some(LogosState::State0),
                                    _Option::Some(LogosState::State0),
                                    _Option::Some(LogosState::State0),
                                    _Option::Some(LogosState::State0),
                                    _Option::Some(LogosState::State0),
                                    _Option::Some(LogosState::State0),
                                    _Option::Some(LogosState::State0),
                                    _Option::Some(LogosState::State0),
                                    _Option::Some(LogosState::State0),
                                    _Option::Some(LogosState::State0),
                                    _Option::Some(LogosState::State0),
                                    _Option::Some(LogosState::State0),
                                    _Option::Some(LogosState::State0),
                                    _Option::Some(LogosState::State0),
                                    _Option::Some(LogosState::State0),
                                    _Option::Some(LogosState::State0),
                                    _Option::Some(LogosState::State0),
                                    _Option::Some(LogosState::State0),
                                    _Option::Some(LogosState::State0),
                                    _Option::Some(LogosState::State0),
                                    _Option::Some(LogosState::State0),
                                    _Option::Some(LogosState::State0),
                                    _Option::Some(LogosState::State0),
                                    _Option::Some(LogosState::State0),
                                    _Option::Some(LogosState::State0),
                                    _Option::Some(LogosState::State0),
                                    _Option::Some(LogosState::State0),
                                    _Option::Some(LogosState::State0),
                                    _Option::Some(LogosState::State0),
                                    _Option::Some(LogosState::State1),
                                    _Option::Some(LogosState::State1),
                                    _Option::Some(LogosState::State1),
                                    _Option::Some(LogosState::State1),
                                    _Option::Some(LogosState::State2),
                                    _Option::Some(LogosState::State1),
                                    _Option::Some(LogosState::State1),
                                    _Option::Some(LogosState::State1),
                                    _Option::Some(LogosState::State1),
                                    _Option::Some(LogosState::State1),
                                    _Option::Some(LogosState::State1),
                                    _Option::Some(LogosState::State1),
                                    _Option::Some(LogosState::State1),
                                    _Option::Some(LogosState::State1),
                                    _Option::Some(LogosState::State1),
                                    _Option::Some(LogosState::State1),
                                    _Option::Some(LogosState::State1),
                                    _Option::Some(LogosState::State1),
                                    _Option::Some(LogosState::State1),
                                    _Option::Some(LogosState::State1),
                                    _Option::Some(LogosState::State1),
                                    _Option::Some(LogosState::State1),
                                    _Option::Some(LogosState::State1),
                                    _Option::Some(LogosState::State1),
                                    _Option::Some(LogosState::State1),
                                    _Option::Some(LogosState::State1),
                                    _Option::Some(LogosState::State0),
                                    _Option::Some(LogosState::State0),
                                    _Option::Some(LogosState::State0),
                                    _Option::Some(LogosState::State0),
                                    _Option::Some(LogosState::State0),
                                    _Option::Some(LogosState::State0),
                                    _Option::Some(LogosState::State0),
                                    _Option::Some(LogosState::State0),
                                    _Option::Some(LogosState::State0),
                                    _Option::Some(LogosState::State0),
                                    _Option::Some(LogosState::State0),
                                    _Option::Some(LogosState::State0),
                                    _Option::Some(LogosState::State0),
                                    _Option::Some(LogosState::State0),
                                    _Option::Some(LogosState::State0),
                                    _Option::Some(LogosState::State0),
                                    _Option::Some(LogosState::State0),
                                    _Option::Some(LogosState::State0),
                                    _Option::Some(LogosState::State0),
                                    _Option::Some(LogosState::State0),
                                    _Option::Some(LogosState::State0),
                                    _Option::Some(LogosState::State0),
                                    _Option::Some(LogosState::State0),
                                    _Option::Some(LogosState::State0),
                                    _Option::Some(LogosState::State0),
                                    _Option::Some(LogosState::State0),
                                    _Option::Some(LogosState::State0),
                                    _Option::Some(LogosState::State0),
                                    _Option::Some(LogosState::State0),
                                    _Option::Some(LogosState::State0),
                                    _Option::Some(LogosState::State0),
                                    _Option::Some(LogosState::State0),
                                    _Option::Some(LogosState::State0),
                                    _Option::Some(LogosState::State0),
                                    _Option::Some(LogosState::State0),
                                    _Option::Some(LogosState::State0),
                                    _Option::Some(LogosState::State0),
                                    _Option::Some(LogosState::State0),
                                    _Option::Some(LogosState::State0),
                                    _Option::Some(LogosState::State0),
                                    _Option::Some(LogosState::State0),
                                    _Option::Some(LogosState::State0),
                                    _Option::Some(LogosState::State0),
                                    _Option::Some(LogosState::State0),
                                    _Option::Some(LogosState::State0),
                                    _Option::Some(LogosState::State0),
                                    _Option::Some(LogosState::State0),
                                    _Option::Some(LogosState::State0),
                                    _Option::Some(LogosState::State0),
                                    _Option::Some(LogosState::State0),
                                    _Option::Some(LogosState::State0),
                                    _Option::Some(LogosState::State0),
                                    _Option::Some(LogosState::State0),
                                    _Option::Some(LogosState::State0),
                                    _Option::Some(LogosState::State0),
                                    _Option::Some(LogosState::State0),
                                    _Option::Some(LogosState::State0),
                                    _Option::Some(LogosState::State0),
                                    _Option::Some(LogosState::State0),
                                    _Option::Some(LogosState::State0),
                                    _Option::Some(LogosState::State0),
                                    _Option::Some(LogosState::State0),
                                    _Option::Some(LogosState::State0),
                                    _Option::Some(LogosState::State0),
                                    _Option::Some(LogosState::State0),
                                    _Option::Some(LogosState::State0),
                                    _Option::Some(LogosState::State0),
                                    _Option::Some(LogosState::State0),
                                    _Option::Some(LogosState::State0),
                                    _Option::Some(LogosState::State0),
                                    _Option::Some(LogosState::State0),
                                    _Option::Some(LogosState::State0),
                                    _Option::Some(LogosState::State0),
                                    _Option::Some(LogosState::State0),
                                    _Option::Some(LogosState::State0),
                                    _Option::Some(LogosState::State0),
                                    _Option::Some(LogosState::State0),
                                    _Option::Some(LogosState::State0),
                                    _Option::Some(LogosState::State0),
                                    _Option::Some(LogosState::State0),
                                    _Option::Some(LogosState::State0),
                                    _Option::Some(LogosState::State0),
                                    _Option::Some(LogosState::State0),
                                    _Option::Some(LogosState::State0),
                                    _Option::Some(LogosState::State0),
                                    _Option::Some(LogosState::State0),
                                    _Option::Some(LogosState::State0),
                                    _Option::Some(LogosState::State0),
                                    _Option::Some(LogosState::State0),
                                    _Option::Some(LogosState::State0),
                                    _Option::Some(LogosState::State0),
                                    _Option::Some(LogosState::State0),
                                    _Option::Some(LogosState::State0),
                                    _Option::Some(LogosState::State0),
                                    _Option::Some(LogosState::State0),
                                    _Option::Some(LogosState::State0),
                                    _Option::Some(LogosState::State0),
                                    _Option::Some(LogosState::State0),
                                    _Option::Some(LogosState::State0),
                                    _Option::Some(LogosState::State0),
                                    _Option::Some(LogosState::State0),
                                    _Option::Some(LogosState::State0),
                                    _Option::Some(LogosState::State0),
                                    _Option::Some(LogosState::State0),
                                    _Option::Some(LogosState::State0),
                                    _Option::Some(LogosState::State0),
                                    _Option::Some(LogosState::State0),
                                    _Option::Some(LogosState::State0),
                                    _Option::Some(LogosState::State0),
                                    _Option::Some(LogosState::State0),
                                    _Option::Some(LogosState::State0),
                                    _Option::Some(LogosState::State0),
                                    _Option::Some(LogosState::State0),
                                    _Option::Some(LogosState::State0),
                                    _Option::Some(LogosState::State0),
                                    _Option::Some(LogosState::State0),
                                    _Option::Some(LogosState::State0),
                                    _Option::Some(LogosState::State0),
                                    _Option::Some(LogosState::State0),
                                    _Option::Some(LogosState::State0),
                                    _Option::Some(LogosState::State0),
                                    _Option::Some(LogosState::State0),
                                    _Option::Some(LogosState::State0),
                                    _Option::Some(LogosState::State0),
                                    _Option::Some(LogosState::State0),
                                    _Option::Some(LogosState::State0),
                                    _Option::Some(LogosState::State0),
                                    _Option::Some(LogosState::State0),
                                    _Option::Some(LogosState::State0),
                                    _Option::Some(LogosState::State0),
                                    _Option::Some(LogosState::State0),
                                    _Option::Some(LogosState::State0),
                                    _Option::Some(LogosState::State0)];
                        let next_state = TABLE[byte as ::core::primitive::usize];
                        if let _Option::Some(next_state) = next_state {
                            offset += 1;
                            state = next_state;
                            continue;
                        }
                    } else {
                        if lex.is_prefix() {
                            lex.end(lex.offset());
                            return _Option::None
                        }
                        offset += 1;
                        state = LogosState::State0;
                        continue;
                    }
                    {
                        let action = _get_action(lex, offset, context);
                        match action {
                            CallbackResult::Emit(tok) => {
                                return _Option::Some(_Result::Ok(tok));
                            }
                            CallbackResult::Skip => {
                                lex.trivia();
                                offset = lex.offset();
                                context = _Option::None;
                                state = LogosState::State8;
                                continue;
                            }
                            CallbackResult::Error(err) => {
                                return _Option::Some(_Result::Err(err));
                            }
                            CallbackResult::DefaultError => {
                                return _Option::Some(_Result::Err(_make_error(lex)));
                            }
                        }
                    }
                }
            }
        }
    }
}
