#![feature(prelude_import)]
extern crate std;
#[prelude_import]
use std::prelude::rust_2021::*;
use logos::Logos;
#[logos(skip r"[ \t]+")]
pub enum Fx {

    #[regex("[a-z]+")]
    Word,

    #[regex("a$", priority = 10)]
    AEnd,

    #[token("let")]
    Let,

    #[token("=")]
    Eq,

    #[token("==")]
    EqEq,
}
#[automatically_derived]
impl<'s> ::logos::Logos<'s> for Fx {
    type Error = ();
    type Extras = ();
    type Source = ::core::primitive::str;
    fn lex(lex: &mut ::logos::Lexer<'s, Self>)
        ->
            ::core::option::Option<::core::result::Result<Self,
            <Self as ::logos::Logos<'s>>::Error>> {
        use ::logos::internal::{
            LexerInternal, CallbackRetVal, CallbackResult, SkipRetVal,
            SkipResult,
        };
        use ::core::result::Result as _Result;
        use ::core::option::Option as _Option;
        use ::logos::Lexer as _Lexer;
        use ::logos::Logos;
        macro_rules! _fast_loop {
            ($lex : ident, $test : ident, $offset : ident) =>
            {
                'fast_loop :
                {
                    while let _Option :: Some(arr) = $lex.read :: < &
                    [:: core :: primitive :: u8; 8usize] > ($offset)
                    {
                        if $test(arr [0usize])
                        { $offset += 0usize; break 'fast_loop; } if
                        $test(arr [1usize]) { $offset += 1usize; break 'fast_loop; }
                        if $test(arr [2usize])
                        { $offset += 2usize; break 'fast_loop; } if
                        $test(arr [3usize]) { $offset += 3usize; break 'fast_loop; }
                        if $test(arr [4usize])
                        { $offset += 4usize; break 'fast_loop; } if
                        $test(arr [5usize]) { $offset += 5usize; break 'fast_loop; }
                        if $test(arr [6usize])
                        { $offset += 6usize; break 'fast_loop; } if
                        $test(arr [7usize]) { $offset += 7usize; break 'fast_loop; }
                        $offset += 8usize;
                    } while let _Option :: Some(byte) = $lex.read :: < :: core
                    :: primitive :: u8 > ($offset)
                    { if $test(byte) { break 'fast_loop; } $offset += 1; }
                }
            };
        }
        macro_rules! _take_action {
            ($lex : ident, $offset : ident, $context : ident, $state : ident)
            =>
            {
                {
                    let action = _get_action($lex, $offset, $context); match
                    action
                    {
                        CallbackResult :: Emit(tok) =>
                        { return _Option :: Some(_Result :: Ok(tok)); },
                        CallbackResult :: Skip =>
                        {
                            $lex.trivia(); $offset = $lex.offset(); $context = _Option
                            :: None; return state8($lex, $offset, $context);
                        }, CallbackResult :: Error(err) =>
                        { return _Option :: Some(_Result :: Err(err)); },
                        CallbackResult :: DefaultError =>
                        {
                            return _Option :: Some(_Result :: Err(_make_error($lex)));
                        },
                    }
                }
            }
        }
        const _TABLE_0: [::core::primitive::u8; 256] =
            [0u8, 0u8, 0u8, 0u8, 0u8, 0u8, 0u8, 0u8, 0u8, 2u8, 0u8, 0u8, 0u8,
                    0u8, 0u8, 0u8, 0u8, 0u8, 0u8, 0u8, 0u8, 0u8, 0u8, 0u8, 0u8,
                    0u8, 0u8, 0u8, 0u8, 0u8, 0u8, 0u8, 2u8, 0u8, 0u8, 0u8, 0u8,
                    0u8, 0u8, 0u8, 0u8, 0u8, 0u8, 0u8, 0u8, 0u8, 0u8, 0u8, 0u8,
                    0u8, 0u8, 0u8, 0u8, 0u8, 0u8, 0u8, 0u8, 0u8, 0u8, 0u8, 0u8,
                    0u8, 0u8, 0u8, 0u8, 0u8, 0u8, 0u8, 0u8, 0u8, 0u8, 0u8, 0u8,
                    0u8, 0u8, 0u8, 0u8, 0u8, 0u8, 0u8, 0u8, 0u8, 0u8, 0u8, 0u8,
                    0u8, 0u8, 0u8, 0u8, 0u8, 0u8, 0u8, 0u8, 0u8, 0u8, 0u8, 0u8,
                    1u8, 1u8, 1u8, 1u8, 1u8, 1u8, 1u8, 1u8, 1u8, 1u8, 1u8, 1u8,
                    1u8, 1u8, 1u8, 1u8, 1u8, 1u8, 1u8, 1u8, 1u8, 1u8, 1u8, 1u8,
                    1u8, 1u8, 0u8, 0u8, 0u8, 0u8, 0u8, 0u8, 0u8, 0u8, 0u8, 0u8,
                    0u8, 0u8, 0u8, 0u8, 0u8, 0u8, 0u8, 0u8, 0u8, 0u8, 0u8, 0u8,
                    0u8, 0u8, 0u8, 0u8, 0u8, 0u8, 0u8, 0u8, 0u8, 0u8, 0u8, 0u8,
                    0u8, 0u8, 0u8, 0u8, 0u8, 0u8, 0u8, 0u8, 0u8, 0u8, 0u8, 0u8,
                    0u8, 0u8, 0u8, 0u8, 0u8, 0u8, 0u8, 0u8, 0u8, 0u8, 0u8, 0u8,
                    0u8, 0u8, 0u8, 0u8, 0u8, 0u8, 0u8, 0u8, 0u8, 0u8, 0u8, 0u8,
                    0u8, 0u8, 0u8, 0u8, 0u8, 0u8, 0u8, 0u8, 0u8, 0u8, 0u8, 0u8,
                    0u8, 0u8, 0u8, 0u8, 0u8, 0u8, 0u8, 0u8, 0u8, 0u8, 0u8, 0u8,
                    0u8, 0u8, 0u8, 0u8, 0u8, 0u8, 0u8, 0u8, 0u8, 0u8, 0u8, 0u8,
                    0u8, 0u8, 0u8, 0u8, 0u8, 0u8, 0u8, 0u8, 0u8, 0u8, 0u8, 0u8,
                    0u8, 0u8, 0u8, 0u8, 0u8, 0u8, 0u8, 0u8, 0u8, 0u8, 0u8, 0u8,
                    0u8, 0u8, 0u8];
        #[inline]
        fn _make_error<'s>(lex: &mut _Lexer<'s, Fx>)
            -> <Fx as Logos<'s>>::Error {
            <<Fx as Logos<'s>>::Error as ::core::default::Default>::default()
        }
        #[inline]
        fn _get_action<'s>(lex: &mut _Lexer<'s, Fx>,
            offset: ::core::primitive::usize, context: _Option<LogosLeaf>)
            -> CallbackResult<'s, Fx> {
            match context {
                _Option::None => {
                    lex.end_to_boundary(offset.max(lex.offset() + 1));
                    CallbackResult::Error(_make_error(lex))
                }
                _Option::Some(LogosLeaf::Leaf0) => { CallbackResult::Skip }
                _Option::Some(LogosLeaf::Leaf1) => {
                    CallbackResult::Emit(Fx::Word)
                }
                _Option::Some(LogosLeaf::Leaf2) => {
                    CallbackResult::Emit(Fx::AEnd)
                }
                _Option::Some(LogosLeaf::Leaf3) => {
                    CallbackResult::Emit(Fx::Let)
                }
                _Option::Some(LogosLeaf::Leaf4) => {
                    CallbackResult::Emit(Fx::Eq)
                }
                _Option::Some(LogosLeaf::Leaf5) => {
                    CallbackResult::Emit(Fx::EqEq)
                }
            }
        }
        enum LogosLeaf {
            Leaf0 = 0isize,
            Leaf1 = 1isize,
            Leaf2 = 2isize,
            Leaf3 = 3isize,
            Leaf4 = 4isize,
            Leaf5 = 5isize,
        }
        #[automatically_derived]
        #[doc(hidden)]
        unsafe impl ::core::clone::TrivialClone for LogosLeaf { }
        #[automatically_derived]
        impl ::core::clone::Clone for LogosLeaf {
            #[inline]
            fn clone(&self) -> LogosLeaf { *self }
        }
        #[automatically_derived]
        impl ::core::marker::Copy for LogosLeaf { }
        fn state0<'s>(lex: &mut _Lexer<'s, Fx>,
            mut offset: ::core::primitive::usize,
            mut context: _Option<LogosLeaf>)
            -> _Option<_Result<Fx, <Fx as Logos<'s>>::Error>> {
            lex.end(offset - 1);
            context = _Option::Some(LogosLeaf::Leaf1);
            let other = lex.read::<::core::primitive::u8>(offset);
            if let _Option::Some(byte) = other {} else {}
            {
                let action = _get_action(lex, offset, context);
                match action {
                    CallbackResult::Emit(tok) => {
                        return _Option::Some(_Result::Ok(tok));
                    }
                    CallbackResult::Skip => {
                        lex.trivia();
                        offset = lex.offset();
                        context = _Option::None;
                        return state8(lex, offset, context);
                    }
                    CallbackResult::Error(err) => {
                        return _Option::Some(_Result::Err(err));
                    }
                    CallbackResult::DefaultError => {
                        return _Option::Some(_Result::Err(_make_error(lex)));
                    }
                }
            }
        }
        fn state1<'s>(lex: &mut _Lexer<'s, Fx>,
            mut offset: ::core::primitive::usize,
            mut context: _Option<LogosLeaf>)
            -> _Option<_Result<Fx, <Fx as Logos<'s>>::Error>> {
            #[inline]
            fn loop_test(byte: ::core::primitive::u8)
                -> ::core::primitive::bool {
                _TABLE_0[byte as ::core::primitive::usize] & 1u8 == 0
            }
            'fast_loop:
                {
                while let _Option::Some(arr) =
                        lex.read::<&[::core::primitive::u8; 8usize]>(offset) {
                    if loop_test(arr[0usize]) {
                        offset += 0usize;
                        break 'fast_loop;
                    }
                    if loop_test(arr[1usize]) {
                        offset += 1usize;
                        break 'fast_loop;
                    }
                    if loop_test(arr[2usize]) {
                        offset += 2usize;
                        break 'fast_loop;
                    }
                    if loop_test(arr[3usize]) {
                        offset += 3usize;
                        break 'fast_loop;
                    }
                    if loop_test(arr[4usize]) {
                        offset += 4usize;
                        break 'fast_loop;
                    }
                    if loop_test(arr[5usize]) {
                        offset += 5usize;
                        break 'fast_loop;
                    }
                    if loop_test(arr[6usize]) {
                        offset += 6usize;
                        break 'fast_loop;
                    }
                    if loop_test(arr[7usize]) {
                        offset += 7usize;
                        break 'fast_loop;
                    }
                    offset += 8usize;
                }
                while let _Option::Some(byte) =
                        lex.read::<::core::primitive::u8>(offset) {
                    if loop_test(byte) { break 'fast_loop; }
                    offset += 1;
                }
            };
            lex.end(offset + 1);
            context = _Option::Some(LogosLeaf::Leaf1);
            let other = lex.read::<::core::primitive::u8>(offset);
            if let _Option::Some(byte) = other {
                if (#[allow(non_exhaustive_omitted_patterns)] match byte {
                                0u8..=96u8 => true,
                                _ => false,
                            }) ||
                        (#[allow(non_exhaustive_omitted_patterns)] match byte {
                                b'{'..=255u8 => true,
                                _ => false,
                            }) {
                    offset += 1;
                    return state0(lex, offset, context);
                }
            } else {
                if lex.is_prefix() {
                    lex.end(lex.offset());
                    return _Option::None
                }
                offset += 1;
                return state0(lex, offset, context);
            }
            {
                let action = _get_action(lex, offset, context);
                match action {
                    CallbackResult::Emit(tok) => {
                        return _Option::Some(_Result::Ok(tok));
                    }
                    CallbackResult::Skip => {
                        lex.trivia();
                        offset = lex.offset();
                        context = _Option::None;
                        return state8(lex, offset, context);
                    }
                    CallbackResult::Error(err) => {
                        return _Option::Some(_Result::Err(err));
                    }
                    CallbackResult::DefaultError => {
                        return _Option::Some(_Result::Err(_make_error(lex)));
                    }
                }
            }
        }
        fn state2<'s>(lex: &mut _Lexer<'s, Fx>,
            mut offset: ::core::primitive::usize,
            mut context: _Option<LogosLeaf>)
            -> _Option<_Result<Fx, <Fx as Logos<'s>>::Error>> {
            lex.end(offset);
            context = _Option::Some(LogosLeaf::Leaf1);
            let other = lex.read::<::core::primitive::u8>(offset);
            if let _Option::Some(byte) = other {
                enum LogosNextState { ___, State0, State1, State3, }
                #[automatically_derived]
                impl ::core::marker::Copy for LogosNextState { }
                #[automatically_derived]
                #[doc(hidden)]
                unsafe impl ::core::clone::TrivialClone for LogosNextState { }
                #[automatically_derived]
                impl ::core::clone::Clone for LogosNextState {
                    #[inline]
                    fn clone(&self) -> LogosNextState { *self }
                }
                const TABLE: [LogosNextState; 256] =
                    {
                        use LogosNextState::*;
                        [State0, State0, State0, State0, State0, State0, State0,
                                State0, State0, State0, State0, State0, State0, State0,
                                State0, State0, State0, State0, State0, State0, State0,
                                State0, State0, State0, State0, State0, State0, State0,
                                State0, State0, State0, State0, State0, State0, State0,
                                State0, State0, State0, State0, State0, State0, State0,
                                State0, State0, State0, State0, State0, State0, State0,
                                State0, State0, State0, State0, State0, State0, State0,
                                State0, State0, State0, State0, State0, State0, State0,
                                State0, State0, State0, State0, State0, State0, State0,
                                State0, State0, State0, State0, State0, State0, State0,
                                State0, State0, State0, State0, State0, State0, State0,
                                State0, State0, State0, State0, State0, State0, State0,
                                State0, State0, State0, State0, State0, State0, State1,
                                State1, State1, State1, State1, State1, State1, State1,
                                State1, State1, State1, State1, State1, State1, State1,
                                State1, State1, State1, State1, State3, State1, State1,
                                State1, State1, State1, State1, State0, State0, State0,
                                State0, State0, State0, State0, State0, State0, State0,
                                State0, State0, State0, State0, State0, State0, State0,
                                State0, State0, State0, State0, State0, State0, State0,
                                State0, State0, State0, State0, State0, State0, State0,
                                State0, State0, State0, State0, State0, State0, State0,
                                State0, State0, State0, State0, State0, State0, State0,
                                State0, State0, State0, State0, State0, State0, State0,
                                State0, State0, State0, State0, State0, State0, State0,
                                State0, State0, State0, State0, State0, State0, State0,
                                State0, State0, State0, State0, State0, State0, State0,
                                State0, State0, State0, State0, State0, State0, State0,
                                State0, State0, State0, State0, State0, State0, State0,
                                State0, State0, State0, State0, State0, State0, State0,
                                State0, State0, State0, State0, State0, State0, State0,
                                State0, State0, State0, State0, State0, State0, State0,
                                State0, State0, State0, State0, State0, State0, State0,
                                State0, State0, State0, State0, State0, State0, State0,
                                State0, State0, State0, State0, State0, State0, State0,
                                State0, State0, State0, State0]
                    };
                offset += 1;
                match TABLE[byte as ::core::primitive::usize] {
                    LogosNextState::State0 => {
                        return state0(lex, offset, context);
                    }
                    LogosNextState::State1 => {
                        return state1(lex, offset, context);
                    }
                    LogosNextState::State3 => {
                        return state3(lex, offset, context);
                    }
                    LogosNextState::___ => {}
                }
                offset -= 1;
            } else {
                if lex.is_prefix() {
                    lex.end(lex.offset());
                    return _Option::None
                }
                offset += 1;
                return state0(lex, offset, context);
            }
            {
                let action = _get_action(lex, offset, context);
                match action {
                    CallbackResult::Emit(tok) => {
                        return _Option::Some(_Result::Ok(tok));
                    }
                    CallbackResult::Skip => {
                        lex.trivia();
                        offset = lex.offset();
                        context = _Option::None;
                        return state8(lex, offset, context);
                    }
                    CallbackResult::Error(err) => {
                        return _Option::Some(_Result::Err(err));
                    }
                    CallbackResult::DefaultError => {
                        return _Option::Some(_Result::Err(_make_error(lex)));
                    }
                }
            }
        }
        fn state3<'s>(lex: &mut _Lexer<'s, Fx>,
            mut offset: ::core::primitive::usize,
            mut context: _Option<LogosLeaf>)
            -> _Option<_Result<Fx, <Fx as Logos<'s>>::Error>> {
            lex.end(offset);
            context = _Option::Some(LogosLeaf::Leaf3);
            let other = lex.read::<::core::primitive::u8>(offset);
            if let _Option::Some(byte) = other {
                if (#[allow(non_exhaustive_omitted_patterns)] match byte {
                            b'a'..=b'z' => true,
                            _ => false,
                        }) {
                    offset += 1;
                    return state4(lex, offset, context);
                }
            } else {
                if lex.is_prefix() {
                    lex.end(lex.offset());
                    return _Option::None
                }
            }
            {
                let action = _get_action(lex, offset, context);
                match action {
                    CallbackResult::Emit(tok) => {
                        return _Option::Some(_Result::Ok(tok));
                    }
                    CallbackResult::Skip => {
                        lex.trivia();
                        offset = lex.offset();
                        context = _Option::None;
                        return state8(lex, offset, context);
                    }
                    CallbackResult::Error(err) => {
                        return _Option::Some(_Result::Err(err));
                    }
                    CallbackResult::DefaultError => {
                        return _Option::Some(_Result::Err(_make_error(lex)));
                    }
                }
            }
        }
        fn state4<'s>(lex: &mut _Lexer<'s, Fx>,
            mut offset: ::core::primitive::usize,
            mut context: _Option<LogosLeaf>)
            -> _Option<_Result<Fx, <Fx as Logos<'s>>::Error>> {
            lex.end(offset);
            context = _Option::Some(LogosLeaf::Leaf1);
            let other = lex.read::<::core::primitive::u8>(offset);
            if let _Option::Some(byte) = other {
                if (#[allow(non_exhaustive_omitted_patterns)] match byte {
                                0u8..=96u8 => true,
                                _ => false,
                            }) ||
                        (#[allow(non_exhaustive_omitted_patterns)] match byte {
                                b'{'..=255u8 => true,
                                _ => false,
                            }) {
                    offset += 1;
                    return state0(lex, offset, context);
                }
                if (#[allow(non_exhaustive_omitted_patterns)] match byte {
                            b'a'..=b'z' => true,
                            _ => false,
                        }) {
                    offset += 1;
                    return state1(lex, offset, context);
                }
            } else {
                if lex.is_prefix() {
                    lex.end(lex.offset());
                    return _Option::None
                }
                offset += 1;
                return state0(lex, offset, context);
            }
            {
                let action = _get_action(lex, offset, context);
                match action {
                    CallbackResult::Emit(tok) => {
                        return _Option::Some(_Result::Ok(tok));
                    }
                    CallbackResult::Skip => {
                        lex.trivia();
                        offset = lex.offset();
                        context = _Option::None;
                        return state8(lex, offset, context);
                    }
                    CallbackResult::Error(err) => {
                        return _Option::Some(_Result::Err(err));
                    }
                    CallbackResult::DefaultError => {
                        return _Option::Some(_Result::Err(_make_error(lex)));
                    }
                }
            }
        }
        fn state5<'s>(lex: &mut _Lexer<'s, Fx>,
            mut offset: ::core::primitive::usize,
            mut context: _Option<LogosLeaf>)
            -> _Option<_Result<Fx, <Fx as Logos<'s>>::Error>> {
            lex.end(offset - 1);
            context = _Option::Some(LogosLeaf::Leaf2);
            let other = lex.read::<::core::primitive::u8>(offset);
            if let _Option::Some(byte) = other {} else {}
            {
                let action = _get_action(lex, offset, context);
                match action {
                    CallbackResult::Emit(tok) => {
                        return _Option::Some(_Result::Ok(tok));
                    }
                    CallbackResult::Skip => {
                        lex.trivia();
                        offset = lex.offset();
                        context = _Option::None;
                        return state8(lex, offset, context);
                    }
                    CallbackResult::Error(err) => {
                        return _Option::Some(_Result::Err(err));
                    }
                    CallbackResult::DefaultError => {
                        return _Option::Some(_Result::Err(_make_error(lex)));
                    }
                }
            }
        }
        fn state6<'s>(lex: &mut _Lexer<'s, Fx>,
            mut offset: ::core::primitive::usize,
            mut context: _Option<LogosLeaf>)
            -> _Option<_Result<Fx, <Fx as Logos<'s>>::Error>> {
            lex.end(offset);
            context = _Option::Some(LogosLeaf::Leaf5);
            let other = lex.read::<::core::primitive::u8>(offset);
            if let _Option::Some(byte) = other {} else {}
            {
                let action = _get_action(lex, offset, context);
                match action {
                    CallbackResult::Emit(tok) => {
                        return _Option::Some(_Result::Ok(tok));
                    }
                    CallbackResult::Skip => {
                        lex.trivia();
                        offset = lex.offset();
                        context = _Option::None;
                        return state8(lex, offset, context);
                    }
                    CallbackResult::Error(err) => {
                        return _Option::Some(_Result::Err(err));
                    }
                    CallbackResult::DefaultError => {
                        return _Option::Some(_Result::Err(_make_error(lex)));
                    }
                }
            }
        }
        fn state7<'s>(lex: &mut _Lexer<'s, Fx>,
            mut offset: ::core::primitive::usize,
            mut context: _Option<LogosLeaf>)
            -> _Option<_Result<Fx, <Fx as Logos<'s>>::Error>> {
            #[inline]
            fn loop_test(byte: ::core::primitive::u8)
                -> ::core::primitive::bool {
                _TABLE_0[byte as ::core::primitive::usize] & 2u8 == 0
            }
            'fast_loop:
                {
                while let _Option::Some(arr) =
                        lex.read::<&[::core::primitive::u8; 8usize]>(offset) {
                    if loop_test(arr[0usize]) {
                        offset += 0usize;
                        break 'fast_loop;
                    }
                    if loop_test(arr[1usize]) {
                        offset += 1usize;
                        break 'fast_loop;
                    }
                    if loop_test(arr[2usize]) {
                        offset += 2usize;
                        break 'fast_loop;
                    }
                    if loop_test(arr[3usize]) {
                        offset += 3usize;
                        break 'fast_loop;
                    }
                    if loop_test(arr[4usize]) {
                        offset += 4usize;
                        break 'fast_loop;
                    }
                    if loop_test(arr[5usize]) {
                        offset += 5usize;
                        break 'fast_loop;
                    }
                    if loop_test(arr[6usize]) {
                        offset += 6usize;
                        break 'fast_loop;
                    }
                    if loop_test(arr[7usize]) {
                        offset += 7usize;
                        break 'fast_loop;
                    }
                    offset += 8usize;
                }
                while let _Option::Some(byte) =
                        lex.read::<::core::primitive::u8>(offset) {
                    if loop_test(byte) { break 'fast_loop; }
                    offset += 1;
                }
            };
            lex.end(offset);
            context = _Option::Some(LogosLeaf::Leaf0);
            let other = lex.read::<::core::primitive::u8>(offset);
            if let _Option::Some(byte) = other
                {} else {
                if lex.is_prefix() {
                    lex.end(lex.offset());
                    return _Option::None
                }
            }
            {
                let action = _get_action(lex, offset, context);
                match action {
                    CallbackResult::Emit(tok) => {
                        return _Option::Some(_Result::Ok(tok));
                    }
                    CallbackResult::Skip => {
                        lex.trivia();
                        offset = lex.offset();
                        context = _Option::None;
                        return state8(lex, offset, context);
                    }
                    CallbackResult::Error(err) => {
                        return _Option::Some(_Result::Err(err));
                    }
                    CallbackResult::DefaultError => {
                        return _Option::Some(_Result::Err(_make_error(lex)));
                    }
                }
            }
        }
        fn state8<'s>(lex: &mut _Lexer<'s, Fx>,
            mut offset: ::core::primitive::usize,
            mut context: _Option<LogosLeaf>)
            -> _Option<_Result<Fx, <Fx as Logos<'s>>::Error>> {
            let other = lex.read::<::core::primitive::u8>(offset);
            if let _Option::Some(byte) = other {
                enum LogosNextState {
                    ___,
                    State4,
                    State7,
                    State9,
                    State10,
                    State11,
                }
                #[automatically_derived]
                impl ::core::marker::Copy for LogosNextState { }
                #[automatically_derived]
                #[doc(hidden)]
                unsafe impl ::core::clone::TrivialClone for LogosNextState { }
                #[automatically_derived]
                impl ::core::clone::Clone for LogosNextState {
                    #[inline]
                    fn clone(&self) -> LogosNextState { *self }
                }
                const TABLE: [LogosNextState; 256] =
                    {
                        use LogosNextState::*;
                        [___, ___, ___, ___, ___, ___, ___, ___, ___, State7, ___,
                                ___, ___, ___, ___, ___, ___, ___, ___, ___, ___, ___, ___,
                                ___, ___, ___, ___, ___, ___, ___, ___, ___, State7, ___,
                                ___, ___, ___, ___, ___, ___, ___, ___, ___, ___, ___, ___,
                                ___, ___, ___, ___, ___, ___, ___, ___, ___, ___, ___, ___,
                                ___, ___, ___, State9, ___, ___, ___, ___, ___, ___, ___,
                                ___, ___, ___, ___, ___, ___, ___, ___, ___, ___, ___, ___,
                                ___, ___, ___, ___, ___, ___, ___, ___, ___, ___, ___, ___,
                                ___, ___, ___, ___, State10, State4, State4, State4, State4,
                                State4, State4, State4, State4, State4, State4, State11,
                                State4, State4, State4, State4, State4, State4, State4,
                                State4, State4, State4, State4, State4, State4, State4, ___,
                                ___, ___, ___, ___, ___, ___, ___, ___, ___, ___, ___, ___,
                                ___, ___, ___, ___, ___, ___, ___, ___, ___, ___, ___, ___,
                                ___, ___, ___, ___, ___, ___, ___, ___, ___, ___, ___, ___,
                                ___, ___, ___, ___, ___, ___, ___, ___, ___, ___, ___, ___,
                                ___, ___, ___, ___, ___, ___, ___, ___, ___, ___, ___, ___,
                                ___, ___, ___, ___, ___, ___, ___, ___, ___, ___, ___, ___,
                                ___, ___, ___, ___, ___, ___, ___, ___, ___, ___, ___, ___,
                                ___, ___, ___, ___, ___, ___, ___, ___, ___, ___, ___, ___,
                                ___, ___, ___, ___, ___, ___, ___, ___, ___, ___, ___, ___,
                                ___, ___, ___, ___, ___, ___, ___, ___, ___, ___, ___, ___,
                                ___, ___, ___, ___, ___, ___, ___, ___, ___, ___, ___, ___]
                    };
                offset += 1;
                match TABLE[byte as ::core::primitive::usize] {
                    LogosNextState::State4 => {
                        return state4(lex, offset, context);
                    }
                    LogosNextState::State7 => {
                        return state7(lex, offset, context);
                    }
                    LogosNextState::State9 => {
                        return state9(lex, offset, context);
                    }
                    LogosNextState::State10 => {
                        return state10(lex, offset, context);
                    }
                    LogosNextState::State11 => {
                        return state11(lex, offset, context);
                    }
                    LogosNextState::___ => {}
                }
                offset -= 1;
            } else {
                if lex.is_prefix() {
                    lex.end(lex.offset());
                    return _Option::None
                }
                if lex.offset() == offset { return _Option::None }
            }
            {
                let action = _get_action(lex, offset, context);
                match action {
                    CallbackResult::Emit(tok) => {
                        return _Option::Some(_Result::Ok(tok));
                    }
                    CallbackResult::Skip => {
                        lex.trivia();
                        offset = lex.offset();
                        context = _Option::None;
                        return state8(lex, offset, context);
                    }
                    CallbackResult::Error(err) => {
                        return _Option::Some(_Result::Err(err));
                    }
                    CallbackResult::DefaultError => {
                        return _Option::Some(_Result::Err(_make_error(lex)));
                    }
                }
            }
        }
        fn state9<'s>(lex: &mut _Lexer<'s, Fx>,
            mut offset: ::core::primitive::usize,
            mut context: _Option<LogosLeaf>)
            -> _Option<_Result<Fx, <Fx as Logos<'s>>::Error>> {
            lex.end(offset);
            context = _Option::Some(LogosLeaf::Leaf4);
            let other = lex.read::<::core::primitive::u8>(offset);
            if let _Option::Some(byte) = other {
                if (byte == b'=') {
                    offset += 1;
                    return state6(lex, offset, context);
                }
            } else {
                if lex.is_prefix() {
                    lex.end(lex.offset());
                    return _Option::None
                }
            }
            {
                let action = _get_action(lex, offset, context);
                match action {
                    CallbackResult::Emit(tok) => {
                        return _Option::Some(_Result::Ok(tok));
                    }
                    CallbackResult::Skip => {
                        lex.trivia();
                        offset = lex.offset();
                        context = _Option::None;
                        return state8(lex, offset, context);
                    }
                    CallbackResult::Error(err) => {
                        return _Option::Some(_Result::Err(err));
                    }
                    CallbackResult::DefaultError => {
                        return _Option::Some(_Result::Err(_make_error(lex)));
                    }
                }
            }
        }
        fn state10<'s>(lex: &mut _Lexer<'s, Fx>,
            mut offset: ::core::primitive::usize,
            mut context: _Option<LogosLeaf>)
            -> _Option<_Result<Fx, <Fx as Logos<'s>>::Error>> {
            let other = lex.read::<::core::primitive::u8>(offset);
            if let _Option::Some(byte) = other {
                if (#[allow(non_exhaustive_omitted_patterns)] match byte {
                                0u8..=96u8 => true,
                                _ => false,
                            }) ||
                        (#[allow(non_exhaustive_omitted_patterns)] match byte {
                                b'{'..=255u8 => true,
                                _ => false,
                            }) {
                    offset += 1;
                    return state0(lex, offset, context);
                }
                if (#[allow(non_exhaustive_omitted_patterns)] match byte {
                            b'a'..=b'z' => true,
                            _ => false,
                        }) {
                    offset += 1;
                    return state1(lex, offset, context);
                }
            } else {
                if lex.is_prefix() {
                    lex.end(lex.offset());
                    return _Option::None
                }
                offset += 1;
                return state5(lex, offset, context);
            }
            {
                let action = _get_action(lex, offset, context);
                match action {
                    CallbackResult::Emit(tok) => {
                        return _Option::Some(_Result::Ok(tok));
                    }
                    CallbackResult::Skip => {
                        lex.trivia();
                        offset = lex.offset();
                        context = _Option::None;
                        return state8(lex, offset, context);
                    }
                    CallbackResult::Error(err) => {
                        return _Option::Some(_Result::Err(err));
                    }
                    CallbackResult::DefaultError => {
                        return _Option::Some(_Result::Err(_make_error(lex)));
                    }
                }
            }
        }
        fn state11<'s>(lex: &mut _Lexer<'s, Fx>,
            mut offset: ::core::primitive::usize,
            mut context: _Option<LogosLeaf>)
            -> _Option<_Result<Fx, <Fx as Logos<'s>>::Error>> {
            lex.end(offset);
            context = _Option::Some(LogosLeaf::Leaf1);
            let other = lex.read::<::core::primitive::u8>(offset);
            if let _Option::Some(byte) = other {
                enum LogosNextState { ___, State0, State1, State2, }
                #[automatically_derived]
                impl ::core::marker::Copy for LogosNextState { }
                #[automatically_derived]
                #[doc(hidden)]
                unsafe impl ::core::clone::TrivialClone for LogosNextState { }
                #[automatically_derived]
                impl ::core::clone::Clone for LogosNextState {
                    #[inline]
                    fn clone(&self) -> LogosNextState { *self }
                }
                const TABLE: [LogosNextState; 256] =
                    {
                        use LogosNextState::*;
                        [State0, State0, State0, State0, State0, State0, State0,
                                State0, State0, State0, State0, State0, State0, State0,
                                State0, State0, State0, State0, State0, State0, State0,
                                State0, State0, State0, State0, State0, State0, State0,
                                State0, State0, State0, State0, State0, State0, State0,
                                State0, State0, State0, State0, State0, State0, State0,
                                State0, State0, State0, State0, State0, State0, State0,
                                State0, State0, State0, State0, State0, State0, State0,
                                State0, State0, State0, State0, State0, State0, State0,
                                State0, State0, State0, State0, State0, State0, State0,
                                State0, State0, State0, State0, State0, State0, State0,
                                State0, State0, State0, State0, State0, State0, State0,
                                State0, State0, State0, State0, State0, State0, State0,
                                State0, State0, State0, State0, State0, State0, State1,
                                State1, State1, State1, State2, State1, State1, State1,
                                State1, State1, State1, State1, State1, State1, State1,
                                State1, State1, State1, State1, State1, State1, State1,
                                State1, State1, State1, State1, State0, State0, State0,
                                State0, State0, State0, State0, State0, State0, State0,
                                State0, State0, State0, State0, State0, State0, State0,
                                State0, State0, State0, State0, State0, State0, State0,
                                State0, State0, State0, State0, State0, State0, State0,
                                State0, State0, State0, State0, State0, State0, State0,
                                State0, State0, State0, State0, State0, State0, State0,
                                State0, State0, State0, State0, State0, State0, State0,
                                State0, State0, State0, State0, State0, State0, State0,
                                State0, State0, State0, State0, State0, State0, State0,
                                State0, State0, State0, State0, State0, State0, State0,
                                State0, State0, State0, State0, State0, State0, State0,
                                State0, State0, State0, State0, State0, State0, State0,
                                State0, State0, State0, State0, State0, State0, State0,
                                State0, State0, State0, State0, State0, State0, State0,
                                State0, State0, State0, State0, State0, State0, State0,
                                State0, State0, State0, State0, State0, State0, State0,
                                State0, State0, State0, State0, State0, State0, State0,
                                State0, State0, State0, State0, State0, State0, State0,
                                State0, State0, State0, State0]
                    };
                offset += 1;
                match TABLE[byte as ::core::primitive::usize] {
                    LogosNextState::State0 => {
                        return state0(lex, offset, context);
                    }
                    LogosNextState::State1 => {
                        return state1(lex, offset, context);
                    }
                    LogosNextState::State2 => {
                        return state2(lex, offset, context);
                    }
                    LogosNextState::___ => {}
                }
                offset -= 1;
            } else {
                if lex.is_prefix() {
                    lex.end(lex.offset());
                    return _Option::None
                }
                offset += 1;
                return state0(lex, offset, context);
            }
            {
                let action = _get_action(lex, offset, context);
                match action {
                    CallbackResult::Emit(tok) => {
                        return _Option::Some(_Result::Ok(tok));
                    }
                    CallbackResult::Skip => {
                        lex.trivia();
                        offset = lex.offset();
                        context = _Option::None;
                        return state8(lex, offset, context);
                    }
                    CallbackResult::Error(err) => {
                        return _Option::Some(_Result::Err(err));
                    }
                    CallbackResult::DefaultError => {
                        return _Option::Some(_Result::Err(_make_error(lex)));
                    }
                }
            }
        }
        state8(lex, lex.offset(), _Option::None)
    }
}
