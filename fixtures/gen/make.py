#!/usr/bin/env python3
"""Derives the hand-broken generated lexers (positive controls of the G-rules) from base_tail.rs / base_sm.rs, which are the
checked-in `-Zunpretty=expanded` outputs of the small definition `Fx` (see the header of base_tail.rs).
Run once by hand when the base files are refreshed; the outputs are checked in and only parsed, never compiled."""
import os, re
here = os.path.dirname(os.path.abspath(__file__))
tail = open(os.path.join(here, 'base_tail.rs')).read()
sm = open(os.path.join(here, 'base_sm.rs')).read()


def sub(src, old, new, count=1, nth=0):
    idx = -1
    for _ in range(nth + 1):
        idx = src.index(old, idx + 1)
    return src[:idx] + new + src[idx + len(old):]


def w(name, text):
    open(os.path.join(here, name), 'w').write(text)


# G1: a transition that does not consume: drop `offset += 1;` before `return state0(`
t = sub(tail, "offset += 1;\n                    return state0(lex, offset, context);", "return state0(lex, offset, context);")
w('g1_no_consume.rs', t)
# G2: the dispatch read happens behind the position reached by the fast loop
t = sub(tail, "            lex.end(offset);\n            context = _Option::Some(LogosLeaf::Leaf1);\n            let other = lex.read::<::core::primitive::u8>(offset);",
        "            lex.end(offset);\n            context = _Option::Some(LogosLeaf::Leaf1);\n            offset -= 1;\n            let other = lex.read::<::core::primitive::u8>(offset);")
w('g2_backwards.rs', t)
# G5: a state with continuations loses its prefix guard
t = sub(tail, "                if lex.is_prefix() {\n                    lex.end(lex.offset());\n                    return _Option::None\n                }\n                offset += 1;", "                offset += 1;")
w('g5_no_guard.rs', t)
# G9c: Skip restarts without lex.trivia()
t = tail.replace("                        lex.trivia();\n", "")
w('g9c_no_trivia.rs', t)
# G10: records past the read position
t = sub(tail, "            lex.end(offset);\n            context = _Option::Some(LogosLeaf::Leaf1);", "            lex.end(offset + 1);\n            context = _Option::Some(LogosLeaf::Leaf1);")
w('g10_record_ahead.rs', t)
# G11: chunk byte 3 ends the loop with the wrong advance
t = sub(tail, "                        offset += 3usize;", "                        offset += 2usize;")
w('g11_chunk_advance.rs', t)
# G6a: error end is not max(offset, start + 1) rounded to a boundary
t = sub(tail, "lex.end_to_boundary(offset.max(lex.offset() + 1));", "lex.end(offset);")
w('g6a_error_end.rs', t)
# G4: the root forgets to return None at end of input
t = sub(tail, "                if lex.offset() == offset { return _Option::None }\n", "")
w('g4_root_eoi.rs', t)
# G8: the state-machine lexer takes a different edge than the tail-call lexer (used together with base_tail.rs)
m = re.search(r"if \(byte == b'='\) \{\s*offset \+= 1;\s*state = LogosState::State(\d+);", sm)
assert m, 'expected `=` edge in base_sm.rs'
s2 = sm[:m.start()] + m.group(0).replace("b'='", "b'!'") + sm[m.end():]
w('g8_sm_other_edge.rs', s2)
# G8b: restart by re-entering lex
s3 = sub(sm, "context = _Option::None;\n                                state = LogosState::State", "context = _Option::None;\n                                return <Self as Logos>::lex(lex);\n                                state = LogosState::State")
w('g8b_reenter.rs', s3)
print('fixtures written')
