use proc_macro2::{Span, TokenStream};
use quote::quote;
use quote::{quote_spanned, ToTokens, TokenStreamExt};
use std::borrow::Cow;

#[derive(Default)]
pub struct Errors {
    collected: Vec<SpannedError>,
}

impl Errors {
    pub fn err<M>(&mut self, message: M, span: Span) -> &mut Self
    where
        M: Into<Cow<'static, str>>,
    {
        self.collected.push(SpannedError {
            message: message.into(),
            span,
        });

        self
    }

    pub fn render(self) -> Option<TokenStream> {
        let errors = self.collected;

        // Each of the SpannedErrors get rendered into a compile_error!()
        // invocation (see ToTokens implementation below).
        match errors.len() {
            0 => None,
            _ => Some(quote! {
                fn _logos_derive_compile_errors() {
                    #(#errors)*
                }

                ::core::unimplemented!()
            }),
        }
    }
}

#[derive(Debug)]
pub struct SpannedError {
    message: Cow<'static, str>,
    span: Span,
}

impl ToTokens for SpannedError {
    fn to_tokens(&self, tokens: &mut TokenStream) {
        let message = &*self.message;

        tokens.append_all(quote_spanned!(self.span => {
            ::core::compile_error!(#message)
        }))
    }
}
