macro_rules! debug {
    ($($arg:tt)*) => {
        if cfg!(feature = "debug") {
            eprint!("[{}:{}:{}] ", file!(), line!(), column!());
            eprintln!($($arg)*)
        }
    }
}
