use std::fmt::Write;

use proc_macro2::{Ident, Span};
use syn::{spanned::Spanned, LitByteStr, LitStr};

use crate::leaf::Callback;
use crate::parser::nested::NestedValue;
use crate::parser::{IgnoreFlags, Parser};

pub struct Definition {
    pub literal: Literal,
    pub priority: Option<usize>,
    pub callback: Option<Callback>,
    pub allow_greedy: Option<bool>,
    pub ignore_flags: IgnoreFlags,
}

pub enum Literal {
    Utf8(LitStr),
    Bytes(LitByteStr),
}

impl Literal {
    /// Escape this literal into a regex_syntax compatible pattern string.
    /// - `literal`: if true, escape any metacharacters in the pattern so that it matches literally.
    ///   This is necessary so that literal byte strings can be implemented properly.
    pub fn escape(&self, literal: bool) -> String {
        match self {
            Literal::Utf8(lit_str) if literal => regex_syntax::escape(&lit_str.value()),
            Literal::Utf8(lit_str) => lit_str.value(),
            Literal::Bytes(lit_byte_str) => {
                let mut pattern = String::new();
                for byte in lit_byte_str.value() {
                    if byte.is_ascii() {
                        let c = byte as char;
                        // A backslash in front of any ASCII character outside of
                        // [0-9A-Za-z_] makes it match verbatim, whether or not it
                        // is a meta character
                        if literal && !(c.is_ascii_alphanumeric() || c == '_') {
                            pattern.push('\\');
                        }
                        pattern.push(c);
                    } else {
                        write!(pattern, "\\x{byte:02X}")
                            .expect("Writing to a string should not fail");
                    }
                }
                pattern
            }
        }
    }

    pub fn token(&self) -> proc_macro2::Literal {
        match self {
            Literal::Utf8(lit_str) => lit_str.token(),
            Literal::Bytes(lit_byte_str) => lit_byte_str.token(),
        }
    }

    pub fn unicode(&self) -> bool {
        matches!(self, Literal::Utf8(_))
    }
}

impl Definition {
    pub fn new(literal: Literal) -> Self {
        Definition {
            literal,
            priority: None,
            callback: None,
            allow_greedy: None,
            ignore_flags: IgnoreFlags::default(),
        }
    }

    pub fn named_attr(&mut self, name: Ident, value: NestedValue, parser: &mut Parser) {
        match (name.to_string().as_str(), value) {
            ("priority", NestedValue::Assign(tokens)) => {
                let prio = match tokens.to_string().parse() {
                    Ok(prio) => prio,
                    Err(_) => {
                        parser.err("Expected an unsigned integer", tokens.span());
                        return;
                    }
                };

                if self.priority.replace(prio).is_some() {
                    parser.err("Resetting previously set priority", tokens.span());
                }
            }
            ("priority", _) => {
                parser.err("Expected: priority = <integer>", name.span());
            }
            ("callback", NestedValue::Assign(tokens)) => {
                let span = tokens.span();
                let callback = match parser.parse_callback(tokens) {
                    Some(callback) => callback,
                    None => {
                        parser.err("Not a valid callback", span);
                        return;
                    }
                };

                if let Some(previous) = self.callback.replace(callback) {
                    parser
                        .err(
                            "Callback has been already set",
                            span.join(name.span()).unwrap_or(span),
                        )
                        .err("Previous callback set here", previous.span());
                }
            }
            ("callback", _) => {
                parser.err("Expected: callback = ...", name.span());
            }
            ("ignore", NestedValue::Group(tokens)) => {
                self.ignore_flags.parse_group(name, tokens, parser);
            }
            ("ignore", _) => {
                parser.err("Expected: ignore(<flag>, ...)", name.span());
            }
            ("allow_greedy", NestedValue::Assign(tokens)) => {
                let allow = match tokens.to_string().parse() {
                    Ok(allow) => allow,
                    Err(_) => {
                        parser.err("Expected `true` or `false`", tokens.span());
                        return;
                    }
                };

                if self.allow_greedy.replace(allow).is_some() {
                    parser.err("Resetting previously set allow_greedy", tokens.span());
                }
            }
            ("allow_greedy", _) => {
                parser.err("Expected: allow_greedy = ...", name.span());
            }
            (unknown, _) => {
                parser.err(
                    format!(
                        "\
                        Unknown nested attribute: {unknown}\n\
                        \n\
                        Expected one of: priority, callback, ignore, allow_greedy\
                        "
                    ),
                    name.span(),
                );
            }
        }
    }
}

impl Literal {
    pub fn span(&self) -> Span {
        match self {
            Literal::Utf8(string) => string.span(),
            Literal::Bytes(bytes) => bytes.span(),
        }
    }
}

impl syn::parse::Parse for Literal {
    fn parse(input: syn::parse::ParseStream) -> syn::Result<Self> {
        let la = input.lookahead1();
        if la.peek(LitStr) {
            Ok(Literal::Utf8(input.parse()?))
        } else if la.peek(LitByteStr) {
            Ok(Literal::Bytes(input.parse()?))
        } else {
            Err(la.error())
        }
    }
}
