use proc_macro2::{Ident, TokenStream, TokenTree};

use crate::parser::Parser;
use crate::util::is_punct;

#[derive(Clone, Copy, PartialEq, Eq, Default)]
pub struct IgnoreFlags {
    pub ignore_case: bool,
}

impl IgnoreFlags {
    /// Parses an identifier and enables it for `self`.
    ///
    /// Valid inputs are (that produces `true`):
    /// * `"case"`
    ///
    /// An error causes this function to return `false` and emits an error to
    /// the given `Parser`.
    fn parse_ident(&mut self, ident: Ident, parser: &mut Parser) -> bool {
        match ident.to_string().as_str() {
            "case" => {
                self.ignore_case = true;
                true
            }
            "ascii_case" => {
                parser.err(
                    "\
                    The flag \"ascii_case\" is no longer supported\
                    ",
                    ident.span(),
                );
                false
            }
            unknown => {
                parser.err(
                    format!(
                        "\
                        Unknown flag: {unknown}\n\
                        \n\
                        Expected one of: case\
                        "
                    ),
                    ident.span(),
                );
                false
            }
        }
    }

    pub fn parse_group(&mut self, name: Ident, tokens: TokenStream, parser: &mut Parser) {
        let mut tokens = tokens.into_iter();
        let mut found_flag = false;

        loop {
            match tokens.next() {
                Some(TokenTree::Ident(ident)) => {
                    if self.parse_ident(ident, parser) {
                        found_flag = true;
                    } else {
                        return;
                    }
                }
                None if found_flag => return,
                _ => {
                    parser.err(
                        "\
                        Invalid ignore flag\n\
                        \n\
                        Expected one of: case\
                        ",
                        name.span(),
                    );
                    return;
                }
            }

            match tokens.next() {
                Some(tt) if is_punct(&tt, ',') => {}
                None => return,
                Some(unexpected_tt) => {
                    parser.err(
                        format!(
                            "\
                            Unexpected token: {:?}\
                            ",
                            unexpected_tt.to_string(),
                        ),
                        unexpected_tt.span(),
                    );
                    return;
                }
            };
        }
    }
}
