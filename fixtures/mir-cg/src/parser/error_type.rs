use proc_macro2::{Span, TokenStream};
use syn::spanned::Spanned;
use syn::Ident;

use crate::leaf::Callback;
use crate::parser::nested::NestedValue;
use crate::parser::Parser;

pub struct ErrorType {
    pub ty: TokenStream,
    pub callback: Option<Callback>,
}

impl Default for ErrorType {
    fn default() -> Self {
        ErrorType {
            ty: quote::quote!(()),
            callback: None,
        }
    }
}

impl ErrorType {
    pub fn new(ty: TokenStream) -> Self {
        Self { ty, callback: None }
    }

    pub fn named_attr(&mut self, name: Ident, value: NestedValue, parser: &mut Parser) {
        match (name.to_string().as_str(), value) {
            ("callback", NestedValue::Assign(tokens)) => {
                let span = tokens.span();
                let callback = match parser.parse_callback(tokens) {
                    Some(callback) => callback,
                    None => {
                        parser.err("Not a valid callback", span);
                        return;
                    }
                };

                if let Some(previous) = self.callback.replace(callback) {
                    parser
                        .err(
                            "Callback has been already set",
                            span.join(name.span()).unwrap_or(span),
                        )
                        .err("Previous callback set here", previous.span());
                }
            }
            ("callback", _) => {
                parser.err("Expected: callback = ...", name.span());
            }
            (unknown, _) => {
                parser.err(
                    format!(
                        "\
                        Unknown nested attribute: {unknown}\n\
                        \n\
                        Expected one of: callback\
                        "
                    ),
                    name.span(),
                );
            }
        }
    }

    pub fn span(&self) -> Span {
        self.ty.span()
    }
}
