use std::ascii::escape_default;
use std::collections::HashSet;
use std::fmt;
use std::{
    collections::{hash_map::Entry, HashMap},
    ops::RangeInclusive,
};

use dfa_util::{get_states, iter_matches, OwnedDFA};
use regex_automata::{
    dfa::{dense::DFA, Automaton, StartKind},
    nfa::thompson::NFA,
    util::primitives::StateID,
    Anchored, MatchKind,
};

use crate::leaf::{Leaf, LeafId, VariantKind};

mod dfa_util;
mod export;

/// A configuration used to construct a graph
#[derive(Debug)]
pub struct Config {
    /// When true, the graph should only allow matching valid UTF-8 sequences of bytes.
    pub utf8_mode: bool,
}

#[derive(Clone, Debug, PartialEq, Eq, PartialOrd, Ord)]
pub enum GraphError {
    /// Error when the DFA is missing a universal start state
    NoUniversalStart,

    /// Error when a leaf can match the empty string
    EmptyMatch(LeafId),

    /// Disambiguation error when a DFA state matches
    /// two (or more) leaves with the same priority
    Disambiguation(Vec<LeafId>),
}

/// This type holds information about a given [State]. Namely, whether
/// it is a match state for a leaf or not.
#[derive(Clone, Copy, Debug, Default, PartialEq, Eq, Hash)]
pub struct StateType {
    // If non-None, this state matches this leaf, and the match extends from the start offset
    // up to (but not including) the most recently read byte.
    pub accept: Option<LeafId>,
    // If non-None, this state matches this leaf, and the match extends from the start offset
    // through the most recently read byte.
    pub early: Option<LeafId>,
}

impl StateType {
    /// Collapse the `early` and `accept` fields into a single field, if either is set. (Priority
    /// is given to `early`.)
    fn early_or_accept(&self) -> Option<LeafId> {
        self.early.or(self.accept)
    }
}

/// This type uniquely identifies the state of the Logos state machine.
/// It is an index into the `states` field of the [Graph] struct.
#[derive(Copy, Clone, Debug, Hash, PartialEq, Eq, PartialOrd, Ord)]
pub struct State(usize);

impl fmt::Display for State {
    fn fmt(&self, f: &mut fmt::Formatter<'_>) -> fmt::Result {
        write!(f, "state{}", self.0)
    }
}

impl State {
    pub fn pascal_case(&self) -> String {
        format!("State{}", self.0)
    }

    pub fn snake_case(&self) -> String {
        format!("{self}")
    }
}

/// This struct includes all information that should be attached to [State] but does not uniquely
/// identify State, which facilitates building a HashMap<State, StateData> structure.
#[derive(Clone, Debug, Default, PartialEq, Eq, Hash)]
pub struct StateData {
    /// The type of the [State] object this struct defines
    pub state_type: StateType,
    /// The "normal" transitions (those that consume a byte of input) from this state to another
    /// state
    pub normal: Vec<(ByteClass, State)>,
    /// The "eoi" transition (the transition taken if this state immediately precedes the end of
    /// the input), if any.
    pub eoi: Option<State>,
    /// States that can transition to this state
    /// TODO: list when valid
    pub backward: Vec<State>,
}

impl StateData {
    /// Create a new [StateData] object with the given [StateID]
    ///
    /// This is used when constructing the context free graph, where each DFA [StateID] corresponds
    /// uniquely to a [State].
    fn new() -> Self {
        Default::default()
    }

    /// An iterator over all [State] objects directly reachable from this state
    fn iter_children<'a>(&'a self) -> impl Iterator<Item = State> + 'a {
        self.normal
            .iter()
            .map(|(_bc, s)| *s)
            .chain(self.eoi.iter().cloned())
    }

    /// Add a backreference to the given state, which specifies that `self` is reachable from
    /// `state`.
    fn add_back_edge(&mut self, state: State) {
        if let Err(index) = self.backward.binary_search(&state) {
            self.backward.insert(index, state);
        }
    }

    /// Initialize the edges from a hashmap. The graph is rewritten several times while it is
    /// being built, so the edges are only put in their final order by
    /// [StateData::sort_normal_edges] once the state numbers have settled.
    fn set_normal_edges(&mut self, edges: HashMap<State, ByteClass>) {
        self.normal = edges.into_iter().map(|(s, bc)| (bc, s)).collect();
    }

    /// Sort the edges by state number for generated code stability
    fn sort_normal_edges(&mut self) {
        self.normal.sort_unstable_by_key(|(_bc, s)| *s);
    }

    // Determine if there is a byte that doesn't have a next state (is an error) for this state.
    fn can_error(&self) -> bool {
        let mut covered_ranges = self
            .normal
            .iter()
            .flat_map(|(bc, _s)| bc.ranges.iter().cloned())
            .collect::<Vec<_>>();
        covered_ranges.sort_unstable_by_key(|r| *r.start());

        if !covered_ranges
            .first()
            .map(|bc| *bc.start() == 0)
            .unwrap_or(false)
        {
            return true;
        }
        if !covered_ranges
            .last()
            .map(|bc| *bc.end() == 255)
            .unwrap_or(false)
        {
            return true;
        }

        for pair in covered_ranges.windows(2) {
            let first = &pair[0];
            let second = &pair[1];
            if *first.end() + 1 < *second.start() {
                return true;
            }
        }

        false
    }
}

impl fmt::Display for StateData {
    fn fmt(&self, f: &mut fmt::Formatter<'_>) -> fmt::Result {
        write!(f, "StateData(")?;
        if let Some(leaf_id) = self.state_type.accept {
            write!(f, "accept({}) ", leaf_id.0)?
        }
        if let Some(leaf_id) = self.state_type.early {
            write!(f, "early({}) ", leaf_id.0)?
        }
        write!(f, ")")?;
        if f.alternate() {
            writeln!(f, " {{")?;
            for (bc, state) in &self.normal {
                writeln!(f, "  {} => {}", &bc.to_string(), state)?;
            }
            if let Some(eoi_state) = &self.eoi {
                writeln!(f, "  EOI => {eoi_state}")?;
            }
            write!(f, "}}")?;
        }
        Ok(())
    }
}

/// This struct represents a subset of the possible bytes x00 through xFF
///
/// If bytes are added in ascending order (which they are by the graph module), then the ranges are
/// guaranteed to be sorted, non-overlapping, and separated by at least one non-matching byte.
#[derive(Clone, Debug, PartialEq, Eq, Hash)]
pub struct ByteClass {
    pub ranges: Vec<RangeInclusive<u8>>,
}

impl ByteClass {
    /// Create a new empty [ByteClass] that doesn't match any bytes.
    fn new() -> Self {
        ByteClass { ranges: Vec::new() }
    }

    /// Add the `byte` to the set of bytes that are included in this class
    fn add_byte(&mut self, byte: u8) {
        if let Some(last) = self.ranges.last_mut() {
            if last.end() + 1 == byte {
                *last = *last.start()..=byte;
                return;
            }
        }
        self.ranges.push(byte..=byte);
    }

    pub fn to_table(&self) -> [bool; 256] {
        let mut table_bits = [false; 256];
        for range in self.ranges.iter() {
            for byte in range.clone() {
                table_bits[byte as usize] = true;
            }
        }

        table_bits
    }

    pub fn merge(&mut self, other: &ByteClass) {
        // TODO: this could be more efficient
        let my_table = self.to_table();
        let other_table = other.to_table();
        self.ranges.clear();
        for (byte, (mine, theirs)) in my_table.into_iter().zip(other_table).enumerate() {
            if mine || theirs {
                self.add_byte(byte as u8);
            }
        }
    }

    /// Implement this [ByteClass] using a list of [Comparisons].
    pub fn impl_with_cmp(&self) -> Vec<Comparisons> {
        let mut ranges: Vec<Comparisons> = Vec::new();
        for next_range in &self.ranges {
            if let Some(Comparisons { range, except }) = ranges.last_mut() {
                if *next_range.start() == *range.end() + 2 {
                    *range = *range.start()..=*next_range.end();
                    except.push(*next_range.start() - 1);
                    continue;
                }
            }
            ranges.push(Comparisons::new(next_range.clone()));
        }

        ranges
    }
}

impl fmt::Display for ByteClass {
    fn fmt(&self, f: &mut fmt::Formatter<'_>) -> fmt::Result {
        for (idx, range) in self.ranges.iter().enumerate() {
            if range.start() == range.end() {
                write!(f, "{}", escape_default(*range.start()))?;
            } else {
                write!(
                    f,
                    "{}..={}",
                    escape_default(*range.start()),
                    escape_default(*range.end())
                )?;
            }

            if idx < self.ranges.len() - 1 {
                if f.alternate() {
                    writeln!(f)?;
                } else {
                    write!(f, "|")?;
                }
            }
        }

        Ok(())
    }
}

/// This struct represents a contiguous range with an optional list of isolated holes.
///
/// This struct exists because, for example,
///
/// `matches!(byte, 5..=10 | 12..=16)`
///
/// can be implemented more efficiently as
///
/// `(byte >= 5 && byte <= 16 && byte != 11)`
///
/// than
///
/// `(byte < 5 || byte > 10) && (byte < 12 || byte > 16)`
///
/// and the Rust compiler does not always do this for more complex ranges.
pub struct Comparisons {
    pub range: RangeInclusive<u8>,
    pub except: Vec<u8>,
}

impl Comparisons {
    pub fn new(range: RangeInclusive<u8>) -> Self {
        Comparisons {
            range,
            except: Vec::new(),
        }
    }

    pub fn count_ops(&self) -> usize {
        (if *self.range.start() == *self.range.end() {
            // Implement with a single == operation
            1
        } else {
            let mut edges = 0;
            // Only have to check limits that aren't enforced by the type itself
            if *self.range.start() > u8::MIN {
                edges += 1
            }
            if *self.range.end() < u8::MAX {
                edges += 1
            }
            edges
        }) + self.except.len() // One extra != operation for each exception
    }
}

/// This struct represents a complete state machine graph. The semantic are as follows.
///
/// Execution starts in the state indicated by the `root` field. To transition to a new state, the
/// executor reads a byte from the input, and then proceeds to a new state according to the current
/// states transitions (taking the EOI transition if there are no more bytes to read). Whenever the
/// executor reaches a state of the type [StateType::Accept], it should save the current offset - 1
/// into the input. When the executor reads an input byte (or EOI) that has no corresponding
/// transition, it should return a match on the leaf indicated by its context, using the span of
/// the input from where it began the match state to the saved offset.
#[derive(Debug)]
pub struct Graph {
    /// The leaves used to construct the graph
    leaves: Vec<Leaf>,
    /// The dfa used to construct the graph
    dfa: OwnedDFA,
    /// The states (and edges, within [StateData]), that make up the graph
    states: Vec<StateData>,
    /// The initial state (root) of the graph
    root: State,
    /// Any disambiguation errors encountered when constructing the graph
    errors: Vec<GraphError>,
}

impl Graph {
    /// Get the root (initial) state of the graph
    pub fn root(&self) -> State {
        self.root
    }

    /// Iterate over all of the states of the graph
    pub fn iter_states(&self) -> impl Iterator<Item = State> {
        (0..self.states.len()).map(State)
    }

    /// Get a reference to the [StateData] corresponding to a state
    pub fn get_state(&self, state: State) -> &StateData {
        &self.states[state.0]
    }

    /// Get a reference to the leaves used to generate this graph
    pub fn leaves(&self) -> &Vec<Leaf> {
        &self.leaves
    }

    /// Get a reference to the DFA used to generate this graph
    pub fn dfa(&self) -> &OwnedDFA {
        &self.dfa
    }

    /// Iterate over all the disambiguation errors encountered while generating this graph
    pub fn errors<'b>(&'b self) -> impl Iterator<Item = &'b GraphError> + 'b {
        self.errors.iter()
    }

    /// Construct a context-free graph from a set of [Leaf] objects and a [Config]. Context-free
    /// means that the most recently matched leaf is not inherent to the current state, and must be
    /// tracked separately by the matching engine. This is simpler because it means that the
    /// graph's states correspond 1:1 with the DFA's states, but it means you can't statically
    /// dispatch the leaf handlers.
    pub fn new(leaves: Vec<Leaf>, config: Config) -> Result<Self, String> {
        let hirs = leaves
            .iter()
            .map(|leaf| leaf.pattern.hir())
            .collect::<Vec<_>>();

        let nfa_config = NFA::config().shrink(true).utf8(config.utf8_mode);
        let nfa = NFA::compiler()
            .configure(nfa_config)
            .build_many_from_hir(&hirs)
            .map_err(|err| {
                format!("Logos encountered an error compiling the NFA for this regex: {err}")
            })?;

        let dfa_config = DFA::config()
            .accelerate(false)
            // Turning byte classes on makes compilation go faster but makes the DFA
            // representation harder to interpret
            .byte_classes(!cfg!(feature = "debug"))
            // I wasn't able to see a performance difference with this on, but it did
            // make compiling the dfa in a large project take ~15 sec, so leaving it off
            .minimize(false)
            .unicode_word_boundary(true)
            .match_kind(MatchKind::All)
            .start_kind(StartKind::Anchored);
        let dfa = DFA::builder()
            .configure(dfa_config)
            .build_from_nfa(&nfa)
            .map_err(|err| {
                format!("Logos encountered an error compiling the DFA for this regex: {err}")
            })?;

        let mut graph = Graph {
            leaves,
            dfa,
            states: Vec::new(),
            root: State(0),
            errors: Vec::new(),
        };

        let Some(start_id) = graph.dfa.universal_start_state(Anchored::Yes) else {
            graph.errors.push(GraphError::NoUniversalStart);
            return Ok(graph);
        };
        if graph.dfa.has_empty() {
            for (leaf_id, leaf) in graph.leaves.iter().enumerate() {
                if leaf.pattern.hir().properties().minimum_len() == Some(0) {
                    graph.errors.push(GraphError::EmptyMatch(LeafId(leaf_id)));
                }
            }
            return Ok(graph);
        }

        // First, get a list of all states, and map the DFA StateIDs to ascending indexes
        let dfa_lookup = get_states(&graph.dfa, start_id)
            .enumerate()
            .map(|(idx, dfa_id)| (dfa_id, State(idx)))
            .collect::<HashMap<StateID, State>>();

        graph.root = dfa_lookup[&start_id];
        graph.states = vec![StateData::new(); dfa_lookup.len()];

        // Now, for each state, construct its edges and determine which leaves it matches
        for (dfa_id, state_id) in dfa_lookup.iter() {
            let dfa_id = *dfa_id;

            let state_data = &mut graph.states[state_id.0];
            match Self::get_state_type(dfa_id, &graph.leaves, &graph.dfa) {
                Ok(state_type) => state_data.state_type = state_type,
                Err(ambiguous_leaves) => {
                    let only_skips = ambiguous_leaves
                        .iter()
                        .all(|leaf_id| matches!(graph.leaves[leaf_id.0].kind, VariantKind::Skip));
                    if only_skips {
                        // Overlapping skip patterns all discard the matched input and never
                        // produce a token, so there is nothing to disambiguate between them.
                        state_data.state_type.accept = ambiguous_leaves.first().copied();
                    } else {
                        graph
                            .errors
                            .push(GraphError::Disambiguation(ambiguous_leaves));
                    }
                }
            }
            let mut result: HashMap<State, ByteClass> = HashMap::new();
            for input_byte in u8::MIN..=u8::MAX {
                let next_id = graph.dfa.next_state(dfa_id, input_byte);

                // Don't need to account for the dead state
                if next_id.as_usize() == 0 {
                    continue;
                }

                let next_state = dfa_lookup[&next_id];

                result
                    .entry(next_state)
                    .or_insert(ByteClass::new())
                    .add_byte(input_byte);
            }

            state_data.set_normal_edges(result);

            let eoi_id = graph.dfa.next_eoi_state(dfa_id);
            state_data.eoi = if eoi_id.as_usize() == 0 {
                None
            } else {
                Some(dfa_lookup[&eoi_id])
            };

            for child in state_data.iter_children().collect::<Vec<_>>() {
                graph.states[child.0].add_back_edge(*state_id);
            }
        }

        // Sort for generated code stability (by leaf id)
        // as the vec in the DisambiguationError is sorted by leaf id already
        graph.errors.sort_unstable();

        // Find early accept states
        for state in graph.iter_states() {
            let state_data = graph.get_state(state);

            // If the state may not have a next state to go to, it cannot be an early match
            if !state_data.can_error() {
                let child_state_types = state_data
                    .iter_children()
                    .map(|child_state| {
                        let child_state_data = graph.get_state(child_state);
                        child_state_data.state_type.accept
                    })
                    .collect::<HashSet<_>>();

                let child_state_types_vec = child_state_types.into_iter().collect::<Vec<_>>();

                // If all children match the same leaf, this state is an early accepted state
                if let &[Some(leaf_id)] = &*child_state_types_vec {
                    graph.states[state.0].state_type.early = Some(leaf_id);
                }
            }
        }

        // Remove late matches when all incoming edges contain the early match since they are
        // unnecessary in this case.
        for state in graph.iter_states() {
            let state_data = graph.get_state(state);
            if let Some(leaf_id) = state_data.state_type.accept {
                if state_data.backward.iter().any(|&back_state| {
                    graph.get_state(back_state).state_type.early == Some(leaf_id)
                }) {
                    graph.states[state.0].state_type.accept = None;
                }
            }
        }

        // Prune dead ends (states that do not alter the context and do not lead to a state that
        // does).

        // Set up the visit stack with any state that is accepted (and therefore changes the
        // current context).
        let mut visit_stack = graph
            .iter_states()
            .filter(|state| {
                graph
                    .get_state(*state)
                    .state_type
                    .early_or_accept()
                    .is_some()
            })
            .collect::<Vec<_>>();
        // Don't remove the graph root (only happens when there are no leaves)
        visit_stack.push(graph.root);
        let mut reach_accept = visit_stack.iter().cloned().collect::<HashSet<_>>();
        while let Some(state) = visit_stack.pop() {
            // Traverse the graph backwards to include any parents of visited nodes in the set of
            // nodes that can reach an accept state.
            for parent in &graph.get_state(state).backward {
                if reach_accept.insert(*parent) {
                    visit_stack.push(*parent);
                }
            }
        }

        // Now that we have a set of non-dead states, we can remove edges going to dead states.
        for state in graph.iter_states() {
            let state_data = &mut graph.states[state.0];
            state_data
                .normal
                .retain(|(_bc, next_state)| reach_accept.contains(next_state));

            state_data.eoi = state_data.eoi.filter(|state| reach_accept.contains(state));

            state_data.backward.clear();
        }

        // And then remove dead states from the graph entirely.
        graph.retain_states(&reach_accept, true);

        // Now we can deduplicate states based on their edges.
        loop {
            let graph_size = graph.states.len();

            // A map between a states representation and the canonical State index assigned to it.
            let mut state_indexes = HashMap::new();
            // A map of rewrites (key should be rewritten to value in the deduplicated graph).
            let mut state_lookup = HashMap::new();

            for state in graph.iter_states() {
                let state_data = &graph.states[state.0];
                if let Entry::Vacant(e) = state_indexes.entry(state_data) {
                    // State's representation wasn't in state_indexes, state becomes the canonical
                    // index
                    e.insert(state);
                } else {
                    // State's representation is a duplicate, rewrite it to the canonical one
                    state_lookup.insert(state, state_indexes[&state_data]);
                }
            }

            // Perform the state_lookup rewrites
            graph.rewrite_states(&state_lookup);

            // Remove the duplicate states
            graph.retain_states(&state_lookup.keys().cloned().collect(), false);

            if graph.states.len() == graph_size {
                // No more deduplication possible
                break;
            }
        }

        // The state numbers are final now, so the edges only need to be sorted once here
        // (instead of after every single rewrite pass above).
        for state_data in graph.states.iter_mut() {
            state_data.sort_normal_edges();
        }

        Ok(graph)
    }

    /// Get the [StateType] of a [State] from the cache, or calculate it if it isn't present in the
    /// cache.
    fn get_state_type(
        state_id: StateID,
        leaves: &[Leaf],
        dfa: &OwnedDFA,
    ) -> Result<StateType, Vec<LeafId>> {
        // Get a list of all leaves that match in this state
        let matching_leaves = iter_matches(state_id, dfa)
            .map(|leaf_id| (leaf_id, leaves[leaf_id.0].priority))
            .collect::<Vec<_>>();

        // Find the highest priority that matches at this state
        if let Some(&(highest_leaf_id, highest_priority)) = matching_leaves
            .iter()
            .max_by_key(|(_leaf_id, priority)| priority)
        {
            // Find all the leaves that match at said highest priority
            let matching_prio_leaves: Vec<LeafId> = matching_leaves
                .into_iter()
                .filter(|(_leaf_id, priority)| *priority == highest_priority)
                .map(|(leaf_id, _priority)| leaf_id)
                .collect();
            // Ensure that only one leaf matches at said highest priority
            if matching_prio_leaves.len() > 1 {
                return Err(matching_prio_leaves);
            }

            Ok(StateType {
                accept: Some(highest_leaf_id),
                early: None,
            })
        } else {
            Ok(StateType::default())
        }
    }

    /// Retains only the states in `states` if `keep` is true, otherwise removes them.
    fn retain_states(&mut self, states: &HashSet<State>, keep: bool) {
        let rewrite_map: HashMap<State, State> = self
            .iter_states()
            .filter(|state| states.contains(state) == keep)
            .enumerate()
            .map(|(new_idx, old_state)| (old_state, State(new_idx)))
            .collect();

        let mut index = 0;
        self.states.retain(|_state_data| {
            let retain = states.contains(&State(index)) == keep;
            index += 1;
            retain
        });

        self.rewrite_states(&rewrite_map);
    }

    /// Rewrites all edges in the graph. Any edge that went to a key state in `rewrites` is changed to
    /// point to the corresponding value state in `rewrites`.
    fn rewrite_states(&mut self, rewrites: &HashMap<State, State>) {
        for state in self.iter_states() {
            let state_data = &mut self.states[state.0];
            // Replace all states with their deduplicated version
            // Also detect duplicated edges (created by rewrites)
            let mut edge_dedup = HashMap::<State, ByteClass>::new();
            for (bc, next_state) in std::mem::take(&mut state_data.normal) {
                let next_state = *rewrites.get(&next_state).unwrap_or(&next_state);
                match edge_dedup.entry(next_state) {
                    Entry::Occupied(mut entry) => {
                        entry.get_mut().merge(&bc);
                    }
                    Entry::Vacant(entry) => {
                        entry.insert(bc);
                    }
                }
            }
            state_data.set_normal_edges(edge_dedup);

            if let Some(eoi_state) = &mut state_data.eoi {
                if let Some(new_eoi_state) = rewrites.get(eoi_state) {
                    *eoi_state = *new_eoi_state;
                }
            }
        }

        if let Some(new_root) = rewrites.get(&self.root) {
            self.root = *new_root;
        }
    }
}

impl fmt::Display for Graph {
    fn fmt(&self, f: &mut fmt::Formatter<'_>) -> fmt::Result {
        let graph_rendered = self
            .iter_states()
            .map(|state| {
                let transitions = format!("{:#}", self.get_state(state));
                let indented = transitions
                    .lines()
                    .enumerate()
                    .map(|(idx, line)| format!("{}{line}", if idx > 0 { "  " } else { "" }))
                    .collect::<Vec<_>>()
                    .join("\n");
                format!("  {state} => {indented}")
            })
            .collect::<Vec<_>>()
            .join("\n");

        f.write_str(&graph_rendered)
    }
}
