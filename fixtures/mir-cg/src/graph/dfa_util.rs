use std::{collections::HashSet, iter};

use regex_automata::{
    dfa::{dense::DFA, Automaton},
    util::primitives::StateID,
};

use crate::leaf::LeafId;

pub type OwnedDFA = DFA<Vec<u32>>;

/// Returns an iterator over the matching patterns of a given dfa state. Returns leaf ids in
/// ascending order.
pub fn iter_matches<'a>(state_id: StateID, dfa: &'a OwnedDFA) -> impl Iterator<Item = LeafId> + 'a {
    let num_matches = if dfa.is_match_state(state_id) {
        dfa.match_len(state_id)
    } else {
        0
    };

    (0..num_matches).map(move |match_idx| {
        let pattern_id = dfa.match_pattern(state_id, match_idx);
        LeafId::from(pattern_id)
    })
}

/// Returns an iterator over the child states of a given dfa state. Returns children in order of
/// input byte `(0..=255)`, then eoi. No deduplication of child states is performed.
pub fn iter_children<'a>(dfa: &'a OwnedDFA, state: StateID) -> impl Iterator<Item = StateID> + 'a {
    (0..=u8::MAX)
        .map(move |byte| dfa.next_state(state, byte))
        .chain(iter::once(dfa.next_eoi_state(state)))
}

/// This utility function returns every state accessible by the dfa
/// from a root state. Returns the states in ascending order.
pub fn get_states(dfa: &OwnedDFA, root: StateID) -> impl Iterator<Item = StateID> {
    let mut states = HashSet::new();
    states.insert(root);
    let mut explore_stack = vec![root];
    while let Some(state) = explore_stack.pop() {
        for child in iter_children(dfa, state) {
            if states.insert(child) {
                explore_stack.push(child);
            }
        }
    }

    let mut sorted = states.into_iter().collect::<Vec<_>>();
    sorted.sort_unstable();
    sorted.into_iter()
}
