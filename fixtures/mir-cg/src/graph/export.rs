use crate::graph::{Graph, StateType};
use std::fmt::Write;

enum NodeColor {
    Black,
    Green,
}

impl NodeColor {
    fn fmt_dot(&self) -> &'static str {
        match self {
            Self::Black => "black",
            Self::Green => "green",
        }
    }

    fn fmt_mmd(&self) -> &'static str {
        match self {
            Self::Black => "#000000",
            Self::Green => "#00C853",
        }
    }
}

enum NodeShape {
    Rectangle,
    Rhombus,
}

trait ExportFormat {
    fn write_header(s: &mut String) -> std::fmt::Result;

    fn write_footer(s: &mut String) -> std::fmt::Result;

    fn write_node(
        s: &mut String,
        id: &str,
        label: &str,
        color: NodeColor,
        shape: NodeShape,
    ) -> std::fmt::Result;

    fn write_link(s: &mut String, from: &str, to: &str) -> std::fmt::Result;

    fn escape(s: String) -> String;
}

struct Dot;

impl ExportFormat for Dot {
    fn write_header(s: &mut String) -> std::fmt::Result {
        writeln!(s, "digraph {{")?;
        writeln!(s, "node[shape=box];")?;
        writeln!(s, "splines=ortho;")
    }

    fn write_footer(s: &mut String) -> std::fmt::Result {
        writeln!(s, "}}")
    }

    fn write_node(
        s: &mut String,
        id: &str,
        label: &str,
        color: NodeColor,
        shape: NodeShape,
    ) -> std::fmt::Result {
        let shape_str = match shape {
            NodeShape::Rectangle => "box",
            NodeShape::Rhombus => "diamond",
        };
        writeln!(
            s,
            "{id}[label=\"{label}\",color={},shape={}];",
            color.fmt_dot(),
            shape_str
        )
    }

    fn write_link(s: &mut String, from: &str, to: &str) -> std::fmt::Result {
        writeln!(s, "{from}->{to};")
    }

    fn escape(s: String) -> String {
        s.escape_default().to_string()
    }
}

struct Mermaid;

impl ExportFormat for Mermaid {
    // TODO: This should really use the mermaid diagram type
    // `stateDiagram` instead. since it more closely aligns with what we are representing.
    fn write_header(s: &mut String) -> std::fmt::Result {
        writeln!(s, "flowchart TB")
    }

    fn write_footer(_s: &mut String) -> std::fmt::Result {
        Ok(())
    }

    fn write_node(
        s: &mut String,
        id: &str,
        label: &str,
        color: NodeColor,
        shape: NodeShape,
    ) -> std::fmt::Result {
        match shape {
            NodeShape::Rectangle => writeln!(s, "{id}[\"{label}\"]")?,
            NodeShape::Rhombus => writeln!(s, "{id}{{\"{label}\"}}")?,
        }
        writeln!(s, "style {id} stroke:{}", color.fmt_mmd())
    }

    fn write_link(s: &mut String, from: &str, to: &str) -> std::fmt::Result {
        writeln!(s, "{from}-->{to}")
    }

    fn escape(s: String) -> String {
        let mut result = String::new();
        for c in s.chars() {
            match c {
                '"' => {
                    let _ = result.write_str("&quot");
                }
                '\\' => {
                    let _ = result.write_str("\\\\");
                }
                '\n' => {
                    let _ = result.write_str("<br>");
                }
                _ => result.push(c),
            }
        }

        result
    }
}

impl Graph {
    /// Writes the `Graph` to a dot file.
    pub fn get_dot(&self) -> Result<String, std::fmt::Error> {
        self.export_graph::<Dot>()
    }

    /// Writes the `Graph` to a mermaid file.
    pub fn get_mermaid(&self) -> Result<String, std::fmt::Error> {
        self.export_graph::<Mermaid>()
    }

    fn export_graph<Fmt: ExportFormat>(&self) -> Result<String, std::fmt::Error> {
        let shape_ids = self
            .iter_states()
            .map(|state| format!("n{}", state.0))
            .collect::<Vec<_>>();
        let shape_names = self
            .iter_states()
            .map(|state| {
                let state_id = state.0;
                let rendered = match self.states[state_id].state_type {
                    StateType {
                        early: Some(leaf_id),
                        ..
                    } => format!("State {state_id}\nearly({})", leaf_id.0),
                    StateType {
                        accept: Some(leaf_id),
                        ..
                    } => format!("State {state_id}\nlate({})", leaf_id.0),
                    _ => format!("State {state_id}"),
                };
                Fmt::escape(rendered)
            })
            .collect::<Vec<_>>();

        let mut s = String::new();

        Fmt::write_header(&mut s)?;

        for state in self.iter_states() {
            let data = self.get_state(state);

            let id = &shape_ids[state.0];
            let label = &shape_names[state.0];
            let color = if data.state_type.early_or_accept().is_some() {
                NodeColor::Green
            } else {
                NodeColor::Black
            };

            Fmt::write_node(&mut s, id, label, color, NodeShape::Rectangle)?;

            let normal_edges = data
                .normal
                .iter()
                .map(|(bc, to_state)| (Fmt::escape(format!("{:#}", bc)), to_state));

            let eoi_edge = data.eoi.as_ref().map(|state| (String::from("EOI"), state));

            for (label, to_state) in normal_edges.chain(eoi_edge) {
                let to_id = &shape_ids[to_state.0];
                let edge_id = format!("e{}{}", id, to_id);
                Fmt::write_node(
                    &mut s,
                    &edge_id,
                    &label,
                    NodeColor::Black,
                    NodeShape::Rhombus,
                )?;
                Fmt::write_link(&mut s, id, &edge_id)?;
                Fmt::write_link(&mut s, &edge_id, to_id)?;
            }
        }

        Fmt::write_footer(&mut s)?;

        Ok(s)
    }
}

#[cfg(test)]
mod tests {
    use insta::assert_snapshot;
    use proc_macro2::Span;

    use crate::{
        graph::{ByteClass, Config},
        leaf::Leaf,
        pattern::Pattern,
    };

    use super::*;

    fn fmt_range<Fmt: ExportFormat>(bc: &ByteClass) -> String {
        Fmt::escape(format!("{:#}", bc))
    }

    #[test]
    fn range_fmt_single_ascii_byte() {
        let r = ByteClass {
            ranges: vec![0x6C..=0x6C],
        };
        assert_snapshot!(fmt_range::<Dot>(&r), @"l");
        assert_snapshot!(fmt_range::<Mermaid>(&r), @"l");
    }

    #[test]
    fn range_fmt_ascii_bytes() {
        let r = ByteClass {
            ranges: vec![0x61..=0x7A],
        };
        assert_snapshot!(fmt_range::<Dot>(&r), @"a..=z");
        assert_snapshot!(fmt_range::<Mermaid>(&r), @"a..=z");
    }

    #[test]
    fn range_fmt_single_escaped_ascii_byte() {
        let r = ByteClass {
            ranges: vec![0x22..=0x22],
        };
        assert_snapshot!(fmt_range::<Dot>(&r), @r###"\\\""###);
        assert_snapshot!(fmt_range::<Mermaid>(&r), @r###"\\&quot"###);

        let r = ByteClass {
            ranges: vec![0x5C..=0x5C],
        };
        assert_snapshot!(fmt_range::<Dot>(&r), @r###"\\\\"###);
        assert_snapshot!(fmt_range::<Mermaid>(&r), @r###"\\\\"###);
    }

    #[test]
    fn range_fmt_single_hex_byte() {
        let r = ByteClass {
            ranges: vec![0x0A..=0x0A],
        };
        assert_snapshot!(fmt_range::<Dot>(&r), @r###"\\n"###);
        assert_snapshot!(fmt_range::<Mermaid>(&r), @r###"\\n"###);
    }

    #[test]
    fn range_fmt_hex_bytes() {
        let r = ByteClass {
            ranges: vec![0x0A..=0x10],
        };
        assert_snapshot!(fmt_range::<Dot>(&r), @r###"\\n..=\\x10"###);
        assert_snapshot!(fmt_range::<Mermaid>(&r), @r###"\\n..=\\x10"###);
    }

    fn export_graphs(patterns: Vec<&str>) -> [String; 2] {
        let leaves = patterns
            .into_iter()
            .map(|src| {
                Leaf::new(
                    Span::call_site(),
                    Pattern::compile(false, src, src.to_string(), true, false)
                        .expect("Unable to compile pattern"),
                )
            })
            .collect();

        let config = Config { utf8_mode: true };
        let graph = Graph::new(leaves, config).expect("Unable to compile graph");
        let dot = graph.export_graph::<Dot>().unwrap();
        let mmd = graph.export_graph::<Mermaid>().unwrap();

        [dot, mmd]
    }

    #[test]
    fn fork() {
        let patterns = vec!["[a-y]", "z"];

        let [dot, mmd] = export_graphs(patterns);
        assert_snapshot!(dot);
        assert_snapshot!(mmd);
    }

    #[test]
    fn rope() {
        let patterns = vec!["rope"];

        let [dot, mmd] = export_graphs(patterns);
        assert_snapshot!(dot);
        assert_snapshot!(mmd);
    }

    #[test]
    fn rope_with_miss_first() {
        let patterns = vec!["f(ee)?"];

        let [dot, mmd] = export_graphs(patterns);
        assert_snapshot!(dot);
        assert_snapshot!(mmd);
    }

    #[test]
    fn rope_with_miss_any() {
        let patterns = vec!["fe{0,2}"];

        let [dot, mmd] = export_graphs(patterns);
        assert_snapshot!(dot);
        assert_snapshot!(mmd);
    }
}
