use proc_macro2::TokenStream;
use quote::quote;

use crate::graph::{ByteClass, State};

use super::Generator;

impl<'a> Generator<'a> {
    /// Returns a fast loop implementation if State has an edge that points back to itself,
    /// otherwise return an empty TokenStream.
    pub fn maybe_impl_fast_loop(&mut self, state: State) -> TokenStream {
        let state_data = self.graph.get_state(state);
        let self_edge = state_data
            .normal
            .iter()
            .filter(|(_bc, next_state)| next_state == &state)
            .collect::<Vec<_>>();
        assert!(
            self_edge.len() <= 1,
            "There should only be one edge going to any given state"
        );

        if let Some((bc, _)) = self_edge.first() {
            self.impl_fast_loop(bc)
        } else {
            TokenStream::new()
        }
    }

    /// Return a fast loop implementation for the given edge. This fast loop iterates over bytes
    /// starting at `offset` until the given edge no longer applies. Offset will now be the first
    /// offset that transitions away from the current state.
    pub fn impl_fast_loop(&mut self, self_edge: &ByteClass) -> TokenStream {
        // Note: Unlike forks, we don't ever fall back to doing normal comparisons - A LUT is always
        // generated for the loop test. Since we read multiple times, its more likely we make back
        // the time spend possibly brining the lut back into cache. I think it might be better to
        // compare if we are looking for a single byte (i.e. only one comparison operation), but
        // those are rare enough where I don't think its worth the time to optimize it.
        let (ident, loop_mask) = self.add_test_to_lut(self_edge);

        quote! {
            #[inline]
            fn loop_test(byte: ::core::primitive::u8) -> ::core::primitive::bool {
                #ident[byte as ::core::primitive::usize] & #loop_mask == 0
            }
            _fast_loop!(lex, loop_test, offset);
        }
    }
}

/// This macro is included with the generated code. It is used to manually unroll the fast_loop
/// loop.
pub fn fast_loop_macro(unroll_factor: usize) -> TokenStream {
    let index = (0..unroll_factor).collect::<Vec<_>>();

    quote! {
        macro_rules! _fast_loop {
            ($lex:ident, $test:ident, $offset:ident) => {
                // Do one bounds check for multiple bytes till EOF
                'fast_loop: {
                    while let _Option::Some(arr) = $lex.read::<&[::core::primitive::u8; #unroll_factor]>($offset) {
                        #(if $test(arr[#index])   { $offset += #index; break 'fast_loop; })*
                        $offset += #unroll_factor;
                    }

                    while let _Option::Some(byte) = $lex.read::<::core::primitive::u8>($offset) {
                        if $test(byte) { break 'fast_loop; }
                        $offset += 1;
                    }
                }
            };
        }
    }
}
