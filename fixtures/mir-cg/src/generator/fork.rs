use std::collections::HashSet;

use proc_macro2::TokenStream;
use quote::{quote, ToTokens, TokenStreamExt};

use crate::{
    generator::byte_to_tokens,
    graph::{Comparisons, State, StateData},
};

use super::Generator;

impl<'a> Generator<'a> {
    pub fn impl_fork(
        &mut self,
        state: State,
        state_data: &StateData,
        ignore_self: bool,
    ) -> TokenStream {
        if state_data.normal.len() > 2 {
            self.impl_fork_table(state, state_data, ignore_self)
        } else {
            self.impl_fork_match(state, state_data, ignore_self)
        }
    }

    // Generate code for encountering the end of input.
    // If we are not in the middle of a token, return None (the iterator is ended)
    // If the state has an EOI node, transition to it.
    // Otherwise, fall through to later code.
    fn fork_eoi(&self, state: State, state_data: &StateData) -> TokenStream {
        // If we don't have all input, we return `None`
        let mut eoi = TokenStream::default();

        // If the input buffer is a prefix and some transitions are still possible, return None
        if !state_data.normal.is_empty() || state_data.eoi.is_some() {
            eoi.append_all(quote! {
                if lex.is_prefix() {
                    lex.end(lex.offset());
                    return _Option::None
                }
            });
        }

        if state == self.graph.root() {
            // If we just started lexing and are at the end of input, return None
            eoi.append_all(quote! { if lex.offset() == offset { return _Option::None } });
        }
        if let Some(eoi_state) = state_data.eoi {
            let transition = self.state_transition(eoi_state);
            eoi.append_all(quote! {
                offset += 1;
                #transition
            });
        }

        eoi
    }

    fn impl_fork_match(
        &mut self,
        state: State,
        state_data: &StateData,
        ignore_self: bool,
    ) -> TokenStream {
        // Generate a match arm for each byte class, with each body being a state transition
        let mut inner_cases = TokenStream::new();
        for (byte_class, next_state) in &state_data.normal {
            if ignore_self && next_state == &state {
                continue;
            }

            let comparisons = byte_class.impl_with_cmp();
            let cmp_count: usize = comparisons.iter().map(|cmp| cmp.count_ops()).sum();

            let condition = if cmp_count > 2 {
                let (test_ident, test_mask) = self.add_test_to_lut(byte_class);
                quote! { #test_ident[byte as ::core::primitive::usize] & #test_mask != 0 }
            } else {
                let sub_conditions = comparisons
                    .into_iter()
                    .map(|cmp| {
                        let Comparisons { range, except } = cmp;
                        let start = byte_to_tokens(*range.start());
                        let end = byte_to_tokens(*range.end());
                        let exceptions = except
                            .into_iter()
                            .map(|ex| {
                                quote! { && byte != #ex }
                            })
                            .collect::<Vec<_>>();
                        if range.len() == 1 {
                            quote! { (byte == #start) }
                        } else {
                            quote! { (::core::matches!(byte, #start ..= #end) #(#exceptions)*) }
                        }
                    })
                    .collect::<Vec<_>>();

                quote! { #(#sub_conditions) ||* }
            };
            let transition = self.state_transition(*next_state);
            inner_cases.append_all(quote! {
                if #condition {
                    offset += 1;
                    #transition
                }
            });
        }

        let eoi = self.fork_eoi(state, state_data);
        quote! {
            let other = lex.read::<::core::primitive::u8>(offset);
            if let _Option::Some(byte) = other {
                #inner_cases
            } else {
                #eoi
            }
            _take_action!(lex, offset, context, state)
        }
    }

    fn impl_fork_table(
        &mut self,
        state: State,
        state_data: &StateData,
        ignore_self: bool,
    ) -> TokenStream {
        // Generate a match arm for each byte class, with each body being a state transition
        let mut table = vec![None; 256];
        for (byte_class, next_state) in &state_data.normal {
            if ignore_self && next_state == &state {
                continue;
            }

            for range in &byte_class.ranges {
                for byte in range.clone() {
                    table[byte as usize] = Some(*next_state);
                }
            }
        }

        // We need this distinction because the state machine states can be stored directly in the
        // table, while the function calls need a table of enums followed by a match to satisfy the
        // borrow checker (the state function signatures contain lifetimes).
        let body = if self.config.use_state_machine_codegen {
            let table_elements = table
                .into_iter()
                .map(|state_op| match state_op {
                    Some(state) => {
                        let val = self.state_value(state);
                        quote!(_Option::Some(#val))
                    }
                    None => quote!(_Option::None),
                })
                .collect::<Vec<_>>();

            let action = self.state_action(quote!(next_state));
            quote! {
                const TABLE: [_Option<LogosState>; 256] = [#(#table_elements),*];
                let next_state = TABLE[byte as ::core::primitive::usize];
                if let _Option::Some(next_state) = next_state {
                    offset += 1;
                    #action
                }
            }
        } else {
            let states_set = table.iter().filter_map(|&op| op).collect::<HashSet<_>>();
            let mut states = states_set.into_iter().collect::<Vec<_>>();
            // Sort for generated source stability
            states.sort_unstable();

            let idents = states
                .iter()
                .map(|state| &self.state_idents[state][1])
                .collect::<Vec<_>>();

            let actions = states
                .iter()
                .cloned()
                .map(|state| self.state_transition(state))
                .collect::<Vec<_>>();

            // Explicit fallthrough to otherwise case later in the function
            let match_body = quote! {
                #(LogosNextState::#idents => { #actions }),*
                LogosNextState::___ => {},
            };

            let table_elements = table
                .into_iter()
                .map(|state_op| match state_op {
                    Some(state) => self.state_idents[&state][1].to_token_stream(),
                    None => quote!(___),
                })
                .collect::<Vec<_>>();

            // Undo the unconditional increment if we don't have a next state
            quote! {
                #[derive(::core::marker::Copy, ::core::clone::Clone)]
                enum LogosNextState {
                    ___,
                    #(#idents),*
                }
                const TABLE: [LogosNextState; 256] = {
                    use LogosNextState::*;
                    [ #(#table_elements),* ]
                };
                offset += 1;
                match TABLE[byte as ::core::primitive::usize] {
                    #match_body
                }
                offset -= 1;
            }
        };

        let eoi = self.fork_eoi(state, state_data);

        quote! {
            let other = lex.read::<::core::primitive::u8>(offset);
            if let _Option::Some(byte) = other {
                #body
            } else {
                #eoi
            }
            _take_action!(lex, offset, context, state)
        }
    }
}
