use crate::source::Chunk;
use crate::{Filter, FilterResult, Logos, Skip};

/// Trait used by the functions contained in the `Lexicon`.
///
/// # WARNING!
///
/// **This trait, and its methods, are not meant to be used outside of the
/// code produced by `#[derive(Logos)]` macro.**
pub trait LexerInternal<'source> {
    type Token: Logos<'source>;

    /// Get the current offset of token_start
    fn offset(&self) -> usize;

    /// Read a chunk
    fn read<T: Chunk<'source>>(&self, offset: usize) -> Option<T>;

    /// Reset `token_start` to `token_end`.
    fn trivia(&mut self);

    /// Guarantee that `token_end` is at char boundary for `&str`.
    /// Called before returning the default error variant.
    fn end_to_boundary(&mut self, offset: usize);

    /// Set `token_end` to an offset.
    fn end(&mut self, offset: usize);

    /// Returns if the source is only a prefix of the full input.
    fn is_prefix(&self) -> bool;
}

//TODO: Seems to me that we are missing a way to return Ok(Token::Uint) or skip matched input,
// similar to Filter<T> but for unit variants.
pub enum CallbackResult<'a, L: Logos<'a>> {
    Emit(L),
    Error(L::Error),
    DefaultError,
    Skip,
}

pub trait CallbackRetVal<'a, P, L: Logos<'a>> {
    fn construct<C>(self, con: C) -> CallbackResult<'a, L>
    where
        C: Fn(P) -> L;
}

// Field variant implementations

impl<'a, L: Logos<'a>, T> CallbackRetVal<'a, T, L> for T {
    #[inline]
    fn construct<C>(self, con: C) -> CallbackResult<'a, L>
    where
        C: Fn(T) -> L,
    {
        CallbackResult::Emit(con(self))
    }
}

impl<'a, L: Logos<'a>, T, E: Into<L::Error>> CallbackRetVal<'a, T, L> for Result<T, E> {
    #[inline]
    fn construct<C>(self, con: C) -> CallbackResult<'a, L>
    where
        C: Fn(T) -> L,
    {
        match self {
            Ok(val) => CallbackResult::Emit(con(val)),
            Err(err) => CallbackResult::Error(err.into()),
        }
    }
}

impl<'a, L: Logos<'a>, T> CallbackRetVal<'a, T, L> for Option<T> {
    #[inline]
    fn construct<C>(self, con: C) -> CallbackResult<'a, L>
    where
        C: Fn(T) -> L,
    {
        match self {
            Some(val) => CallbackResult::Emit(con(val)),
            None => CallbackResult::Error(Default::default()),
        }
    }
}

impl<'a, L: Logos<'a>, T> CallbackRetVal<'a, T, L> for Filter<T> {
    #[inline]
    fn construct<C>(self, con: C) -> CallbackResult<'a, L>
    where
        C: Fn(T) -> L,
    {
        match self {
            Filter::Emit(val) => CallbackResult::Emit(con(val)),
            Filter::Skip => CallbackResult::Skip,
        }
    }
}

impl<'a, L: Logos<'a>, T, E: Into<L::Error>> CallbackRetVal<'a, T, L> for FilterResult<T, E> {
    #[inline]
    fn construct<C>(self, con: C) -> CallbackResult<'a, L>
    where
        C: Fn(T) -> L,
    {
        match self {
            FilterResult::Emit(val) => CallbackResult::Emit(con(val)),
            FilterResult::Skip => CallbackResult::Skip,
            FilterResult::Error(err) => CallbackResult::Error(err.into()),
        }
    }
}

// Unit variant implementations

impl<'a, L: Logos<'a>> CallbackRetVal<'a, (), L> for bool {
    #[inline]
    fn construct<C>(self, con: C) -> CallbackResult<'a, L>
    where
        C: Fn(()) -> L,
    {
        match self {
            true => CallbackResult::Emit(con(())),
            false => CallbackResult::DefaultError,
        }
    }
}

impl<'a, L: Logos<'a>> CallbackRetVal<'a, (), L> for Skip {
    #[inline]
    fn construct<C>(self, _con: C) -> CallbackResult<'a, L>
    where
        C: Fn(()) -> L,
    {
        CallbackResult::Skip
    }
}

impl<'a, L: Logos<'a>, E: Into<L::Error>> CallbackRetVal<'a, (), L> for Result<Skip, E> {
    #[inline]
    fn construct<C>(self, _con: C) -> CallbackResult<'a, L>
    where
        C: Fn(()) -> L,
    {
        match self {
            Ok(Skip) => CallbackResult::Skip,
            Err(err) => CallbackResult::Error(err.into()),
        }
    }
}

// Any token callbacks (only for unit variants due to impl coherency rules)

impl<'a, L: Logos<'a>> CallbackRetVal<'a, (), L> for L {
    #[inline]
    fn construct<C>(self, _con: C) -> CallbackResult<'a, L>
    where
        C: Fn(()) -> L,
    {
        CallbackResult::Emit(self)
    }
}

impl<'a, L: Logos<'a>, E: Into<L::Error>> CallbackRetVal<'a, (), L> for Result<L, E> {
    #[inline]
    fn construct<C>(self, _con: C) -> CallbackResult<'a, L>
    where
        C: Fn(()) -> L,
    {
        match self {
            Ok(tok) => CallbackResult::Emit(tok),
            Err(err) => CallbackResult::Error(err.into()),
        }
    }
}

impl<'a, L: Logos<'a>> CallbackRetVal<'a, (), L> for Filter<L> {
    #[inline]
    fn construct<C>(self, _con: C) -> CallbackResult<'a, L>
    where
        C: Fn(()) -> L,
    {
        match self {
            Filter::Emit(tok) => CallbackResult::Emit(tok),
            Filter::Skip => CallbackResult::Skip,
        }
    }
}

impl<'a, L: Logos<'a>, E: Into<L::Error>> CallbackRetVal<'a, (), L> for FilterResult<L, E> {
    #[inline]
    fn construct<C>(self, _con: C) -> CallbackResult<'a, L>
    where
        C: Fn(()) -> L,
    {
        match self {
            FilterResult::Emit(tok) => CallbackResult::Emit(tok),
            FilterResult::Skip => CallbackResult::Skip,
            FilterResult::Error(err) => CallbackResult::Error(err.into()),
        }
    }
}

pub enum SkipResult<'a, L: Logos<'a>> {
    Skip,
    Error(L::Error),
}

impl<'a, L: Logos<'a>> From<SkipResult<'a, L>> for CallbackResult<'a, L> {
    fn from(value: SkipResult<'a, L>) -> Self {
        match value {
            SkipResult::Skip => CallbackResult::Skip,
            SkipResult::Error(e) => CallbackResult::Error(e),
        }
    }
}

pub trait SkipRetVal<'a, L: Logos<'a>> {
    fn construct(self) -> SkipResult<'a, L>;
}

impl<'a, L: Logos<'a>> SkipRetVal<'a, L> for () {
    #[inline]
    fn construct(self) -> SkipResult<'a, L> {
        SkipResult::Skip
    }
}

impl<'a, L: Logos<'a>> SkipRetVal<'a, L> for Skip {
    #[inline]
    fn construct(self) -> SkipResult<'a, L> {
        SkipResult::Skip
    }
}

impl<'a, L: Logos<'a>, E: Into<L::Error>> SkipRetVal<'a, L> for Result<(), E> {
    #[inline]
    fn construct(self) -> SkipResult<'a, L> {
        match self {
            Ok(()) => SkipResult::Skip,
            Err(err) => SkipResult::Error(err.into()),
        }
    }
}

impl<'a, L: Logos<'a>, E: Into<L::Error>> SkipRetVal<'a, L> for Result<Skip, E> {
    #[inline]
    fn construct(self) -> SkipResult<'a, L> {
        match self {
            Ok(Skip) => SkipResult::Skip,
            Err(err) => SkipResult::Error(err.into()),
        }
    }
}
