use super::internal::LexerInternal;
use super::Logos;
use crate::source::{self, Source};

use core::fmt::{self, Debug};
use core::ops::{Deref, DerefMut};

/// Byte range in the source.
pub type Span = core::ops::Range<usize>;

/// `Lexer` is the main struct of the crate that allows you to read through a
/// `Source` and produce tokens for enums implementing the `Logos` trait.
pub struct Lexer<'source, Token: Logos<'source>> {
    source: &'source Token::Source,

    /// True if `source` is not the full input but a prefix of it
    is_prefix: bool,

    token_start: usize,
    token_end: usize,

    /// Extras associated with the `Token`.
    pub extras: Token::Extras,
}

impl<'source, Token> Debug for Lexer<'source, Token>
where
    Token: Logos<'source>,
    Token::Source: Debug,
    Token::Extras: Debug,
{
    fn fmt(&self, fmt: &mut fmt::Formatter) -> fmt::Result {
        fmt.debug_struct("Lexer")
            .field("source", &self.source)
            .field("extras", &self.extras)
            .finish_non_exhaustive()
    }
}

impl<'source, Token: Logos<'source>> Lexer<'source, Token> {
    /// Create a new `Lexer`.
    ///
    /// Due to type inference, it might be more ergonomic to construct
    /// it by calling [`Token::lexer`](./trait.Logos.html#method.lexer) on any `Token` with derived `Logos`.
    pub fn new(source: &'source Token::Source) -> Self
    where
        Token::Extras: Default,
    {
        Self::with_extras(source, Default::default())
    }

    /// Create a new `Lexer` with the provided `Extras`.
    ///
    /// Due to type inference, it might be more ergonomic to construct
    /// it by calling [`Token::lexer_with_extras`](./trait.Logos.html#method.lexer_with_extras) on any `Token` with derived `Logos`.
    pub fn with_extras(source: &'source Token::Source, extras: Token::Extras) -> Self {
        Lexer {
            source,
            is_prefix: false,
            extras,
            token_start: 0,
            token_end: 0,
        }
    }

    /// Create a new `Lexer` with only a prefix of the full input `source`.
    ///
    /// The [`Lexer::next`] method will return `None` if more data is needed to know which token to emit.
    pub fn new_partial(source: &'source Token::Source) -> Self
    where
        Token::Extras: Default,
    {
        Self::partial_with_extras(source, Default::default())
    }

    /// Create a new `Lexer` with the provided `Extras` and only a prefix of the full input `source`.
    ///
    /// The [`Lexer::next`] method will return `None` if more data is needed to know which token to emit.
    pub fn partial_with_extras(source: &'source Token::Source, extras: Token::Extras) -> Self {
        Lexer {
            source,
            is_prefix: true,
            extras,
            token_start: 0,
            token_end: 0,
        }
    }

    /// Source from which this Lexer is reading tokens.
    #[inline]
    pub fn source(&self) -> &'source Token::Source {
        self.source
    }

    /// Wrap the `Lexer` in an [`Iterator`](https://doc.rust-lang.org/std/iter/trait.Iterator.html)
    /// that produces tuples of `(Token, `[`Span`](./type.Span.html)`)`.
    ///
    /// # Example
    ///
    /// ```
    /// use logos::Logos;
    ///
    /// #[derive(Debug, PartialEq, Clone, Default)]
    /// enum LexingError {
    ///     NumberParseError,
    ///     #[default]
    ///     Other
    /// }
    ///
    /// impl From<std::num::ParseIntError> for LexingError {
    ///    fn from(_: std::num::ParseIntError) -> Self {
    ///       LexingError::NumberParseError
    ///   }
    /// }
    ///
    /// impl From<std::num::ParseFloatError> for LexingError {
    ///   fn from(_: std::num::ParseFloatError) -> Self {
    ///      LexingError::NumberParseError
    ///   }
    /// }
    ///
    /// #[derive(Logos, Debug, PartialEq)]
    /// #[logos(error = LexingError)]
    /// enum Example {
    ///     #[regex(r"[ \n\t\f]+", logos::skip)]
    ///     Ignored,
    ///
    ///     #[regex("-?[0-9]+", |lex| lex.slice().parse())]
    ///     Integer(i64),
    ///
    ///     #[regex("-?[0-9]+\\.[0-9]+", |lex| lex.slice().parse())]
    ///     Float(f64),
    /// }
    ///
    /// let tokens: Vec<_> = Example::lexer("42 3.14 -5 f").spanned().collect();
    ///
    /// assert_eq!(
    ///     tokens,
    ///     &[
    ///         (Ok(Example::Integer(42)), 0..2),
    ///         (Ok(Example::Float(3.14)), 3..7),
    ///         (Ok(Example::Integer(-5)), 8..10),
    ///         (Err(LexingError::Other), 11..12), // 'f' is not a recognized token
    ///     ],
    /// );
    /// ```
    #[inline]
    pub fn spanned(self) -> SpannedIter<'source, Token> {
        SpannedIter { lexer: self }
    }

    #[inline]
    #[doc(hidden)]
    #[deprecated(since = "0.11.0", note = "please use `span` instead")]
    pub fn range(&self) -> Span {
        self.span()
    }

    /// Get the range for the current token in `Source`.
    #[inline]
    pub fn span(&self) -> Span {
        self.token_start..self.token_end
    }

    /// Get a string slice of the current token.
    #[inline]
    pub fn slice(&self) -> <Token::Source as Source>::Slice<'source> {
        // SAFETY: in bounds if `token_start` and `token_end` are in bounds.
        // * `token_start` is initially zero and is set to `token_end` in `next`, so
        //   it remains in bounds as long as `token_end` remains in bounds.
        // * `token_end` is initially zero and is only incremented in `bump`. `bump`
        //   will panic if `Source::is_boundary` is false.
        // * Thus safety is contingent on the correct implementation of the `is_boundary`
        //   method.
        #[cfg(not(feature = "forbid_unsafe"))]
        unsafe {
            self.source.slice_unchecked(self.span())
        }
        #[cfg(feature = "forbid_unsafe")]
        self.source.slice(self.span()).unwrap()
    }

    /// Get a slice of remaining source, starting at the end of current token.
    #[inline]
    pub fn remainder(&self) -> <Token::Source as Source>::Slice<'source> {
        #[cfg(not(feature = "forbid_unsafe"))]
        unsafe {
            self.source
                .slice_unchecked(self.token_end..self.source.len())
        }
        #[cfg(feature = "forbid_unsafe")]
        self.source
            .slice(self.token_end..self.source.len())
            .unwrap()
    }

    /// Turn this lexer into a lexer for a new token type.
    ///
    /// The new lexer continues to point at the same span as the current lexer,
    /// and the current token becomes the error token of the new token type.
    pub fn morph<Token2>(self) -> Lexer<'source, Token2>
    where
        Token2: Logos<'source, Source = Token::Source>,
        Token::Extras: Into<Token2::Extras>,
    {
        Lexer {
            source: self.source,
            is_prefix: self.is_prefix,
            extras: self.extras.into(),
            // Lexing with the new token type resumes at the end of the current token.
            token_start: self.token_end,
            token_end: self.token_end,
        }
    }

    /// Bumps the end of currently lexed token by `n` bytes.
    ///
    /// # Panics
    ///
    /// Panics if adding `n` to current offset would place the `Lexer` beyond the last byte,
    /// or in the middle of an UTF-8 code point (does not apply when lexing raw `&[u8]`).
    #[inline]
    pub fn bump(&mut self, n: usize) {
        self.token_end += n;

        assert!(
            self.source.is_boundary(self.token_end),
            "Invalid Lexer bump",
        )
    }
}

impl<'source, Token> Clone for Lexer<'source, Token>
where
    Token: Logos<'source> + Clone,
    Token::Extras: Clone,
{
    fn clone(&self) -> Self {
        Lexer {
            extras: self.extras.clone(),
            ..*self
        }
    }
}

impl<'source, Token> Iterator for Lexer<'source, Token>
where
    Token: Logos<'source>,
{
    type Item = Result<Token, Token::Error>;

    #[inline]
    fn next(&mut self) -> Option<Result<Token, Token::Error>> {
        self.token_start = self.token_end;

        Token::lex(self)
    }
}

/// Iterator that pairs tokens with their position in the source.
///
/// Look at [`Lexer::spanned`](./struct.Lexer.html#method.spanned) for documentation.
pub struct SpannedIter<'source, Token: Logos<'source>> {
    lexer: Lexer<'source, Token>,
}

// deriving Clone doesn't infer the necessary `Token::Extras: Clone` bound
impl<'source, Token> Clone for SpannedIter<'source, Token>
where
    Token: Logos<'source> + Clone,
    Token::Extras: Clone,
{
    fn clone(&self) -> Self {
        SpannedIter {
            lexer: self.lexer.clone(),
        }
    }
}

impl<'source, Token> Iterator for SpannedIter<'source, Token>
where
    Token: Logos<'source>,
{
    type Item = (Result<Token, Token::Error>, Span);

    fn next(&mut self) -> Option<Self::Item> {
        self.lexer.next().map(|token| (token, self.lexer.span()))
    }
}

impl<'source, Token> Deref for SpannedIter<'source, Token>
where
    Token: Logos<'source>,
{
    type Target = Lexer<'source, Token>;

    fn deref(&self) -> &Lexer<'source, Token> {
        &self.lexer
    }
}

impl<'source, Token> DerefMut for SpannedIter<'source, Token>
where
    Token: Logos<'source>,
{
    fn deref_mut(&mut self) -> &mut Lexer<'source, Token> {
        &mut self.lexer
    }
}

#[doc(hidden)]
/// # WARNING!
///
/// **This trait, and its methods, are not meant to be used outside of the
/// code produced by `#[derive(Logos)]` macro.**
impl<'source, Token> LexerInternal<'source> for Lexer<'source, Token>
where
    Token: Logos<'source>,
{
    type Token = Token;

    /// Read a `Chunk` at current position of the `Lexer`. If end
    /// of the `Source` has been reached, this will return `0`.
    #[inline]
    fn read<Chunk>(&self, offset: usize) -> Option<Chunk>
    where
        Chunk: source::Chunk<'source>,
    {
        self.source.read(offset)
    }

    /// Reset `token_start` to `token_end`.
    #[inline]
    fn trivia(&mut self) {
        self.token_start = self.token_end;
    }

    /// Set the current token to appropriate `#[error]` variant.
    /// Guarantee that `token_end` is at char boundary for `&str`.
    #[inline]
    fn end_to_boundary(&mut self, offset: usize) {
        self.token_end = self.source.find_boundary(offset);
    }

    #[inline]
    fn end(&mut self, offset: usize) {
        self.token_end = offset;
    }

    #[inline]
    fn offset(&self) -> usize {
        self.token_start
    }

    #[inline]
    fn is_prefix(&self) -> bool {
        self.is_prefix
    }
}
