use std::collections::{HashMap, HashSet};

pub struct Holder {
    pub items: Vec<(u32, u32)>,
}

// ---- must fire ----

pub fn unsorted_return(m: HashMap<u32, u32>) -> Vec<u32> {
    m.into_iter().map(|(k, _v)| k).collect()
}

pub fn loop_in_hash_order(m: &HashMap<u32, u32>) -> String {
    let mut out = String::new();
    for (k, v) in m.iter() {
        out.push_str(&format!("{k}{v}"));
    }
    out
}

pub fn sorted_too_late(s: HashSet<u32>) -> (u32, Vec<u32>) {
    let mut v = s.into_iter().collect::<Vec<_>>();
    let first = v.first().copied().unwrap_or(0);
    v.sort_unstable();
    (first, v)
}

impl Holder {
    pub fn field_left_unsorted(&mut self, m: HashMap<u32, u32>) {
        self.items = m.into_iter().collect();
    }
}
pub fn field_left_unsorted(h: &mut Holder, m: HashMap<u32, u32>) {
    h.items = m.into_iter().collect();
}

// ---- must stay silent ----

pub fn sorted_ok(s: HashSet<u32>) -> Vec<u32> {
    let mut v = s.into_iter().collect::<Vec<_>>();
    v.sort_unstable();
    v
}

pub fn rehashed_ok(m: &HashMap<u32, u32>) -> HashSet<u32> {
    m.keys().cloned().collect()
}

pub fn counted_ok(m: &HashMap<u32, u32>) -> usize {
    m.values().filter(|v| **v > 3).count()
}
