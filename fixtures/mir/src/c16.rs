use std::collections::{HashMap, HashSet};

pub struct Holder {
    pub items: Vec<(u32, u32)>,
}

// ---- must fire ----

pub fn unsorted_return(m: HashMap<u32, u32>) -> Vec<u32> {
    m.into_iter().map(|(k, _v)| k).collect()
}

pub fn loop_in_hash_order(m: &HashMap<u32, u32>) -> String {
    let mut out = String::new();
    for (k, v) in m.iter() {
        out.push_str(&format!("{k}{v}"));
    }
    out
}

pub fn sorted_too_late(s: HashSet<u32>) -> (u32, Vec<u32>) {
    let mut v = s.into_iter().collect::<Vec<_>>();
    let first = v.first().copied().unwrap_or(0);
    v.sort_unstable();
    (first, v)
}

impl Holder {
    pub fn field_left_unsorted(&mut self, m: HashMap<u32, u32>) {
        self.items = m.into_iter().collect();
    }
}
pub fn field_left_unsorted(h: &mut Holder, m: HashMap<u32, u32>) {
    h.items = m.into_iter().collect();
}

// ---- must stay silent ----

pub fn sorted_ok(s: HashSet<u32>) -> Vec<u32> {
    let mut v = s.into_iter().collect::<Vec<_>>();
    v.sort_unstable();
    v
}

pub fn rehashed_ok(m: &HashMap<u32, u32>) -> HashSet<u32> {
    m.keys().cloned().collect()
}

pub fn counted_ok(m: &HashMap<u32, u32>) -> usize {
    m.values().filter(|v| **v > 3).count()
}

// ---- M-C16b controls: state that outlives one expansion (each must be reported) ----

static CACHE: std::sync::LazyLock<std::sync::Mutex<HashMap<String, u32>>> = std::sync::LazyLock::new(Default::default);
static COUNTER: std::sync::atomic::AtomicUsize = std::sync::atomic::AtomicUsize::new(0);
thread_local! { static SEEN: std::cell::RefCell<Vec<u32>> = std::cell::RefCell::new(Vec::new()); }

pub fn entropy_mutex_cache(key: &str) -> u32 {
    let mut c = CACHE.lock().unwrap();
    let n = c.len() as u32;
    *c.entry(key.to_owned()).or_insert(n)
}

pub fn entropy_atomic_counter() -> usize {
    COUNTER.fetch_add(1, std::sync::atomic::Ordering::Relaxed)
}

pub fn entropy_thread_local(x: u32) -> usize {
    SEEN.with(|s| {
        s.borrow_mut().push(x);
        s.borrow().len()
    })
}

// must stay silent: a constant behind a LazyLock
static TABLE: std::sync::LazyLock<Vec<u32>> = std::sync::LazyLock::new(|| vec![1, 2, 3]);
pub fn entropy_const_ok(i: usize) -> u32 {
    TABLE.get(i).copied().unwrap_or(0)
}
