use std::vec::IntoIter;

pub enum Tok {
    Ident(String),
    Punct(char),
}

pub struct Stream(Vec<Tok>);

// The real code iterates proc_macro2::token_stream::IntoIter; the fixture crate has no dependencies, so the
// rule is exercised on a look-alike named token_stream::IntoIter.
pub mod token_stream {
    pub struct IntoIter(pub std::vec::IntoIter<super::Tok>);
    impl Iterator for IntoIter {
        type Item = super::Tok;
        fn next(&mut self) -> Option<super::Tok> {
            self.0.next()
        }
    }
}

// must fire: stops at the first non-identifier, dropping the rest
pub fn abandons_iterator(mut tokens: token_stream::IntoIter) -> Vec<String> {
    let mut out = Vec::new();
    while let Some(Tok::Ident(ident)) = tokens.next() {
        let _punct = tokens.next();
        out.push(ident);
    }
    out
}

// must stay silent: only exhaustion ends the loop
pub fn drains_iterator(mut tokens: token_stream::IntoIter) -> Vec<String> {
    let mut out = Vec::new();
    while let Some(tok) = tokens.next() {
        if let Tok::Ident(ident) = tok {
            out.push(ident);
        }
    }
    out
}
