//! Positive (and negative) controls for the MIR rules. Never executed: only type-checked and analysed.
#![allow(dead_code, unused)]
pub mod c16;
pub mod c17;
