//! Compile-fail witnesses (run with `cargo +nightly test --doc`; error codes are only checked on nightly).
//! Every witness is paired with a compiling twin that differs only in the offending line, so that a witness
//! cannot pass because of an unrelated error (wrong path, missing import).

/// W1: the span fields of `Lexer` cannot be written from outside the crate, so the writer set computed from the
/// MIR of crate `logos` is closed.
///
/// ```compile_fail,E0616
/// use logos::Logos;
/// #[derive(Logos)]
/// enum T { #[token("a")] A }
/// let mut lex = T::lexer("a");
/// lex.token_end = 7; // private field
/// ```
///
/// ```compile_fail,E0616
/// use logos::Logos;
/// #[derive(Logos)]
/// enum T { #[token("a")] A }
/// let mut lex = T::lexer("a");
/// lex.token_start = 7; // private field
/// ```
///
/// ```compile_fail,E0616
/// use logos::Logos;
/// #[derive(Logos)]
/// enum T { #[token("a")] A }
/// let mut lex = T::lexer("a");
/// lex.is_prefix = true; // private field
/// ```
///
/// ```compile_fail,E0616
/// use logos::Logos;
/// #[derive(Logos)]
/// enum T { #[token("a")] A }
/// let mut lex = T::lexer("a");
/// lex.source = "b"; // private field
/// ```
///
/// Compiling twin: the public field `extras` can be written.
/// ```no_run
/// use logos::Logos;
/// #[derive(Logos)]
/// #[logos(extras = u32)]
/// enum T { #[token("a")] A }
/// let mut lex = T::lexer("a");
/// lex.extras = 7;
/// ```
pub struct W1PrivateFields;

/// W2: a `Lexer` cannot be built with a struct literal outside the crate (private fields): E0451.
///
/// ```compile_fail,E0451
/// use logos::Logos;
/// #[derive(Logos)]
/// enum T { #[token("a")] A }
/// let lex: logos::Lexer<'static, T> = logos::Lexer { source: "a", is_prefix: false, token_start: 5, token_end: 1, extras: () };
/// ```
///
/// Compiling twin: the constructor.
/// ```no_run
/// use logos::Logos;
/// #[derive(Logos)]
/// enum T { #[token("a")] A }
/// let lex: logos::Lexer<'static, T> = logos::Lexer::new("a");
/// ```
pub struct W2NoStructLiteral;

/// W3: `morph` requires the target token type to lex the same `Source` type.
///
/// ```compile_fail,E0271
/// use logos::Logos;
/// #[derive(Logos)]
/// enum S { #[token("a")] A }
/// #[derive(Logos)]
/// #[logos(utf8 = false)]
/// enum B { #[token("a")] A }
/// let lex = S::lexer("a");
/// let _ = lex.morph::<B>(); // str vs [u8]
/// ```
///
/// Compiling twin: both token types lex `str`.
/// ```no_run
/// use logos::Logos;
/// #[derive(Logos)]
/// enum S { #[token("a")] A }
/// #[derive(Logos)]
/// enum B { #[token("a")] A }
/// let lex = S::lexer("a");
/// let _ = lex.morph::<B>();
/// ```
pub struct W3MorphSameSource;

/// W4: `clone` takes `&self`: the original cannot be affected (it is not even borrowed mutably).
/// ```no_run
/// use logos::Logos;
/// #[derive(Logos, Clone)]
/// enum T { #[token("a")] A }
/// let lex = T::lexer("a");          // not `mut`
/// let _copy = lex.clone();
/// let _ = lex.span();
/// ```
///
/// and the read-only accessors take `&self`:
/// ```no_run
/// use logos::Logos;
/// #[derive(Logos)]
/// enum T { #[token("a")] A }
/// let lex = T::lexer("a");          // not `mut`
/// let _ = (lex.span(), lex.slice(), lex.remainder(), lex.source());
/// ```
///
/// whereas `bump` needs `&mut self`:
/// ```compile_fail,E0596
/// use logos::Logos;
/// #[derive(Logos)]
/// enum T { #[token("a")] A }
/// let lex = T::lexer("a");          // not `mut`
/// lex.bump(0);
/// ```
pub struct W4Receivers;
