#![feature(rustc_private)]
extern crate rustc_abi;
extern crate rustc_driver;
extern crate rustc_hir;
extern crate rustc_interface;
extern crate rustc_middle;
extern crate rustc_span;

use rustc_driver::Compilation;
use rustc_hir::def::DefKind;
use rustc_hir::def_id::LOCAL_CRATE;
use rustc_middle::mir::*;
use rustc_middle::ty::{self, Instance, TyCtxt, TypingEnv};
use std::fmt::Write as _;

fn esc(s: &str) -> String {
    let mut o = String::with_capacity(s.len() + 2);
    o.push('"');
    for c in s.chars() {
        match c {
            '"' => o.push_str("\\\""),
            '\\' => o.push_str("\\\\"),
            '\n' => o.push_str("\\n"),
            '\t' => o.push_str("\\t"),
            '\r' => o.push_str("\\r"),
            c if (c as u32) < 0x20 => { let _ = write!(o, "\\u{:04x}", c as u32); }
            c => o.push(c),
        }
    }
    o.push('"');
    o
}

/// bytes of a `&str` / `&&str` / `&[u8]` constant value
fn str_bytes<'tcx>(tcx: TyCtxt<'tcx>, cv: ConstValue, ty: ty::Ty<'tcx>, depth: usize) -> Option<Vec<u8>> {
    use rustc_middle::mir::interpret::{GlobalAlloc, Scalar};
    if depth > 3 { return None; }
    match cv {
        ConstValue::Slice { .. } => cv.try_get_slice_bytes_for_diagnostics(tcx).map(|b| b.to_vec()),
        ConstValue::Scalar(Scalar::Ptr(ptr, _)) => {
            // a reference to something: `&&str` -> the allocation holds a (ptr, len) pair
            let inner = match ty.kind() { ty::Ref(_, inner, _) => *inner, _ => return None };
            let (prov, off) = ptr.prov_and_relative_offset();
            let GlobalAlloc::Memory(alloc) = tcx.global_alloc(prov.alloc_id()) else { return None };
            let a = alloc.inner();
            let start = off.bytes() as usize;
            match inner.kind() {
                ty::Ref(_, pointee, _) if pointee.is_str() || matches!(pointee.kind(), ty::Slice(_)) => {
                    // fat pointer at `start`: data pointer (with provenance) then length
                    let ptr_size = tcx.data_layout.pointer_size().bytes() as usize;
                    let lenb = a.inspect_with_uninit_and_ptr_outside_interpreter(start + ptr_size..start + 2 * ptr_size);
                    let mut len: usize = 0;
                    for (i, b) in lenb.iter().enumerate() { len |= (*b as usize) << (8 * i); }
                    let p = a.provenance().ptrs().iter().find(|(o, _)| o.bytes() as usize == start)?;
                    let GlobalAlloc::Memory(data) = tcx.global_alloc(p.1.alloc_id()) else { return None };
                    let d = data.inner();
                    let offb = a.inspect_with_uninit_and_ptr_outside_interpreter(start..start + ptr_size);
                    let mut o: usize = 0;
                    for (i, b) in offb.iter().enumerate() { o |= (*b as usize) << (8 * i); }
                    if o + len <= d.len() && len < 4096 {
                        Some(d.inspect_with_uninit_and_ptr_outside_interpreter(o..o + len).to_vec())
                    } else { None }
                }
                _ => None,
            }
        }
        _ => None,
    }
}

struct Cx<'tcx> { tcx: TyCtxt<'tcx>, body: &'tcx Body<'tcx>, env: TypingEnv<'tcx> }

fn line_of(tcx: TyCtxt<'_>, sp: rustc_span::Span) -> usize {
    let sm = tcx.sess.source_map();
    // use the outermost call site so that macro-generated code points at the user's line
    let sp = sp.source_callsite();
    sm.lookup_char_pos(sp.lo()).line
}

impl<'tcx> Cx<'tcx> {
    fn place(&self, p: &Place<'tcx>) -> String {
        // {"local":N,"proj":[...]}
        let mut s = format!("{{\"local\":{},\"proj\":[", p.local.as_usize());
        let mut pty = rustc_middle::mir::PlaceTy::from_ty(self.body.local_decls[p.local].ty);
        for (i, elem) in p.projection.iter().enumerate() {
            if i > 0 { s.push(','); }
            match elem {
                ProjectionElem::Deref => {
                    let raw = pty.ty.is_raw_ptr();
                    let _ = write!(s, "{{\"k\":\"deref\",\"raw\":{}}}", raw);
                }
                ProjectionElem::Field(f, _) => {
                    let mut name = format!("{}", f.as_usize());
                    if let ty::Adt(adt, _) = pty.ty.kind() {
                        let v = pty.variant_index.unwrap_or(rustc_abi::FIRST_VARIANT);
                        if let Some(fd) = adt.variant(v).fields.get(f) { name = fd.name.to_string(); }
                    }
                    let _ = write!(s, "{{\"k\":\"field\",\"name\":{}}}", esc(&name));
                }
                ProjectionElem::Downcast(n, _) => {
                    let _ = write!(s, "{{\"k\":\"downcast\",\"variant\":{}}}", esc(&n.map(|x| x.to_string()).unwrap_or_default()));
                }
                ProjectionElem::Index(l) => { let _ = write!(s, "{{\"k\":\"index\",\"local\":{}}}", l.as_usize()); }
                other => { let _ = write!(s, "{{\"k\":\"other\",\"dbg\":{}}}", esc(&format!("{:?}", other))); }
            }
            pty = pty.projection_ty(self.tcx, elem);
        }
        s.push_str("]}");
        s
    }
    fn operand(&self, o: &Operand<'tcx>) -> String {
        match o {
            Operand::Copy(p) => format!("{{\"op\":\"copy\",\"place\":{}}}", self.place(p)),
            Operand::Move(p) => format!("{{\"op\":\"move\",\"place\":{}}}", self.place(p)),
            Operand::Constant(c) => {
                let ty = c.const_.ty();
                let mut val = String::from("null");
                if let Some(si) = c.const_.try_eval_scalar_int(self.tcx, self.env) {
                    val = esc(&format!("{}", si.to_bits_unchecked()));
                } else if let Const::Val(cv @ ConstValue::Slice { .. }, _) = c.const_ {
                    // string / byte string constants
                    if let Some(bytes) = cv.try_get_slice_bytes_for_diagnostics(self.tcx) {
                        val = esc(&bytes.iter().map(|b| format!("{:02x}", b)).collect::<String>());
                    }
                }
                if val == "null" {
                    // named / promoted constants (`const NAME: &str`, `&"lit"`): evaluate, then read the string
                    if let Const::Unevaluated(uv, _) = c.const_ {
                        if let Ok(cv) = self.tcx.const_eval_resolve(self.env, uv, rustc_span::DUMMY_SP) {
                            if let Some(b) = str_bytes(self.tcx, cv, ty, 0) {
                                val = esc(&b.iter().map(|b| format!("{:02x}", b)).collect::<String>());
                            }
                        }
                    }
                }
                if val == "null" {
                    // `&[u8; N]` constants (e.g. the byte template of format_args!) are a pointer into an allocation
                    if let Const::Val(ConstValue::Scalar(rustc_middle::mir::interpret::Scalar::Ptr(ptr, _)), cty) = c.const_ {
                        if let ty::Ref(_, inner, _) = cty.kind() {
                            if let ty::Array(elem, _) = inner.kind() {
                                if elem.is_integral() {
                                    let (prov, off) = ptr.prov_and_relative_offset();
                                    if let rustc_middle::mir::interpret::GlobalAlloc::Memory(alloc) = self.tcx.global_alloc(prov.alloc_id()) {
                                        let a = alloc.inner();
                                        let start = off.bytes() as usize;
                                        let end = a.len();
                                        if start <= end && end - start < 4096 {
                                            let bytes = a.inspect_with_uninit_and_ptr_outside_interpreter(start..end);
                                            val = esc(&bytes.iter().map(|b| format!("{:02x}", b)).collect::<String>());
                                        }
                                    }
                                }
                            }
                        }
                    }
                }
                // promoted enum constants (`&Some(true)`, `&None`) and promoted arrays of string literals (`&["a", "b"]`): evaluated and
                // pretty printed, e.g. "&Option::<bool>::Some(true)", "[\"a\", \"b\"]"
                let mut pretty = String::from("null");
                if val == "null" && (ty.peel_refs().is_enum() || matches!(ty.peel_refs().kind(), ty::Array(e, _) if e.peel_refs().is_str())) {
                    if let Const::Unevaluated(uv, _) = c.const_ {
                        if let Ok(cv) = self.tcx.const_eval_resolve(self.env, uv, rustc_span::DUMMY_SP) {
                            let mut shown = (cv, ty);
                            if let (ty::Ref(_, inner, _), ConstValue::Scalar(rustc_middle::mir::interpret::Scalar::Ptr(ptr, _))) = (ty.kind(), cv) {
                                let (prov, off) = ptr.prov_and_relative_offset();
                                shown = (ConstValue::Indirect { alloc_id: prov.alloc_id(), offset: off }, *inner);
                            }
                            pretty = esc(&format!("{}", Const::Val(shown.0, shown.1)).chars().take(200).collect::<String>());
                        }
                    }
                }
                let fndef = if let ty::FnDef(d, _) = ty.kind() { esc(&self.tcx.def_path_str(*d)) } else { "null".into() };
                let cdbg = if val == "null" && fndef == "null" { esc(&format!("{:?}", c.const_).chars().take(160).collect::<String>()) } else { "null".into() };
                format!("{{\"op\":\"const\",\"ty\":{},\"val\":{},\"fn\":{},\"cdbg\":{},\"pretty\":{}}}", esc(&ty.to_string()), val, fndef, cdbg, pretty)
            }
            #[allow(unreachable_patterns)]
            _ => format!("{{\"op\":\"other\",\"dbg\":{}}}", esc(&format!("{:?}", o))),
        }
    }
    fn callee(&self, func: &Operand<'tcx>) -> String {
        let fty = func.ty(self.body, self.tcx);
        if let ty::FnDef(def_id, args) = *fty.kind() {
            let mut resolved = self.tcx.def_path_str(def_id);
            let mut res_args = String::new();
            if let Ok(Some(inst)) = Instance::try_resolve(self.tcx, self.env, def_id, args) {
                resolved = self.tcx.def_path_str(inst.def_id());
                res_args = format!("{:?}", inst.args);
            }
            let sig = self.tcx.fn_sig(def_id).skip_binder();
            let unsafe_ = format!("{:?}", sig.safety()).contains("Unsafe");
            format!("{{\"path\":{},\"resolved\":{},\"args\":{},\"res_args\":{},\"unsafe\":{},\"krate\":{}}}",
                esc(&self.tcx.def_path_str(def_id)), esc(&resolved), esc(&format!("{:?}", args)), esc(&res_args), unsafe_,
                esc(self.tcx.crate_name(def_id.krate).as_str()))
        } else {
            format!("{{\"path\":null,\"dyn\":{}}}", esc(&fty.to_string()))
        }
    }
}

struct Cb;
impl rustc_driver::Callbacks for Cb {
    fn after_analysis<'tcx>(&mut self, _c: &rustc_interface::interface::Compiler, tcx: TyCtxt<'tcx>) -> Compilation {
        let krate = tcx.crate_name(LOCAL_CRATE).to_string();
        let out_dir = match std::env::var("MIRFACTS_OUT") { Ok(d) => d, Err(_) => return Compilation::Continue };
        let mut out = String::new();
        let mut nfn = 0;
        for def in tcx.mir_keys(()) {
            let did = def.to_def_id();
            let kind = tcx.def_kind(did);
            if !matches!(kind, DefKind::Fn | DefKind::AssocFn | DefKind::Closure) { continue; }
            let body = tcx.optimized_mir(did);
            let env = TypingEnv::post_analysis(tcx, did);
            let cx = Cx { tcx, body, env };
            nfn += 1;
            let span = tcx.def_span(did);
            let loc = tcx.sess.source_map().span_to_diagnostic_string(span);
            let mut is_unsafe = false;
            let mut vis = String::new();
            let mut impl_self = String::new();
            let mut impl_trait = String::new();
            let mut parent = String::new();
            if matches!(kind, DefKind::Fn | DefKind::AssocFn) {
                let sig = tcx.fn_sig(did).skip_binder();
                is_unsafe = format!("{:?}", sig.safety()).contains("Unsafe");
                vis = format!("{:?}", tcx.visibility(did));
            }
            if matches!(kind, DefKind::Closure) {
                parent = tcx.def_path_str(tcx.typeck_root_def_id(did));
            }
            if matches!(kind, DefKind::AssocFn) {
                let p = tcx.parent(did);
                if matches!(tcx.def_kind(p), DefKind::Impl { .. }) {
                    impl_self = tcx.type_of(p).skip_binder().to_string();
                    if matches!(tcx.def_kind(p), DefKind::Impl { of_trait: true }) {
                        impl_trait = format!("{:?}", tcx.impl_trait_ref(p));
                    }
                } else if matches!(tcx.def_kind(p), DefKind::Trait) {
                    impl_trait = format!("trait-default:{}", tcx.def_path_str(p));
                }
            }
            let file = {
                let sm = tcx.sess.source_map();
                let lo = sm.lookup_char_pos(span.lo());
                format!("{}", lo.file.name.prefer_local_unconditionally())
            };
            let _ = write!(out, "{{\"fn\":{},\"kind\":{},\"span\":{},\"file\":{},\"line\":{},\"unsafe\":{},\"vis\":{},\"impl_self\":{},\"impl_trait\":{},\"parent\":{},\"argc\":{},\"locals\":[", esc(&tcx.def_path_str(did)), esc(&format!("{:?}", kind)), esc(&loc), esc(&file), line_of(tcx, span), is_unsafe, esc(&vis), esc(&impl_self), esc(&impl_trait), esc(&parent), body.arg_count);
            for (i, (_l, d)) in body.local_decls.iter_enumerated().enumerate() {
                if i > 0 { out.push(','); }
                let _ = write!(out, "{}", esc(&d.ty.to_string()));
            }
            out.push_str("],\"names\":{");
            let mut first = true;
            for vdi in &body.var_debug_info {
                if let VarDebugInfoContents::Place(p) = &vdi.value {
                    if p.projection.is_empty() {
                        if !first { out.push(','); } first = false;
                        let _ = write!(out, "{}:{}", esc(&p.local.as_usize().to_string()), esc(vdi.name.as_str()));
                    }
                }
            }
            out.push_str("},\"blocks\":[");
            for (bi, (_bb, data)) in body.basic_blocks.iter_enumerated().enumerate() {
                if bi > 0 { out.push(','); }
                let _ = write!(out, "{{\"cleanup\":{},\"stmts\":[", data.is_cleanup);
                let mut firsts = true;
                for st in &data.statements {
                    if let StatementKind::Assign(b) = &st.kind {
                        let (lhs, rv) = &**b;
                        if !firsts { out.push(','); } firsts = false;
                        let rvs = match rv {
                            Rvalue::Use(o, _) => format!("{{\"rv\":\"use\",\"a\":{}}}", cx.operand(o)),
                            Rvalue::CopyForDeref(p) => format!("{{\"rv\":\"use\",\"a\":{{\"op\":\"copy\",\"place\":{}}}}}", cx.place(p)),
                            Rvalue::BinaryOp(op, ab) => format!("{{\"rv\":\"bin\",\"bop\":{},\"a\":{},\"b\":{}}}", esc(&format!("{:?}", op)), cx.operand(&ab.0), cx.operand(&ab.1)),
                            Rvalue::UnaryOp(op, a) => format!("{{\"rv\":\"un\",\"uop\":{},\"a\":{}}}", esc(&format!("{:?}", op)), cx.operand(a)),
                            Rvalue::Ref(_, bk, p) => format!("{{\"rv\":\"ref\",\"mut\":{},\"place\":{}}}", matches!(bk, BorrowKind::Mut{..}), cx.place(p)),
                            Rvalue::RawPtr(_, p) => format!("{{\"rv\":\"rawptr\",\"place\":{}}}", cx.place(p)),
                            Rvalue::Discriminant(p) => {
                                let pty = p.ty(body, tcx).ty;
                                let vs: Vec<String> = match pty.kind() {
                                    ty::Adt(adt, _) if adt.is_enum() => adt.variants().iter().map(|v| esc(v.name.as_str())).collect(),
                                    _ => vec![],
                                };
                                format!("{{\"rv\":\"discr\",\"place\":{},\"enum\":{},\"variants\":[{}]}}", cx.place(p), esc(&pty.to_string()), vs.join(","))
                            }
                            Rvalue::Cast(k, o, t) => format!("{{\"rv\":\"cast\",\"kind\":{},\"a\":{},\"to\":{}}}", esc(&format!("{:?}", k)), cx.operand(o), esc(&t.to_string())),
                            Rvalue::Aggregate(k, ops) => {
                                let mut names: Vec<String> = vec![];
                                let kd = match &**k {
                                    AggregateKind::Adt(d, v, _, _, _) => {
                                        let adt = tcx.adt_def(*d);
                                        let var = adt.variant(*v);
                                        names = var.fields.iter().map(|f| f.name.to_string()).collect();
                                        format!("{{\"adt\":{},\"variant\":{}}}", esc(&tcx.def_path_str(*d)), esc(var.name.as_str()))
                                    }
                                    AggregateKind::Closure(d, _) => format!("{{\"closure\":{}}}", esc(&tcx.def_path_str(*d))),
                                    AggregateKind::Tuple => "{\"tuple\":true}".to_string(),
                                    AggregateKind::Array(_) => "{\"array\":true}".to_string(),
                                    other => format!("{{\"other\":{}}}", esc(&format!("{:?}", other).chars().take(60).collect::<String>())),
                                };
                                let opsj: Vec<String> = ops.iter().map(|o| cx.operand(o)).collect();
                                format!("{{\"rv\":\"agg\",\"kind\":{},\"fields\":[{}],\"ops\":[{}]}}", kd, names.iter().map(|n| esc(n)).collect::<Vec<_>>().join(","), opsj.join(","))
                            }
                            other => format!("{{\"rv\":\"other\",\"dbg\":{}}}", esc(&format!("{:?}", other).chars().take(80).collect::<String>())),
                        };
                        let _ = write!(out, "{{\"lhs\":{},\"rhs\":{},\"line\":{},\"macro\":{}}}", cx.place(lhs), rvs, line_of(tcx, st.source_info.span), st.source_info.span.from_expansion());
                    }
                }
                out.push_str("],\"term\":");
                let t = data.terminator();
                let ts = match &t.kind {
                    TerminatorKind::Call { func, args, destination, target, .. } => {
                        let a: Vec<String> = args.iter().map(|a| cx.operand(&a.node)).collect();
                        format!("{{\"t\":\"call\",\"callee\":{},\"args\":[{}],\"dest\":{},\"target\":{},\"macro\":{}}}", cx.callee(func), a.join(","), cx.place(destination), target.map(|b| b.as_usize() as i64).unwrap_or(-1), t.source_info.span.from_expansion())
                    }
                    TerminatorKind::SwitchInt { discr, targets } => {
                        let mut m: Vec<String> = targets.iter().map(|(v, b)| format!("[{},{}]", esc(&v.to_string()), b.as_usize())).collect();
                        m.push(format!("[\"otherwise\",{}]", targets.otherwise().as_usize()));
                        format!("{{\"t\":\"switch\",\"discr\":{},\"targets\":[{}]}}", cx.operand(discr), m.join(","))
                    }
                    TerminatorKind::Assert { cond, expected, msg, target, .. } => {
                        format!("{{\"t\":\"assert\",\"cond\":{},\"expected\":{},\"msg\":{},\"target\":{}}}", cx.operand(cond), expected, esc(&format!("{:?}", msg).chars().take(40).collect::<String>()), target.as_usize())
                    }
                    TerminatorKind::Goto { target } => format!("{{\"t\":\"goto\",\"target\":{}}}", target.as_usize()),
                    TerminatorKind::Return => "{\"t\":\"return\"}".to_string(),
                    TerminatorKind::Drop { target, .. } => format!("{{\"t\":\"drop\",\"target\":{}}}", target.as_usize()),
                    TerminatorKind::Unreachable => "{\"t\":\"unreachable\"}".to_string(),
                    other => format!("{{\"t\":\"other\",\"dbg\":{}}}", esc(&format!("{:?}", other).chars().take(60).collect::<String>())),
                };
                out.push_str(&ts[..ts.len()-1]);
                let _ = write!(out, ",\"line\":{},\"tmacro\":{}}}", line_of(tcx, t.source_info.span), t.source_info.span.from_expansion());
                out.push('}');
            }
            out.push_str("]}\n");
        }
        // ADTs with field visibility
        for id in tcx.hir_crate_items(()).definitions() {
            let did = id.to_def_id();
            if matches!(tcx.def_kind(did), DefKind::Struct) {
                let adt = tcx.adt_def(did);
                let fs: Vec<String> = adt.non_enum_variant().fields.iter().map(|f| format!("[{},{}]", esc(f.name.as_str()), esc(&format!("{:?}", tcx.visibility(f.did))))).collect();
                let _ = write!(out, "{{\"adt\":{},\"fields\":[{}]}}\n", esc(&tcx.def_path_str(did)), fs.join(","));
            }
            if matches!(tcx.def_kind(did), DefKind::Enum) {
                let adt = tcx.adt_def(did);
                let vs: Vec<String> = adt.variants().iter().map(|v| format!("[{},[{}]]", esc(v.name.as_str()), v.fields.iter().map(|f| esc(f.name.as_str())).collect::<Vec<_>>().join(","))).collect();
                let _ = write!(out, "{{\"enum\":{},\"variants\":[{}]}}\n", esc(&tcx.def_path_str(did)), vs.join(","));
            }
            if matches!(tcx.def_kind(did), DefKind::Impl { of_trait: true }) {
                let tr = tcx.impl_trait_ref(did);
                let self_ty = tcx.type_of(did).skip_binder().to_string();
                let trait_path = tcx.def_path_str(tr.skip_binder().def_id);
                let fns: Vec<String> = tcx.associated_item_def_ids(did).iter().map(|d| esc(&tcx.def_path_str(*d))).collect();
                let _ = write!(out, "{{\"impl\":{},\"trait_ref\":{},\"trait\":{},\"self_ty\":{},\"items\":[{}],\"line\":{}}}\n", esc(&tcx.def_path_str(did)), esc(&format!("{:?}", tr)), esc(&trait_path), esc(&self_ty), fns.join(","), line_of(tcx, tcx.def_span(did)));
            }
        }
        {
            let attrs = tcx.hir_attrs(rustc_hir::CRATE_HIR_ID);
            let lvl: String = attrs.iter().map(|a| format!("{:?}", a)).filter(|d| d.contains("unsafe_code")).collect::<Vec<_>>().join(" | ");
            let _ = write!(out, "{{\"crate\":{},\"unsafe_code_lint\":{},\"fns\":{}}}\n", esc(&krate), esc(&lvl), nfn);
        }
        let path = format!("{}/{}.{}.jsonl", out_dir, krate, std::process::id());
        std::fs::write(&path, out).unwrap();
        eprintln!("MIRFACTS crate={} fns={} -> {}", krate, nfn, path);
        Compilation::Continue
    }
}
fn main() {
    let mut args: Vec<String> = std::env::args().collect();
    args.remove(1);
    rustc_driver::run_compiler(&args, &mut Cb);
}
