//! genscan: parses `-Zunpretty=expanded` output with syn and dumps, for every `impl Logos for X`, the body of
//! `fn lex` as a JSON syntax tree (one JSON object per definition, one per line).
//!
//! usage: genscan <expanded.rs> <label>
//!
//! Nothing is executed; this is a parser + serializer. Abstract interpretation and the rules live in
//! /verif/lib/genlib.py.
use proc_macro2::TokenStream;
use quote::ToTokens;
use std::fmt::Write as _;
use syn::*;

fn esc(s: &str) -> String {
    let mut o = String::with_capacity(s.len() + 2);
    o.push('"');
    for c in s.chars() {
        match c {
            '"' => o.push_str("\\\""),
            '\\' => o.push_str("\\\\"),
            '\n' => o.push_str("\\n"),
            '\t' => o.push_str("\\t"),
            '\r' => o.push_str("\\r"),
            c if (c as u32) < 0x20 => {
                let _ = write!(o, "\\u{:04x}", c as u32);
            }
            c => o.push(c),
        }
    }
    o.push('"');
    o
}

fn toks<T: ToTokens>(t: &T) -> String {
    t.to_token_stream().to_string()
}

fn path_str(p: &Path) -> String {
    // path without generic arguments, `::` separated
    let mut s = String::new();
    if p.leading_colon.is_some() {
        s.push_str("::");
    }
    for (i, seg) in p.segments.iter().enumerate() {
        if i > 0 {
            s.push_str("::");
        }
        s.push_str(&seg.ident.to_string());
    }
    s
}

fn line_of<T: spanned::Spanned>(t: &T) -> usize {
    t.span().start().line
}

fn list<T>(xs: impl Iterator<Item = T>, f: impl Fn(T) -> String) -> String {
    let v: Vec<String> = xs.map(f).collect();
    format!("[{}]", v.join(","))
}

fn pat(p: &Pat) -> String {
    match p {
        Pat::Ident(i) => format!(
            "{{\"p\":\"ident\",\"name\":{},\"mut\":{},\"sub\":{}}}",
            esc(&i.ident.to_string()),
            i.mutability.is_some(),
            i.subpat.as_ref().map(|(_, s)| pat(s)).unwrap_or("null".into())
        ),
        Pat::TupleStruct(t) => format!(
            "{{\"p\":\"tuplestruct\",\"path\":{},\"elems\":{}}}",
            esc(&path_str(&t.path)),
            list(t.elems.iter(), pat)
        ),
        Pat::Path(p) => format!("{{\"p\":\"path\",\"path\":{}}}", esc(&path_str(&p.path))),
        Pat::Lit(l) => format!("{{\"p\":\"lit\",\"lit\":{}}}", lit(&l.lit)),
        Pat::Range(r) => format!(
            "{{\"p\":\"range\",\"lo\":{},\"hi\":{},\"inclusive\":{}}}",
            r.start.as_ref().map(|e| expr(e)).unwrap_or("null".into()),
            r.end.as_ref().map(|e| expr(e)).unwrap_or("null".into()),
            matches!(r.limits, RangeLimits::Closed(_))
        ),
        Pat::Or(o) => format!("{{\"p\":\"or\",\"cases\":{}}}", list(o.cases.iter(), pat)),
        Pat::Wild(_) => "{\"p\":\"wild\"}".into(),
        Pat::Tuple(t) => format!("{{\"p\":\"tuple\",\"elems\":{}}}", list(t.elems.iter(), pat)),
        Pat::Reference(r) => format!("{{\"p\":\"ref\",\"pat\":{}}}", pat(&r.pat)),
        Pat::Paren(p) => pat(&p.pat),
        Pat::Type(t) => pat(&t.pat),
        other => format!("{{\"p\":\"other\",\"src\":{}}}", esc(&toks(other))),
    }
}

fn lit(l: &Lit) -> String {
    match l {
        Lit::Int(i) => format!("{{\"l\":\"int\",\"v\":{},\"suffix\":{}}}", esc(i.base10_digits()), esc(i.suffix())),
        Lit::Byte(b) => format!("{{\"l\":\"int\",\"v\":{},\"suffix\":\"u8\"}}", esc(&b.value().to_string())),
        Lit::Bool(b) => format!("{{\"l\":\"bool\",\"v\":{}}}", b.value),
        Lit::Str(s) => format!("{{\"l\":\"str\",\"v\":{}}}", esc(&s.value())),
        Lit::Char(c) => format!("{{\"l\":\"char\",\"v\":{}}}", esc(&c.value().to_string())),
        other => format!("{{\"l\":\"other\",\"src\":{}}}", esc(&toks(other))),
    }
}

fn block(b: &Block) -> String {
    list(b.stmts.iter(), stmt)
}

fn binop(op: &BinOp) -> &'static str {
    match op {
        BinOp::Add(_) => "+",
        BinOp::Sub(_) => "-",
        BinOp::Mul(_) => "*",
        BinOp::Div(_) => "/",
        BinOp::Rem(_) => "%",
        BinOp::And(_) => "&&",
        BinOp::Or(_) => "||",
        BinOp::BitXor(_) => "^",
        BinOp::BitAnd(_) => "&",
        BinOp::BitOr(_) => "|",
        BinOp::Shl(_) => "<<",
        BinOp::Shr(_) => ">>",
        BinOp::Eq(_) => "==",
        BinOp::Lt(_) => "<",
        BinOp::Le(_) => "<=",
        BinOp::Ne(_) => "!=",
        BinOp::Ge(_) => ">=",
        BinOp::Gt(_) => ">",
        BinOp::AddAssign(_) => "+=",
        BinOp::SubAssign(_) => "-=",
        BinOp::MulAssign(_) => "*=",
        BinOp::DivAssign(_) => "/=",
        BinOp::RemAssign(_) => "%=",
        BinOp::BitXorAssign(_) => "^=",
        BinOp::BitAndAssign(_) => "&=",
        BinOp::BitOrAssign(_) => "|=",
        BinOp::ShlAssign(_) => "<<=",
        BinOp::ShrAssign(_) => ">>=",
        _ => "?",
    }
}

fn expr(e: &Expr) -> String {
    let ln = line_of(e);
    match e {
        Expr::If(i) => format!(
            "{{\"k\":\"if\",\"cond\":{},\"then\":{},\"else\":{},\"line\":{}}}",
            expr(&i.cond),
            block(&i.then_branch),
            i.else_branch.as_ref().map(|(_, e)| expr(e)).unwrap_or("null".into()),
            ln
        ),
        Expr::Let(l) => format!("{{\"k\":\"let\",\"pat\":{},\"expr\":{}}}", pat(&l.pat), expr(&l.expr)),
        Expr::Match(m) => format!(
            "{{\"k\":\"match\",\"expr\":{},\"arms\":{},\"line\":{}}}",
            expr(&m.expr),
            list(m.arms.iter(), |a| format!(
                "{{\"pat\":{},\"guard\":{},\"body\":{}}}",
                pat(&a.pat),
                a.guard.as_ref().map(|(_, g)| expr(g)).unwrap_or("null".into()),
                expr(&a.body)
            )),
            ln
        ),
        Expr::While(w) => format!(
            "{{\"k\":\"while\",\"label\":{},\"cond\":{},\"body\":{},\"line\":{}}}",
            w.label.as_ref().map(|l| esc(&l.name.ident.to_string())).unwrap_or("null".into()),
            expr(&w.cond),
            block(&w.body),
            ln
        ),
        Expr::Loop(l) => format!(
            "{{\"k\":\"loop\",\"label\":{},\"body\":{},\"line\":{}}}",
            l.label.as_ref().map(|l| esc(&l.name.ident.to_string())).unwrap_or("null".into()),
            block(&l.body),
            ln
        ),
        Expr::ForLoop(f) => format!("{{\"k\":\"for\",\"src\":{},\"line\":{}}}", esc(&toks(f)), ln),
        Expr::Block(b) => format!(
            "{{\"k\":\"block\",\"label\":{},\"body\":{}}}",
            b.label.as_ref().map(|l| esc(&l.name.ident.to_string())).unwrap_or("null".into()),
            block(&b.block)
        ),
        Expr::Unsafe(u) => format!("{{\"k\":\"unsafe\",\"body\":{},\"line\":{}}}", block(&u.block), ln),
        Expr::Break(b) => format!(
            "{{\"k\":\"break\",\"label\":{},\"expr\":{}}}",
            b.label.as_ref().map(|l| esc(&l.ident.to_string())).unwrap_or("null".into()),
            b.expr.as_ref().map(|e| expr(e)).unwrap_or("null".into())
        ),
        Expr::Continue(c) => format!(
            "{{\"k\":\"continue\",\"label\":{}}}",
            c.label.as_ref().map(|l| esc(&l.ident.to_string())).unwrap_or("null".into())
        ),
        Expr::Return(r) => format!(
            "{{\"k\":\"return\",\"expr\":{},\"line\":{}}}",
            r.expr.as_ref().map(|e| expr(e)).unwrap_or("null".into()),
            ln
        ),
        Expr::Call(c) => format!(
            "{{\"k\":\"call\",\"func\":{},\"args\":{},\"line\":{}}}",
            expr(&c.func),
            list(c.args.iter(), expr),
            ln
        ),
        Expr::MethodCall(m) => format!(
            "{{\"k\":\"method\",\"recv\":{},\"method\":{},\"turbofish\":{},\"args\":{},\"line\":{}}}",
            expr(&m.receiver),
            esc(&m.method.to_string()),
            m.turbofish.as_ref().map(|t| esc(&toks(&t.args))).unwrap_or("null".into()),
            list(m.args.iter(), expr),
            ln
        ),
        Expr::Path(p) => format!(
            "{{\"k\":\"path\",\"path\":{},\"full\":{}}}",
            esc(&path_str(&p.path)),
            esc(&toks(p))
        ),
        Expr::Lit(l) => format!("{{\"k\":\"lit\",\"lit\":{}}}", lit(&l.lit)),
        Expr::Binary(b) => format!(
            "{{\"k\":\"bin\",\"op\":{},\"l\":{},\"r\":{},\"line\":{}}}",
            esc(binop(&b.op)),
            expr(&b.left),
            expr(&b.right),
            ln
        ),
        Expr::Unary(u) => format!(
            "{{\"k\":\"un\",\"op\":{},\"e\":{}}}",
            esc(match u.op {
                UnOp::Not(_) => "!",
                UnOp::Neg(_) => "-",
                UnOp::Deref(_) => "*",
                _ => "?",
            }),
            expr(&u.expr)
        ),
        Expr::Assign(a) => format!(
            "{{\"k\":\"assign\",\"l\":{},\"r\":{},\"line\":{}}}",
            expr(&a.left),
            expr(&a.right),
            ln
        ),
        Expr::Index(i) => format!("{{\"k\":\"index\",\"e\":{},\"idx\":{},\"line\":{}}}", expr(&i.expr), expr(&i.index), ln),
        Expr::Field(f) => format!("{{\"k\":\"field\",\"e\":{},\"member\":{}}}", expr(&f.base), esc(&toks(&f.member))),
        Expr::Cast(c) => format!("{{\"k\":\"cast\",\"e\":{},\"ty\":{}}}", expr(&c.expr), esc(&toks(&c.ty))),
        Expr::Paren(p) => expr(&p.expr),
        Expr::Group(g) => expr(&g.expr),
        Expr::Reference(r) => format!("{{\"k\":\"ref\",\"mut\":{},\"e\":{}}}", r.mutability.is_some(), expr(&r.expr)),
        Expr::Tuple(t) => format!("{{\"k\":\"tuple\",\"elems\":{}}}", list(t.elems.iter(), expr)),
        Expr::Array(a) => format!("{{\"k\":\"array\",\"elems\":{}}}", list(a.elems.iter(), expr)),
        Expr::Closure(c) => format!(
            "{{\"k\":\"closure\",\"inputs\":{},\"body\":{},\"line\":{}}}",
            list(c.inputs.iter(), pat),
            expr(&c.body),
            ln
        ),
        Expr::Macro(m) => format!("{{\"k\":\"macro\",\"path\":{},\"src\":{}}}", esc(&path_str(&m.mac.path)), esc(&toks(m))),
        Expr::Struct(s) => format!("{{\"k\":\"struct\",\"src\":{}}}", esc(&toks(s))),
        Expr::Range(r) => format!("{{\"k\":\"range\",\"src\":{}}}", esc(&toks(r))),
        Expr::Try(t) => format!("{{\"k\":\"try\",\"e\":{}}}", expr(&t.expr)),
        Expr::Async(a) => format!("{{\"k\":\"other\",\"src\":{}}}", esc(&toks(a))),
        other => format!("{{\"k\":\"other\",\"src\":{}}}", esc(&toks(other))),
    }
}

fn item(i: &Item) -> String {
    match i {
        Item::Fn(f) => format!(
            "{{\"s\":\"fn\",\"name\":{},\"params\":{},\"body\":{},\"src_hash\":{},\"line\":{}}}",
            esc(&f.sig.ident.to_string()),
            list(f.sig.inputs.iter(), |a| match a {
                FnArg::Typed(t) => pat(&t.pat),
                FnArg::Receiver(_) => "{\"p\":\"self\"}".into(),
            }),
            block(&f.block),
            esc(&toks(&f.block)),
            line_of(f)
        ),
        Item::Const(c) => format!(
            "{{\"s\":\"const\",\"name\":{},\"ty\":{},\"expr\":{},\"line\":{}}}",
            esc(&c.ident.to_string()),
            esc(&toks(&c.ty)),
            expr(&c.expr),
            line_of(c)
        ),
        Item::Enum(e) => format!(
            "{{\"s\":\"enum\",\"name\":{},\"variants\":{}}}",
            esc(&e.ident.to_string()),
            list(e.variants.iter(), |v| format!(
                "[{},{}]",
                esc(&v.ident.to_string()),
                v.discriminant.as_ref().map(|(_, d)| expr(d)).unwrap_or("null".into())
            ))
        ),
        Item::Use(u) => format!("{{\"s\":\"use\",\"src\":{}}}", esc(&toks(u))),
        Item::Macro(m) => format!("{{\"s\":\"macro_item\",\"path\":{}}}", esc(&path_str(&m.mac.path))),
        Item::Impl(im) => format!(
            "{{\"s\":\"impl\",\"trait\":{},\"unsafe\":{}}}",
            esc(&im.trait_.as_ref().map(|(_, p, _)| path_str(p)).unwrap_or_default()),
            im.unsafety.is_some()
        ),
        other => format!("{{\"s\":\"item_other\",\"src\":{}}}", esc(&toks(other))),
    }
}

fn stmt(s: &Stmt) -> String {
    match s {
        Stmt::Local(l) => format!(
            "{{\"s\":\"let\",\"pat\":{},\"init\":{},\"else\":{},\"line\":{}}}",
            pat(&l.pat),
            l.init.as_ref().map(|i| expr(&i.expr)).unwrap_or("null".into()),
            l.init
                .as_ref()
                .and_then(|i| i.diverge.as_ref())
                .map(|(_, e)| expr(e))
                .unwrap_or("null".into()),
            line_of(l)
        ),
        Stmt::Item(i) => item(i),
        Stmt::Expr(e, semi) => format!("{{\"s\":\"expr\",\"e\":{},\"semi\":{}}}", expr(e), semi.is_some()),
        Stmt::Macro(m) => format!("{{\"s\":\"macro\",\"path\":{},\"src\":{}}}", esc(&path_str(&m.mac.path)), esc(&toks(m))),
    }
}

/// does a token stream contain the `unsafe` keyword (outside of nested items we do not look into)?
fn count_unsafe(ts: TokenStream) -> usize {
    let mut n = 0;
    for t in ts {
        match t {
            proc_macro2::TokenTree::Ident(i) if i == "unsafe" => n += 1,
            proc_macro2::TokenTree::Group(g) => n += count_unsafe(g.stream()),
            _ => {}
        }
    }
    n
}

fn visit_items(items: &[Item], modpath: &str, label: &str, out: &mut String, count: &mut usize) {
    for it in items {
        match it {
            Item::Mod(m) => {
                if let Some((_, inner)) = &m.content {
                    let p = if modpath.is_empty() { m.ident.to_string() } else { format!("{}::{}", modpath, m.ident) };
                    visit_items(inner, &p, label, out, count);
                }
            }
            Item::Fn(f) => {
                // definitions declared inside test functions
                let inner: Vec<Item> = f
                    .block
                    .stmts
                    .iter()
                    .filter_map(|s| if let Stmt::Item(i) = s { Some(i.clone()) } else { None })
                    .collect();
                if !inner.is_empty() {
                    let p = if modpath.is_empty() { f.sig.ident.to_string() } else { format!("{}::{}", modpath, f.sig.ident) };
                    visit_items(&inner, &p, label, out, count);
                }
            }
            Item::Impl(im) => {
                let Some((_, tr, _)) = &im.trait_ else { continue };
                if tr.segments.last().map(|s| s.ident != "Logos").unwrap_or(true) {
                    continue;
                }
                let self_ty = toks(&im.self_ty);
                let mut source = String::new();
                let mut error = String::new();
                let mut extras = String::new();
                let mut lex: Option<&ImplItemFn> = None;
                for ii in &im.items {
                    match ii {
                        ImplItem::Type(t) if t.ident == "Source" => source = toks(&t.ty),
                        ImplItem::Type(t) if t.ident == "Error" => error = toks(&t.ty),
                        ImplItem::Type(t) if t.ident == "Extras" => extras = toks(&t.ty),
                        ImplItem::Fn(f) if f.sig.ident == "lex" => lex = Some(f),
                        _ => {}
                    }
                }
                let Some(lex) = lex else { continue };
                *count += 1;
                let body_tokens = toks(&lex.block);
                let rejected = body_tokens.contains("_logos_derive_compile_errors");
                let lex_param = lex
                    .sig
                    .inputs
                    .iter()
                    .next()
                    .map(|a| match a {
                        FnArg::Typed(t) => match &*t.pat {
                            Pat::Ident(i) => i.ident.to_string(),
                            _ => String::new(),
                        },
                        _ => String::new(),
                    })
                    .unwrap_or_default();
                let _ = write!(
                    out,
                    "{{\"lex_param\":{},\"label\":{},\"module\":{},\"self_ty\":{},\"impl_generics\":{},\"trait\":{},\"source\":{},\"error\":{},\"extras\":{},\"rejected\":{},\"line\":{},\"unsafe_tokens\":{},\"body\":{},\"body_tokens\":{}}}\n",
                    esc(&lex_param),
                    esc(label),
                    esc(modpath),
                    esc(&self_ty),
                    esc(&toks(&im.generics)),
                    esc(&toks(tr)),
                    esc(&source),
                    esc(&error),
                    esc(&extras),
                    rejected,
                    line_of(im),
                    count_unsafe(lex.block.to_token_stream()),
                    block(&lex.block),
                    esc(&body_tokens)
                );
            }
            _ => {}
        }
    }
}

fn main() {
    let args: Vec<String> = std::env::args().collect();
    if args.len() < 3 {
        eprintln!("usage: genscan <expanded.rs> <label>");
        std::process::exit(2);
    }
    let src = std::fs::read_to_string(&args[1]).expect("read input");
    let file = match syn::parse_file(&src) {
        Ok(f) => f,
        Err(e) => {
            eprintln!("genscan: parse error in {}: {} at {:?}", args[1], e, e.span().start());
            std::process::exit(3);
        }
    };
    let mut out = String::new();
    let mut count = 0usize;
    visit_items(&file.items, "", &args[2], &mut out, &mut count);
    print!("{}", out);
    eprintln!("genscan: {} definitions in {}", count, args[1]);
}
