"""C04 Spans never split a UTF-8 code point on str input."""
from props import cg, gen, rt

ENGINE = 'mirfacts+witness+genscan'
EXPLANATION = ('Clause claim on type-checked MIR: (a) UTF-8 acceptance gates: patterns and subpatterns that are not Properties::is_utf8() are rejected in str mode, before the compile_error gate; '
               '(b) the NFA is built in UTF-8 mode exactly in str mode; (c) token_end has a closed, audited writer set (private fields, compile-fail witness): bump commits only after is_boundary(new), '
               'end_to_boundary commits find_boundary(x), which for str returns only positions that passed is_char_boundary and only moves forward, morph/clone copy; (d) the two unchecked slicing '
               'sites use exactly span() and token_end..len. Not decided: that regex-automata\'s UTF-8 automata stop only on char boundaries for patterns that passed is_utf8.'
               ' Since the E5 engine: the ends recorded by the generated code are the match ends of the reference automaton built by regex-automata in UTF-8 mode (G19 + G20 per definition).')


def run(ctx, rep):
    crates = ctx.mir('ws-default')
    cg.rule_utf8_gate(rep, crates['logos_codegen'])
    cg.rule_nfa_mode(rep, crates['logos_codegen'])
    cfgs = ['ws-default'] + (['logos-release', 'logos-forbid'] if ctx.tier == 'thorough' else [])
    for cfg in cfgs:
        lg = ctx.mir(cfg)['logos']
        rt.rule_token_end_writers(rep, lg, cfg)
        rt.rule_bump(rep, lg, cfg)
        rt.rule_is_boundary(rep, lg, cfg)
        rt.rule_rounding(rep, lg, cfg)
        rt.rule_accessor_operands(rep, lg, cfg, cfg == 'logos-forbid')
    if ctx.tier == 'thorough':
        rt.rule_witnesses(rep, ctx)
    cg.cg_controls(rep, ctx, [('M-C04a', cg.rule_utf8_gate)])
    rep.trusted += ['rustc nightly MIR', 'engines/mirfacts', 'regex-syntax Properties::is_utf8; regex-automata UTF-8 NFA compilation']
    gen.rules_c04(ctx, rep)
    gen.rule_must_reject(ctx, rep, gen.configs(ctx), ['non_utf8_in_str_mode'], floor=8)
