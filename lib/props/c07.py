"""C07 Partial lexing commits only items that more input cannot change."""
from props import gen, rt

ENGINE = 'genscan+mirfacts'
EXPLANATION = ('On every generated lexer of the corpus (both code generators), per state: in the branch taken when the dispatch read hits the end of the buffer, the prefix guard '
               '`if lex.is_prefix() { lex.end(lex.offset()); return None }` is the first statement if and only if the state still has a continuation (a byte edge, a self loop or an end-of-input edge). '
               'On MIR: is_prefix is true only from new_partial/partial_with_extras, copied by morph/clone, written nowhere else, and LexerInternal::is_prefix returns the field.'
               ' Since the E5 engine (G20, kind withheld): for definitions whose matches do not depend on the next symbol, a reference state after which nothing longer can match corresponds to a graph state without any continuation, so a partial lexer yields the decided item at once.')


def run(ctx, rep):
    lg = ctx.mir('ws-default')['logos']
    rt.rule_writers(rep, lg, 'ws-default', ['is_prefix'], 'M-C07a')
    rt.rule_field_correspondence(rep, lg, 'ws-default')
    rt.rule_accessor_operands(rep, lg, 'ws-default', False)
    gen.rules_c07(ctx, rep)
    rep.trusted += ['rustc nightly MIR', 'rustc macro expansion', 'syn', 'engines/genscan', 'lib/genlib.py']
    rep.assumptions += ['given the automaton (C01 not claimed), a state without any continuation has a final decision']
