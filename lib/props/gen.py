"""Rules over generated lexers (engine E2).  Each rule runs on every accepted definition of the captured targets,
for both code generators."""
import hashlib
import re

import genlib
from genlib import ALL, Off, Unsupported, is_path, lit_int, method, src

U8 = '::core::primitive::u8'


def configs(ctx, forbid=False):
    if ctx.tier == 'thorough':
        c = ['tail-full', 'sm-full']
        if forbid:
            c += ['tail-forbid-full', 'sm-forbid-full']
        return c
    return ['tail-quick', 'sm-quick']


def models(ctx, cfg):
    """list of (definition, model|None, summaries|None)"""
    cache = ctx.__dict__.setdefault('_genmodels', {})
    if cfg not in cache:
        out = []
        if cfg.startswith('fx:'):
            import facts, json, os
            name = cfg[3:]
            backend = 'sm' if ('sm' in name.split('_')[0] or name.startswith('g8') or name.endswith('_sm')) else 'tail'
            defs = []
            # fixtures that only replace the artefacts printed by the derive reuse the unbroken code of base_tail
            code = 'base_tail' if name in ('g20_graph_broken',) else name
            with open(os.path.join(facts.fixture_gen(ctx.hash), code + '.jsonl')) as f:
                for line in f:
                    if line.strip():
                        defs.append(genlib.Definition(json.loads(line), backend))
            import autlib
            fxdir = os.path.join(facts.VERIF, 'fixtures', 'gen')
            dbg = os.path.join(fxdir, name + '.debug.txt')
            if not os.path.exists(dbg):
                dbg = os.path.join(fxdir, 'base.debug.txt')
            with open(dbg) as f:
                invs = autlib.split_invocations(f.read())
            for df in defs:
                df.inv = invs[0] if len(invs) == 1 else None
                df.inv_error = None if len(invs) == 1 else 'fixture debug stream'
        else:
            defs = ctx.gen(cfg)
        for d in defs:
            if d.rejected:
                out.append((d, None, None))
                continue
            m = d.model()
            out.append((d, m, genlib.summaries(m) if m is not None else None))
        cache[cfg] = out
    return cache[cfg]


def dkey(d):
    return '%s:%s:%s' % ('fixture' if d.label.startswith('fixture-') else d.label, d.module, d.self_ty)


def base_checks(ctx, rep, cfgs, rid_prefix='G'):
    """fail closed: every definition of the repository's targets must be accepted and analysable"""
    rid = rep.rule('G0', 'every captured definition is accepted by the derive and lies inside the analysable subset of generated code (anything else fails closed)', floor=60)
    for cfg in cfgs:
        n = 0
        for d, m, s in models(ctx, cfg):
            n += 1
            rep.inst(rid, '%s:%s' % (cfg, dkey(d)), detail=dict(states=len(m.state_order) if m else 0), trivial=True)
            if d.rejected and d.label != 'corpus':
                # repository definitions are accepted on the reference tree; corpus definitions that get rejected are
                # reported by the rule that owns them (twin groups) or by the shape coverage counters
                rep.viol(rid, 'rejected:%s:%s' % (d.backend, dkey(d)), 'definition %s is rejected by the derive (compile_error) although the reference tree accepts it' % d.name, '%s line %d' % (d.label, d.line))
            elif m is None and not d.rejected:
                rep.viol(rid, 'unsupported:%s:%s' % (d.backend, dkey(d)), 'generated code of %s is outside the analysable subset: %s' % (d.name, d.error), '%s line %d' % (d.label, d.line))
        rep.analysed.setdefault('definitions', {})[cfg] = n


def each_state(ctx, cfgs):
    for cfg in cfgs:
        for d, m, sm in models(ctx, cfg):
            if m is None:
                continue
            for name in m.state_order:
                yield cfg, d, m, sm, name, sm[m.state_key(name)]


def dispatch_reads(p):
    return [(i, ev) for i, ev in enumerate(p.events) if ev[0] == 'read' and ev[1] == U8]


def skey(d, m, name):
    return '%s:%s:%s' % (d.backend, dkey(d), name)


# ------------------------------------------------------------------------------------------------
# G1 G2 G12: consumption and monotone reads
# ------------------------------------------------------------------------------------------------

def rule_transitions(ctx, rep, cfgs, want=('G1', 'G2', 'G12')):
    g1 = rep.rule('G1', 'every transition consumes exactly one position: the offset handed to the next state is the offset of the dispatch read + 1, on the Some(byte) branch or on the end-of-input branch', floor=1000) if 'G1' in want else None
    g2 = rep.rule('G2', 'monotone reads: along every path of every state the offsets of successive reads never decrease; the offset is reset only by `offset = lex.offset()` in the Skip arm right after lex.trivia(); the offset given to _get_action is the offset of the fatal byte', floor=1000) if 'G2' in want else None
    g12 = rep.rule('G12', 'linear read count: outside the fast loop every path performs exactly one dispatch read; inside it each byte is read by at most one chunk read and one byte read before the dispatch read', floor=1000) if 'G12' in want else None
    for cfg, d, m, sm, name, s in each_state(ctx, cfgs):
        k = skey(d, m, name)
        for rid in (g1, g2, g12):
            if rid:
                rep.inst(rid, k, detail=None)
        for p in s.paths:
            dr = dispatch_reads(p)
            if g12 and len(dr) != 1:
                rep.viol(g12, 'reads:%s' % k, 'a path of %s performs %d dispatch reads' % (name, len(dr)), d.name)
            if not dr:
                continue
            ri, rev = dr[0]
            roff = rev[2]
            if g1 and p.outcome[0] == 'goto':
                off = p.outcome[2]
                consumed = any(ev[0] in ('some', 'eoi') for ev in p.events[ri:])
                if not (off.base == roff.base and off.k == roff.k + 1) or not consumed:
                    rep.viol(g1, 'consume:%s->%s' % (k, p.outcome[1]), 'transition %s -> %s hands over offset %r after a dispatch read at %r: it does not consume exactly one position' % (name, p.outcome[1], off, roff), d.name)
                if p.outcome[3] != p.st.context:
                    rep.viol(g1, 'context:%s->%s' % (k, p.outcome[1]), 'transition does not pass the live context', d.name)
            if g2:
                last = None
                in_skip = False
                for i, ev in enumerate(p.events):
                    if ev[0] == 'read':
                        if last is not None and not ev[2].ge(last):
                            rep.viol(g2, 'backwards:%s' % k, 'state %s reads at %r after having read at %r' % (name, ev[2], last), d.name)
                        last = ev[2]
                    if ev[0] == 'fastloop':
                        last = Off('loop')
                    if ev[0] == 'action_arm':
                        in_skip = ev[1] == 'Skip'
                    if ev[0] == 'setoff':
                        prev = p.events[i - 1] if i else None
                        if not in_skip or prev is None or prev[0] != 'trivia' or ev[1] != Off('start'):
                            rep.viol(g2, 'reset:%s' % k, 'state %s resets the offset (%r) outside the `lex.trivia(); offset = lex.offset()` sequence of the Skip arm' % (name, ev[1]), d.name)
                    if ev[0] == 'adv' and ev[1] < 0:
                        # allowed only when no read follows before the attempt ends
                        later = [e2 for e2 in p.events[i + 1:] if e2[0] == 'read']
                        if later and not in_skip:
                            rep.viol(g2, 'decrement:%s' % k, 'state %s decrements the offset and reads again' % name, d.name)
                    if ev[0] == 'get_action' and ev[1] != roff:
                        rep.viol(g2, 'fatal-offset:%s' % k, 'state %s hands offset %r to _get_action, the fatal byte was read at %r' % (name, ev[1], roff), d.name)


# ------------------------------------------------------------------------------------------------
# G10 G7c: record discipline and in-range ends
# ------------------------------------------------------------------------------------------------

def eoi_entered(sm):
    return {s.eoi_edge for s in sm.values() if s.eoi_edge is not None}


def byte_entered(sm):
    out = set()
    for s in sm.values():
        out |= set(s.edges.values())
    return out


def rule_records(ctx, rep, cfgs, want=('G10', 'G7c')):
    g10 = rep.rule('G10', 'record discipline: a state records at most once, `lex.end(e)` together with `context = Some(leaf)`, after the fast loop and before the dispatch read, with e = offset (early) or offset - 1 (late)', floor=1000) if 'G10' in want else None
    g7c = rep.rule('G7c', 'every position passed to lex.end is inside the source: e = offset only in states that are not entered through an end-of-input edge, e = offset - 1 only in non-root states (no underflow), or e = lex.offset()', floor=500) if 'G7c' in want else None
    for cfg, d, m, sm, name, s in each_state(ctx, cfgs):
        k = skey(d, m, name)
        root = m.state_key(m.root)
        via_eoi = eoi_entered(sm)
        if g10:
            rep.inst(g10, k, detail=s.record)
            if len(s.pre) != 1:
                rep.viol(g10, 'record-paths:%s' % k, 'the paths of %s disagree on what is recorded before the dispatch read' % name, d.name)
            else:
                ends, ctxs = list(s.pre)[0]
                if len(ends) != len(ctxs) or len(ends) > 1:
                    rep.viol(g10, 'record-pair:%s' % k, 'state %s records %d ends and %d contexts' % (name, len(ends), len(ctxs)), d.name)
                elif ends and s.record[1] not in ('early', 'late'):
                    rep.viol(g10, 'record-offset:%s' % k, 'state %s records end %s' % (name, s.record[1]), d.name)
                for p in s.paths:
                    seen_end = False
                    for ev in p.events:
                        if ev[0] == 'end':
                            seen_end = True
                        if ev[0] == 'fastloop' and seen_end:
                            rep.viol(g10, 'record-before-loop:%s' % k, 'state %s records before its fast loop' % name, d.name)
                    # nothing but the prefix guard may call lex.end after the dispatch read
                    dr = dispatch_reads(p)
                    if dr:
                        for ev in p.events[dr[0][0]:]:
                            if ev[0] == 'end' and ev[1] != Off('start'):
                                rep.viol(g10, 'record-after-read:%s' % k, 'state %s moves the end (%r) after its dispatch read' % (name, ev[1]), d.name)
                            if ev[0] == 'ctx' and ev[1] is not None:
                                rep.viol(g10, 'ctx-after-read:%s' % k, 'state %s sets the context after its dispatch read' % name, d.name)
        if g7c and s.record:
            rep.inst(g7c, k, detail=s.record)
            if s.record[1] == 'early' and s.key in via_eoi:
                rep.viol(g7c, 'end-past-eoi:%s' % k, 'state %s is entered through an end-of-input edge (offset = len + 1) and records lex.end(offset): the end lies outside the source' % name, d.name)
            if s.record[1] == 'late' and s.key == root:
                rep.viol(g7c, 'end-underflow:%s' % k, 'the root state records lex.end(offset - 1): before the start of the item' % name, d.name)


# ------------------------------------------------------------------------------------------------
# G3 G4 G5 G6b: graph shape
# ------------------------------------------------------------------------------------------------

def eoi_branch_events(p):
    for i, ev in enumerate(p.events):
        if ev[0] == 'eoi':
            return p.events[i + 1:]
    return None


def has_prefix_guard(s):
    """the eoi branch starts with `if lex.is_prefix() { lex.end(lex.offset()); return None }`"""
    ok = False
    for p in s.eoi_paths:
        ev = eoi_branch_events(p)
        if ev and ev[0] == ('prefix?', True) and p.prefix:
            ok = (len(ev) == 2 and ev[1][0] == 'end' and ev[1][1] == Off('start') and p.outcome == ('none',))
            if not ok:
                return 'malformed'
    return ok


def guard_position_ok(s):
    """if a prefix test exists it is the first thing in the eoi branch"""
    for p in s.eoi_paths:
        ev = eoi_branch_events(p) or []
        for i, e in enumerate(ev):
            if e[0] == 'prefix?' and i != 0:
                return False
    return True


def rule_partial(ctx, rep, cfgs):
    g5 = rep.rule('G5', 'partial mode: at the end of the buffer a state returns None (after resetting the span to the item start) as its first action iff it still has a continuation: a byte edge, a self loop or an end-of-input edge', floor=1000)
    for cfg, d, m, sm, name, s in each_state(ctx, cfgs):
        k = skey(d, m, name)
        cont = bool(s.edges) or bool(s.loopset) or s.eoi_edge is not None
        g = has_prefix_guard(s)
        rep.inst(g5, k, detail=dict(byte_edges=len(set(s.edges.values())), self_loop=bool(s.loopset), eoi_edge=s.eoi_edge, guard=g))
        if g == 'malformed':
            rep.viol(g5, 'guard-shape:%s' % k, 'the prefix guard of %s is not `lex.end(lex.offset()); return None`' % name, d.name)
        elif cont and not g:
            what = 'byte edges' if s.edges else ('a self loop' if s.loopset else 'an end-of-input edge')
            rep.viol(g5, 'missing-guard:%s' % k, 'state %s still has %s but does not wait for more input in partial mode: a prefix lexer commits an item that a continuation of the buffer could change' % (name, what), d.name)
        elif g and not cont:
            rep.viol(g5, 'needless-guard:%s' % k, 'state %s has no continuation but returns None in partial mode: a determined item is withheld' % name, d.name)
        if not guard_position_ok(s):
            rep.viol(g5, 'guard-position:%s' % k, 'the prefix test of %s is not the first statement of the end-of-input branch' % name, d.name)


def rule_graph(ctx, rep, cfgs, want=('G3', 'G4', 'G6b')):
    g3 = rep.rule('G3', 'end-of-input edges are acyclic with depth <= 1: a state entered through an end-of-input edge has no end-of-input edge of its own', floor=5) if 'G3' in want else None
    g4 = rep.rule('G4', 'root: never records; at end of input with nothing consumed it returns None before doing anything else (after the prefix guard); no byte successor of the root is a late recorder (that would be an empty match)', floor=60) if 'G4' in want else None
    g6b = rep.rule('G6b', 'trim automaton: every non-root state records or can reach a recording state (no state keeps consuming input that can no longer lead to a match)', floor=1000) if 'G6b' in want else None
    for cfg in cfgs:
        for d, m, sm in models(ctx, cfg):
            if m is None:
                continue
            root = m.state_key(m.root)
            via = eoi_entered(sm)
            if g3:
                for t in sorted(via):
                    rep.inst(g3, '%s:%s:state%d' % (d.backend, dkey(d), t))
                    if sm[t].eoi_edge is not None:
                        rep.viol(g3, 'eoi-chain:%s:%s:state%d' % (d.backend, dkey(d), t), 'state%d is entered through an end-of-input edge and has one itself: more than one virtual position can be consumed' % t, d.name)
            if g4:
                r = sm[root]
                rep.inst(g4, '%s:%s:root' % (d.backend, dkey(d)), detail=dict(root=root))
                if r.record is not None or any(ends for ends, _c in r.pre):
                    rep.viol(g4, 'root-records:%s:%s' % (d.backend, dkey(d)), 'the root state records a match', d.name)
                ok = False
                for p in r.eoi_paths:
                    ev = eoi_branch_events(p) or []
                    ev2 = [e for e in ev if e[0] != 'prefix?']
                    if p.prefix in (False, None) and p.at_start:
                        ok = ev2 and ev2[0][0] == 'at_start?' and len(ev2) == 1 and p.outcome == ('none',)
                        if not ok:
                            break
                if not ok:
                    rep.viol(g4, 'root-eoi:%s:%s' % (d.backend, dkey(d)), 'at end of input with nothing consumed the root does not return None first', d.name)
                for b, t in r.edges.items():
                    if sm[t].record and sm[t].record[1] == 'late':
                        rep.viol(g4, 'root-late-successor:%s:%s:state%d' % (d.backend, dkey(d), t), 'byte successor state%d of the root records a late match: an empty match' % t, d.name)
                        break
                # the restart target of Skip is the root
            if g6b:
                rec = {k for k, s in sm.items() if s.record}
                reach = set(rec)
                changed = True
                while changed:
                    changed = False
                    for k, s in sm.items():
                        if k not in reach and (s.successors() & reach):
                            reach.add(k)
                            changed = True
                # reachable from root
                seen = {root}
                work = [root]
                while work:
                    x = work.pop()
                    for y in sm[x].successors():
                        if y not in seen:
                            seen.add(y)
                            work.append(y)
                for k in sorted(sm):
                    rep.inst(g6b, '%s:%s:state%d' % (d.backend, dkey(d), k), detail=None)
                    if k != root and k in seen and k not in reach:
                        rep.viol(g6b, 'dead-state:%s:%s:state%d' % (d.backend, dkey(d), k), 'state%d can never reach a recording state, yet it is reachable and consumes input: the walk does not stop at the first non-viable byte' % k, d.name)
                    if k not in seen:
                        rep.viol(g6b, 'unreachable-state:%s:%s:state%d' % (d.backend, dkey(d), k), 'state%d is not reachable from the root' % k, d.name)


# ------------------------------------------------------------------------------------------------
# G6a G6c G9: _get_action, _make_error, take-action
# ------------------------------------------------------------------------------------------------

def is_max_of(e, a_pred, b_pred):
    """e is max(a, b) in one of the accepted idioms"""
    if method(e, 'max') and len(e['args']) == 1:
        x, y = e['recv'], e['args'][0]
        return (a_pred(x) and b_pred(y)) or (a_pred(y) and b_pred(x))
    if e.get('k') == 'call' and is_path(e['func']) and e['func']['path'].endswith('cmp::max') and len(e['args']) == 2:
        x, y = e['args']
        return (a_pred(x) and b_pred(y)) or (a_pred(y) and b_pred(x))
    if e.get('k') == 'if' and e['else'] is not None and e['cond'].get('k') == 'bin' and e['cond']['op'] in ('>', '>=', '<', '<='):
        c = e['cond']
        th = e['then'][0]['e'] if len(e['then']) == 1 and e['then'][0].get('s') == 'expr' else None
        el = e['else']['body'][0]['e'] if e['else'].get('k') == 'block' and len(e['else']['body']) == 1 and e['else']['body'][0].get('s') == 'expr' else None
        if th is None or el is None:
            return False
        big, small = (c['l'], c['r']) if c['op'] in ('>', '>=') else (c['r'], c['l'])
        same = lambda p, q: src(p) == src(q)
        return same(th, big) and same(el, small) and ((a_pred(big) and b_pred(small)) or (a_pred(small) and b_pred(big)))
    return False


def is_start_plus_one(e, lexv='lex'):
    return e.get('k') == 'bin' and e['op'] == '+' and ((method(e['l'], 'offset', lexv) and lit_int(e['r']) == 1) or (method(e['r'], 'offset', lexv) and lit_int(e['l']) == 1))


def rule_error_action(ctx, rep, cfgs):
    g6a = rep.rule('G6a', 'error span: the no-match arm of _get_action ends the item with lex.end_to_boundary(max(offset, lex.offset() + 1)) and yields CallbackResult::Error(_make_error(lex))', floor=100)
    g6c = rep.rule('G6c', '_make_error is <Error as Default>::default() or the configured error callback followed by .into(); the DefaultError arm of the action dispatch calls it', floor=100)
    for cfg in cfgs:
        for d, m, sm in models(ctx, cfg):
            if m is None:
                continue
            k = '%s:%s' % (d.backend, dkey(d))
            ga = m.fns.get('_get_action')
            rep.inst(g6a, k)
            ok = False
            why = '_get_action not found'
            gp = [p.get('name') for p in ga['params']] if ga is not None else []
            if ga is not None and len(gp) == 3 and None not in gp and len(ga['body']) == 1 and ga['body'][0].get('s') == 'expr' and ga['body'][0]['e'].get('k') == 'match' and is_path(ga['body'][0]['e']['expr'], gp[2]):
                lexv, offv = gp[0], gp[1]
                arms = ga['body'][0]['e']['arms']
                none = [a for a in arms if a['pat'].get('p') == 'path' and a['pat']['path'].endswith('None')]
                why = 'no `None` arm'
                if len(none) == 1 and none[0]['body'].get('k') == 'block':
                    b = none[0]['body']['body']
                    why = 'the no-match arm is not `lex.end_to_boundary(max(offset, lex.offset() + 1)); CallbackResult::Error(_make_error(lex))`'
                    if len(b) == 2 and b[0].get('s') == 'expr' and method(b[0]['e'], 'end_to_boundary', lexv) and len(b[0]['e']['args']) == 1:
                        arg = b[0]['e']['args'][0]
                        if is_max_of(arg, lambda x: is_path(x, offv), lambda x: is_start_plus_one(x, lexv)):
                            r = b[1].get('e') if b[1].get('s') == 'expr' else None
                            if r and r.get('k') == 'call' and is_path(r['func']) and r['func']['path'].endswith('CallbackResult::Error') and len(r['args']) == 1 \
                                    and r['args'][0].get('k') == 'call' and is_path(r['args'][0]['func'], '_make_error') and [src(x) for x in r['args'][0]['args']] == [lexv]:
                                ok = True
                            else:
                                why = 'the no-match arm does not yield CallbackResult::Error(_make_error(lex))'
                        else:
                            why = 'the error end is %s, expected max(offset, lex.offset() + 1)' % src(arg)
                    elif b and b[0].get('s') == 'expr' and method(b[0]['e'], 'end', lexv):
                        why = 'the error end is not rounded to a char boundary (lex.end instead of lex.end_to_boundary)'
            if not ok:
                rep.viol(g6a, 'error-arm:%s' % k, '%s: %s' % (d.name, why), d.name)
            me = m.fns.get('_make_error')
            rep.inst(g6c, k)
            ok = False
            if me is not None and len(me['params']) == 1:
                b = me['body']
                if len(b) == 1 and b[0].get('s') == 'expr' and b[0]['e'].get('k') == 'call' and b[0]['e']['func'].get('k') == 'path' and b[0]['e']['func']['full'].replace(' ', '').endswith('::core::default::Default>::default') and not b[0]['e']['args']:
                    ok = True
                elif len(b) >= 2 and b[-1].get('s') == 'expr' and method(b[-1]['e'], 'into') and is_path(b[-1]['e']['recv'], 'error') and b[-2].get('s') == 'let' and b[-2]['pat'].get('name') == 'error':
                    ok = True
            if not ok:
                rep.viol(g6c, 'make-error:%s' % k, '_make_error of %s is neither Default::default() nor the error callback followed by .into()' % d.name, d.name)


def rule_action_dispatch(ctx, rep, cfgs):
    g9a = rep.rule('G9a', 'action dispatch: Emit(t) -> return Some(Ok(t)); Error(e) -> return Some(Err(e)); DefaultError -> return Some(Err(_make_error(lex))); Skip -> restart', floor=1000)
    g9c = rep.rule('G9c', 'Skip restarts ahead: exactly `lex.trivia(); offset = lex.offset(); context = None;` then a transfer to the root state', floor=1000)
    for cfg, d, m, sm, name, s in each_state(ctx, cfgs):
        k = skey(d, m, name)
        rep.inst(g9a, k)
        rep.inst(g9c, k)
        acts = [p for p in s.paths if p.outcome[0] == 'action']
        if not acts:
            # legitimate when every byte value and the end of input have a transition
            if len(s.edges) + len(s.loopset) < 256 or s.eoi_edge is None:
                rep.viol(g9a, 'no-action:%s' % k, 'state %s has input without a transition but never takes an action' % name, d.name)
            continue
        for p in acts:
            nm, o = p.outcome[1], p.outcome[2]
            if nm == 'Emit' and not (o[0] == 'emit' and p.st.env.get(o[1]) == ('payload', 'Emit')):
                rep.viol(g9a, 'emit:%s' % k, 'the Emit arm of %s returns %s' % (name, o), d.name)
            if nm == 'Error' and not (o[0] == 'error' and p.st.env.get(o[1]) == ('payload', 'Error')):
                rep.viol(g9a, 'error:%s' % k, 'the Error arm of %s returns %s' % (name, o), d.name)
            if nm == 'DefaultError' and o != ('default_error',):
                rep.viol(g9a, 'default-error:%s' % k, 'the DefaultError arm of %s returns %s' % (name, o), d.name)
            if nm == 'Skip':
                i = [j for j, ev in enumerate(p.events) if ev == ('action_arm', 'Skip')][0]
                tail = p.events[i + 1:]
                want = [('trivia',), ('setoff', Off('start')), ('ctx', None)]
                if tail != want:
                    rep.viol(g9c, 'skip-sequence:%s' % k, 'the Skip arm of %s performs %s, expected lex.trivia(); offset = lex.offset(); context = None' % (name, tail), d.name)
                if o == ('reenter',):
                    rep.viol(g9c, 'skip-reenters-lex:%s' % k, 'the Skip arm of %s restarts by calling lex() recursively instead of transferring to the root state: one stack frame per skipped item' % name, d.name)
                elif not (o[0] == 'goto' and m.state_key(o[1]) == m.state_key(m.root) and o[2] == Off('start') and o[3] is None):
                    rep.viol(g9c, 'skip-restart:%s' % k, 'the Skip arm of %s continues with %s, expected the root state at lex.offset() with an empty context' % (name, o), d.name)
            for ev in p.events:
                pass
            ga = [ev for ev in p.events if ev[0] == 'get_action']
            if len(ga) != 1:
                rep.viol(g9a, 'get-action-count:%s' % k, 'a take-action path of %s calls _get_action %d times' % (name, len(ga)), d.name)


CB_NAME = re.compile(r'^(cb_result|srv|token)$')


def count_calls(e, pred):
    n = 0
    if isinstance(e, dict):
        if pred(e):
            n += 1
        for v in e.values():
            n += count_calls(v, pred)
    elif isinstance(e, list):
        for v in e:
            n += count_calls(v, pred)
    return n


def rule_leaf_arms(ctx, rep, cfgs):
    g9b = rep.rule('G9b', 'each leaf arm of _get_action evaluates at most one callback (exactly one when configured) and then the matching constructor: Skip | Emit(Variant) | Emit(Variant(lex.slice())) | CallbackRetVal::construct(cb_result, ctor) | CallbackResult::from(SkipRetVal::construct(cb_result)); it never moves the span itself', floor=300)
    g9d = rep.rule('G9d', 'each leaf arm of _get_action produces the variant (or the skip) its own leaf was declared with: unit variants through Emit(Name::V) / construct(cb, |()| Name::V), value variants through Name::V(lex.slice()) / construct(cb, Name::V), skips through Skip / SkipRetVal — compared with the leaf table the derive printed in the same run', floor=300)
    for cfg in cfgs:
        for d, m, sm in models(ctx, cfg):
            if m is None:
                continue
            ga = m.fns.get('_get_action')
            if ga is None or not ga['body'] or ga['body'][0].get('s') != 'expr' or ga['body'][0]['e'].get('k') != 'match':
                continue
            leaves = m.enums.get('LogosLeaf', [])
            arms = ga['body'][0]['e']['arms']
            seen = set()
            for a in arms:
                p = a['pat']
                if p.get('p') == 'path' and p['path'].endswith('None'):
                    continue
                if p.get('p') == 'tuplestruct' and p['path'].endswith('Some') and len(p['elems']) == 1 and p['elems'][0].get('p') == 'path' and p['elems'][0]['path'].startswith('LogosLeaf::'):
                    leaf = p['elems'][0]['path'].split('::')[-1]
                else:
                    if p.get('p') == 'tuplestruct' and p['path'].endswith('Some') and not leaves:
                        continue
                    rep.viol(g9b, 'arm-pattern:%s:%s' % (d.backend, dkey(d)), 'unexpected arm %s in _get_action' % src(p), d.name)
                    continue
                seen.add(leaf)
                k = '%s:%s:%s' % (d.backend, dkey(d), leaf)
                body = a['body']['body'] if a['body'].get('k') == 'block' else [dict(s='expr', e=a['body'])]
                form = leaf_form(body, (ga['params'][0].get('name') if ga['params'] else None) or 'lex')
                rep.inst(g9b, k, detail=form)
                if form.startswith('?'):
                    rep.viol(g9b, 'leaf-arm:%s' % k, 'leaf arm %s of %s is not one of the audited forms: %s' % (leaf, d.name, form), d.name)
                # G9d: the arm produces what the leaf of that index was declared to produce (variant and kind as the
                # derive printed them in the same run): glue code shared between leaves would report another variant
                inv = getattr(d, 'inv', None)
                li = _leaf_index(leaf)
                if inv is not None and inv.leaves is not None and li is not None and li < len(inv.leaves) and not form.startswith('?'):
                    decl = inv.leaves[li]['variant']
                    want = ('skip', None) if decl == '<skip>' else (('value', decl[:-3]) if decl.endswith('(_)') else ('unit', decl))
                    got = leaf_target(body)
                    rep.inst(g9d, k, detail=dict(declared=decl))
                    if got != want:
                        rep.viol(g9d, 'leaf-target:%s' % k, 'leaf %s of %s is declared as %s but its arm of _get_action produces %s' % (leaf, d.name, decl, got), d.name)
                # generated statements (outside the user callback expression) never touch the span
                for st in body:
                    if st.get('s') == 'let' and st['pat'].get('name') == 'cb_result':
                        continue
                    lexv = (ga['params'][0].get('name') if ga['params'] else None) or 'lex'
                    if count_calls(st, lambda e: e.get('k') == 'method' and is_path(e.get('recv'), lexv) and e['method'] in ('end', 'end_to_boundary', 'trivia', 'bump')):
                        rep.viol(g9b, 'leaf-arm-span:%s' % k, 'leaf arm %s moves the span outside the callback' % leaf, d.name)
            if sorted(seen) != sorted(leaves):
                rep.viol(g9b, 'leaf-arms-missing:%s:%s' % (d.backend, dkey(d)), '_get_action handles leaves %s, LogosLeaf has %s' % (sorted(seen), sorted(leaves)), d.name)


def leaf_target(body):
    """what a leaf arm produces: ('skip', None) | ('unit', Variant) | ('value', Variant) | None when not recognisable"""
    def last(pth):
        return pth.split('::')[-1]
    if not body:
        return None
    e = body[-1].get('e') if body[-1].get('s') == 'expr' else None
    if e is None:
        return None
    if is_path(e) and e['path'].endswith('CallbackResult::Skip'):
        return ('skip', None)
    if e.get('k') != 'call' or e['func'].get('k') != 'path':
        return None
    f = e['func']['path']
    if f.endswith('CallbackResult::from'):
        return ('skip', None)
    if f.endswith('CallbackResult::Emit') and len(e['args']) == 1:
        a = e['args'][0]
        if is_path(a, 'token'):
            for st in body[:-1]:
                if st.get('s') == 'let' and st['pat'].get('name') == 'token' and st['init'].get('k') == 'call' and is_path(st['init']['func']):
                    return ('value', last(st['init']['func']['path']))
            return None
        if is_path(a):
            return ('unit', last(a['path']))
        return None
    if f.endswith('CallbackRetVal::construct') and len(e['args']) == 2:
        c = e['args'][1]
        if c.get('k') == 'closure' and is_path(c.get('body')):
            return ('unit', last(c['body']['path']))
        if is_path(c):
            return ('value', last(c['path']))
    return None


def leaf_form(body, lexv='lex'):
    """classify the body of a leaf arm"""
    def is_cb_let(s):
        return s.get('s') == 'let' and s['pat'].get('name') == 'cb_result'
    exprs = [s for s in body]
    if len(exprs) == 1 and exprs[0].get('s') == 'expr':
        e = exprs[0]['e']
        if is_path(e) and e['path'].endswith('CallbackResult::Skip'):
            return 'skip'
        if e.get('k') == 'call' and is_path(e['func']) and e['func']['path'].endswith('CallbackResult::Emit') and len(e['args']) == 1 and is_path(e['args'][0]):
            return 'emit-unit'
        return '?single:' + src(e)[:60]
    if len(exprs) == 2 and exprs[0].get('s') == 'let' and exprs[0]['pat'].get('name') == 'token' and exprs[1].get('s') == 'expr':
        init = exprs[0]['init']
        e = exprs[1]['e']
        if init.get('k') == 'call' and len(init['args']) == 1 and method(init['args'][0], 'slice', lexv) and e.get('k') == 'call' and is_path(e['func']) and e['func']['path'].endswith('CallbackResult::Emit') and [src(x) for x in e['args']] == ['token']:
            return 'emit-slice'
        return '?token:' + src(init)[:60]
    if exprs and is_cb_let(exprs[0]):
        rest = exprs[1:]
        if len(rest) == 1 and rest[0].get('s') == 'expr':
            e = rest[0]['e']
            if e.get('k') == 'call' and e['func'].get('k') == 'path' and e['func']['path'].endswith('CallbackRetVal::construct') and len(e['args']) == 2 and is_path(e['args'][0], 'cb_result'):
                return 'callback-construct'
        if len(rest) == 2 and rest[0].get('s') == 'let' and rest[0]['pat'].get('name') == 'srv' and rest[1].get('s') == 'expr':
            i = rest[0]['init']
            e = rest[1]['e']
            if i.get('k') == 'call' and i['func'].get('k') == 'path' and i['func']['path'].endswith('SkipRetVal::construct') and [src(x) for x in i['args']] == ['cb_result'] \
                    and e.get('k') == 'call' and is_path(e['func']) and e['func']['path'].endswith('CallbackResult::from') and [src(x) for x in e['args']] == ['srv']:
                return 'skip-callback'
        return '?callback-tail'
    return '?shape(%d statements)' % len(exprs)


# ------------------------------------------------------------------------------------------------
# G11 G7b: fast loops
# ------------------------------------------------------------------------------------------------

def rule_fast_loops(ctx, rep, cfgs):
    g11 = rep.rule('G11', 'fast loops progress and stop exactly at the byte that ends them: chunk byte i ends the loop with offset += i, a full chunk advances by its length, the byte loop advances by 1, loops are left only by break or by the read returning None; constant chunk indices are in range; the loop runs before anything is recorded', floor=150)
    for cfg, d, m, sm, name, s in each_state(ctx, cfgs):
        fl = m.fastloops[name]
        if fl is None:
            continue
        k = skey(d, m, name)
        rep.inst(g11, k, detail=dict(loop_bytes=len(fl['loopset']), chunk=fl['chunk']))
        for v in fl['violations']:
            rep.viol(g11, 'fast-loop:%s:%s' % (k, hashlib.sha1(v.encode()).hexdigest()[:6]), 'fast loop of %s: %s' % (name, v), d.name)
        # the self loop set must not overlap an outgoing byte edge of the dispatch (the loop already consumed those)
        if not fl['loopset']:
            rep.viol(g11, 'fast-loop-empty:%s' % k, 'fast loop of %s loops on no byte' % name, d.name)


# ------------------------------------------------------------------------------------------------
# G8: translation validation tail-call vs state machine
# ------------------------------------------------------------------------------------------------

def lts(d, m, sm):
    """canonical labelled transition system of one generated lexer"""
    out = {}
    for k, s in sorted(sm.items()):
        edges = {}
        for b, t in s.edges.items():
            edges.setdefault(t, []).append(b)
        out[k] = dict(
            loop=sorted(s.loopset),
            record=s.record,
            edges=sorted((t, tuple(sorted(bs))) for t, bs in edges.items()),
            eoi=s.eoi_edge,
            guard=has_prefix_guard(s),
            root_guard=any(p.at_start for p in s.eoi_paths),
            falls=sorted({(p.eoi, p.prefix, p.at_start, fatal_delta(p)) for p in s.paths if p.outcome[0] == 'action'}, key=str),
            restarts=sorted({repr((model_key(p.outcome[2][1]),) + tuple(p.outcome[2][2:])) for p in s.paths if p.outcome[0] == 'action' and p.outcome[1] == 'Skip' and p.outcome[2][0] == 'goto'}),
        )
    return dict(root=m.state_key(m.root), states=out)


def model_key(name):
    return int(re.sub(r'\D', '', name))


def fatal_delta(p):
    """offset handed to _get_action relative to the offset of the dispatch read"""
    dr = dispatch_reads(p)
    ga = [ev for ev in p.events if ev[0] == 'get_action']
    if not dr or not ga:
        return None
    r, g = dr[0][1][2], ga[0][1]
    return (g.k - r.k) if g.base == r.base else repr(g)


def shared_items(m):
    """token-level identity of the items both back ends share"""
    h = {}
    for n in ('_get_action', '_make_error'):
        f = m.fns.get(n)
        h[n] = hashlib.sha256(f['src_hash'].encode()).hexdigest()[:16] if f else None
    h['LogosLeaf'] = tuple(m.enums.get('LogosLeaf', []))
    tables = {k: v for k, v in m.consts.items() if k.startswith('_TABLE_')}
    h['tables'] = hashlib.sha256(repr(sorted(tables.items())).encode()).hexdigest()[:16]
    return h


def rule_backends(ctx, rep, pair):
    g8a = rep.rule('G8a', 'translation validation: for every definition the transition system extracted from the tail-call lexer equals the one extracted from the state-machine lexer (root, states, self loops, records, byte and end-of-input edges, prefix/root guards, fall-through) and the shared items (_get_action, _make_error, LogosLeaf, lookup tables) are token-identical', floor=60)
    g8b = rep.rule('G8b', 'bounded stack: the state-machine lexer declares no state functions, every transition is `state = ..; continue` inside one loop and the call graph of the generated items is acyclic', floor=60)
    tail = {dkey(d): (d, m, sm) for d, m, sm in models(ctx, pair[0]) if m is not None}
    smm = {dkey(d): (d, m, sm) for d, m, sm in models(ctx, pair[1]) if m is not None}
    progs = 0
    samples = []
    diffs = 0
    for k in sorted(set(tail) | set(smm)):
        rep.inst(g8a, '%s|%s:%s' % (pair[0], pair[1], k))
        if k not in tail or k not in smm:
            rep.viol(g8a, 'missing-backend:%s' % k, 'definition %s is only analysable under one code generator' % k, k)
            continue
        progs += 1
        (d1, m1, s1), (d2, m2, s2) = tail[k], smm[k]
        a, b = lts(d1, m1, s1), lts(d2, m2, s2)
        if len(samples) < 3:
            samples.append(dict(definition=k, root=a['root'], states=len(a['states']), sample_state={str(kk): vv for kk, vv in list(a['states'].items())[:1]}))
        if a != b:
            diffs += 1
            what = []
            if a['root'] != b['root']:
                what.append('root %s vs %s' % (a['root'], b['root']))
            for sk in sorted(set(a['states']) | set(b['states'])):
                x, y = a['states'].get(sk), b['states'].get(sk)
                if x != y:
                    fields = [f for f in (x or {}) if (y or {}).get(f) != x.get(f)] if x and y else ['missing']
                    what.append('state%s differs in %s' % (sk, fields))
                    if len(what) > 4:
                        break
            rep.viol(g8a, 'backend-mismatch:%s' % k, 'tail-call and state-machine lexers of %s are different automata: %s' % (k, '; '.join(what)), k)
        if getattr(m1, 'ctx_reset_in_loop', False) != getattr(m2, 'ctx_reset_in_loop', False) or getattr(m2, 'ctx_reset_in_loop', False):
            diffs += 1
            rep.viol(g8a, 'context-register:%s' % k, 'the state-machine lexer of %s re-initialises the context (last matched leaf) on every transition, the tail-call lexer passes it on: fallback to a shorter match is lost' % k, k)
        sa, sb = shared_items(m1), shared_items(m2)
        if sa != sb:
            diffs += 1
            rep.viol(g8a, 'shared-items:%s' % k, 'shared generated items differ between the back ends: %s' % [n for n in sa if sa[n] != sb[n]], k)
        # stack
        rep.inst(g8b, '%s:%s' % (pair[1], k))
        state_fns = [n for n in m2.fns if re.fullmatch(r'state\d+', n)]
        if state_fns:
            rep.viol(g8b, 'sm-state-fns:%s' % k, 'the state-machine lexer of %s declares state functions %s' % (k, state_fns[:3]), k)
        # calls among generated items: _get_action -> _make_error only; nothing calls lex() again
        for n, f in m2.fns.items():
            calls = set()
            collect_calls(f['body'], calls)
            bad = {c for c in calls if c in m2.fns and c != '_make_error'} - ({'loop_test'})
            if n == '_get_action':
                bad -= {'_make_error'}
            if bad:
                rep.viol(g8b, 'sm-call-cycle:%s:%s' % (k, n), 'generated fn %s of the state-machine lexer calls %s' % (n, sorted(bad)), k)
        if any(p.outcome[0] == 'action' and p.outcome[2] == ('reenter',) for n in m2.state_order for p in m2.paths[n]):
            rep.viol(g8b, 'sm-reenters-lex:%s' % k, 'the state-machine lexer of %s calls lex recursively: stack use grows with the number of restarts' % k, k)
        tokens = d2.body_tokens
        if False and re.search(r'\bSelf\s*::\s*lex\b|\bLogos\s*::\s*lex\b|<\s*Self\s+as\s+[^>]*>\s*::\s*lex\b', tokens):
            rep.viol(g8b, 'sm-reenters-lex:%s' % k, 'the state-machine lexer of %s calls lex recursively: stack use grows with the number of restarts' % k, k)
    rep.extra.update(dict(programs=progs, disagreements_checked=progs * 2, samples=samples))
    return progs


def collect_calls(e, out):
    if isinstance(e, dict):
        if e.get('k') == 'call' and e['func'].get('k') == 'path':
            out.add(e['func']['path'])
        for v in e.values():
            collect_calls(v, out)
    elif isinstance(e, list):
        for v in e:
            collect_calls(v, out)


# ------------------------------------------------------------------------------------------------
# shape coverage
# ------------------------------------------------------------------------------------------------

def rule_shape_coverage(ctx, rep, cfgs):
    rid = rep.rule('G-shapes', 'template shape coverage of the corpus: every rendering branch of the generator is instantiated at least once per code generator (else the generated-code rules would pass vacuously)', floor=10)
    for cfg in cfgs:
        c = dict(states=0, self_loop=0, no_self_loop=0, early=0, late=0, eoi_edge=0, prefix_guard=0, no_prefix_guard=0, jump_table=0, if_chain=0, lut_test=0, cmp_exception=0, skip_leaf=0, callback_leaf=0, byte_mode=0, str_mode=0, two_luts=0, eoi_only=0)
        for d, m, sm in models(ctx, cfg):
            if m is None:
                continue
            c['byte_mode' if 'u8' in d.source else 'str_mode'] += 1
            if sum(1 for cn, t in m.consts.items() if isinstance(t, list) and len(t) == 256 and all(isinstance(x, int) for x in t)) >= 2:
                c['two_luts'] += 1
            ga = m.fns.get('_get_action')
            if ga:
                txt = ga['src_hash']
                if 'CallbackResult :: Skip' in txt:
                    c['skip_leaf'] += 1
                if 'cb_result' in txt:
                    c['callback_leaf'] += 1
            for name in m.state_order:
                s = sm[m.state_key(name)]
                c['states'] += 1
                c['self_loop' if s.loopset else 'no_self_loop'] += 1
                if s.record:
                    c[s.record[1]] = c.get(s.record[1], 0) + 1
                if s.eoi_edge is not None:
                    c['eoi_edge'] += 1
                    if not s.edges and not s.loopset:
                        c['eoi_only'] += 1
                c['prefix_guard' if has_prefix_guard(s) else 'no_prefix_guard'] += 1
                for f in m.features.get(name, ()):
                    c[f] = c.get(f, 0) + 1
        rep.analysed.setdefault('shapes', {})[cfg] = c
        for shape in ('self_loop', 'no_self_loop', 'early', 'late', 'eoi_edge', 'eoi_only', 'prefix_guard', 'no_prefix_guard', 'jump_table', 'if_chain', 'lut_test', 'cmp_exception', 'two_luts', 'skip_leaf', 'callback_leaf', 'byte_mode', 'str_mode'):
            rep.inst(rid, '%s:%s' % (cfg, shape), detail=c[shape])
            if c[shape] == 0:
                rep.viol(rid, 'shape-missing:%s:%s' % (cfg, shape), 'no captured definition instantiates the `%s` shape under %s: the corpus no longer covers this template branch' % (shape, cfg), 'corpus')


# ------------------------------------------------------------------------------------------------
# small scope (thorough tier): the bounded-exhaustive family of corpus/gen_enum.py
# ------------------------------------------------------------------------------------------------

ENUM_CFGS = ['tail-enum', 'sm-enum']


def smallscope(ctx, rep, **want):
    """thorough tier only.  Runs the named rule families once more over every member of the bounded-exhaustive family
    (every definition of the shapes listed in corpus/gen_enum.py over a two-letter alphabet, both back ends).  The rule
    ids are shared with the corpus run: instances and violations accumulate under the same rule."""
    if ctx.tier != 'thorough':
        return
    cfgs = ENUM_CFGS
    rid = rep.rule('G22', 'small scope: every member of the bounded-exhaustive family of corpus/gen_enum.py (all non-nullable sequences of <= 3 quantified letters alone, all unordered pairs of sequences of <= 2, with and without a trailing look-ahead, str and byte mode, as skip pattern) is accepted by the derive and lies inside the analysable subset; the rule families named by the property run on each of them', floor=5000)
    for cfg in cfgs:
        n = 0
        for d, m, s in models(ctx, cfg):
            n += 1
            rep.inst(rid, '%s:%s' % (cfg, dkey(d)), trivial=True)
            if d.rejected:
                rep.viol(rid, 'rejected:%s:%s' % (d.backend, dkey(d)), 'small-scope definition %s is rejected by the derive although all its priorities are distinct' % d.name, d.name)
            elif m is None:
                rep.viol(rid, 'unsupported:%s:%s' % (d.backend, dkey(d)), 'generated code of %s is outside the analysable subset: %s' % (d.name, d.error), d.name)
        rep.analysed.setdefault('definitions', {})[cfg] = n
    if want.get('automata'):
        rule_automata(ctx, rep, cfgs, want=want['automata'])
    if want.get('backends'):
        rule_backends(ctx, rep, (cfgs[0], cfgs[1]))
    if want.get('transitions'):
        rule_transitions(ctx, rep, cfgs, want=want['transitions'])
    if want.get('graph'):
        rule_graph(ctx, rep, cfgs, want=want['graph'])
    if want.get('records'):
        rule_records(ctx, rep, cfgs, want=want['records'])
    if want.get('partial'):
        rule_partial(ctx, rep, cfgs)
    if want.get('promptness'):
        rule_promptness(ctx, rep, cfgs)
    if want.get('fast_loops'):
        rule_fast_loops(ctx, rep, cfgs)
    if want.get('error_action'):
        rule_error_action(ctx, rep, cfgs)
    if want.get('action_dispatch'):
        rule_action_dispatch(ctx, rep, cfgs)


# ------------------------------------------------------------------------------------------------
# property bundles
# ------------------------------------------------------------------------------------------------

def rules_c01(ctx, rep):
    cfgs = configs(ctx)
    base_checks(ctx, rep, cfgs)
    rule_automata(ctx, rep, cfgs)
    if ctx.tier == 'thorough':
        rule_debug_neutral(ctx, rep, cfgs)
    rule_shape_coverage(ctx, rep, cfgs)
    smallscope(ctx, rep, automata=('G19', 'G20'))
    controls(ctx, rep, ['G19', 'G20'])


def rules_c02(ctx, rep):
    cfgs = configs(ctx)
    base_checks(ctx, rep, cfgs)
    rule_automata(ctx, rep, cfgs)
    rule_error_action(ctx, rep, cfgs)
    rule_graph(ctx, rep, cfgs, want=('G6b',))
    rule_transitions(ctx, rep, cfgs, want=('G2',))
    rule_expect_late(ctx, rep, cfgs)
    rule_twins(ctx, rep, cfgs, 'G14-C02', 'de-duplication twins: a spelling whose DFA has equivalent states that de-duplication merges (merging their byte classes) generates exactly the lexer of the spelling without duplicate states: merging adds no byte to any edge', 'twins_dedup::', floor=2)
    rule_shape_coverage(ctx, rep, cfgs)
    smallscope(ctx, rep, automata=('G19', 'G20'), error_action=True, graph=('G6b',), transitions=('G2',))
    controls(ctx, rep, ['G6a', 'G2'])


def rules_c03(ctx, rep):
    cfgs = configs(ctx)
    base_checks(ctx, rep, cfgs)
    rule_automata(ctx, rep, cfgs)
    rule_transitions(ctx, rep, cfgs, want=('G1',))
    rule_graph(ctx, rep, cfgs, want=('G3', 'G4'))
    rule_fast_loops(ctx, rep, cfgs)
    rule_records(ctx, rep, cfgs, want=('G10',))
    rule_action_dispatch(ctx, rep, cfgs)
    rule_shape_coverage(ctx, rep, cfgs)
    smallscope(ctx, rep, automata=('G19', 'G20'), transitions=('G1',), graph=('G3', 'G4'), fast_loops=True, records=('G10',), action_dispatch=True)
    controls(ctx, rep, ['G1', 'G4', 'G9c', 'G10', 'G11'])


def rules_c04(ctx, rep):
    """positions handed to lex.end are exactly the positions the walk has read up to: every transition consumes one position,
    records are at offset / offset - 1 (necessary for ends to be the automaton's match ends, hence char boundaries)"""
    cfgs = configs(ctx)
    base_checks(ctx, rep, cfgs)
    rule_automata(ctx, rep, cfgs)
    rule_transitions(ctx, rep, cfgs, want=('G1',))
    rule_records(ctx, rep, cfgs, want=('G10', 'G7c'))
    rule_error_action(ctx, rep, cfgs)
    smallscope(ctx, rep, automata=('G19', 'G20'), transitions=('G1',), records=('G10', 'G7c'), error_action=True)
    controls(ctx, rep, ['G1', 'G10', 'G6a'])


def rules_c05(ctx, rep):
    cfgs = configs(ctx, forbid=True)
    base_checks(ctx, rep, cfgs)
    rule_transitions(ctx, rep, cfgs, want=('G1',))      # one position per transition, the end-of-input edge included: offsets stay <= len + 1
    rule_automata(ctx, rep, cfgs)
    rule_records(ctx, rep, cfgs, want=('G7c',))
    rule_graph(ctx, rep, cfgs, want=('G3',))              # at most one virtual end-of-input position: offsets stay <= len + 1
    rule_fast_loops(ctx, rep, cfgs)
    rid = rep.rule('G7a', 'generated code contains no unsafe block or item (besides the derive-emitted `unsafe impl TrivialClone` of the fieldless helper enums) and touches the source only through lex.read::<T>(offset); table indices are `byte as usize` into 256-entry const tables', floor=60)
    for cfg in cfgs:
        for d, m, sm in models(ctx, cfg):
            if m is None:
                continue
            k = '%s:%s' % (cfg, dkey(d))
            helper = sum(len(re.findall(r'unsafe\s+impl\s+::\s*core\s*::\s*clone\s*::\s*TrivialClone', d.body_tokens)) for _ in (0,))
            rep.inst(rid, k, detail=dict(unsafe_tokens=d.unsafe_tokens, derive_helper_impls=helper))
            cb = sum(f['src_hash'].count('unsafe') for n, f in m.fns.items() if n == '_get_action')
            if d.unsafe_tokens - helper - cb > 0 or m.unsafe_items:
                rep.viol(rid, 'unsafe:%s' % k, 'generated code of %s contains `unsafe` outside user callbacks' % d.name, d.name)
            for name, consts in m.state_consts.items():
                for cn, t in consts.items():
                    if cn == 'TABLE' and isinstance(t, list) and len(t) != 256:
                        rep.viol(rid, 'table-size:%s:%s' % (k, name), 'jump table of %s has %d entries' % (name, len(t)), d.name)
            for cn, t in m.consts.items():
                if cn.startswith('_TABLE_') and (not isinstance(t, list) or len(t) != 256):
                    rep.viol(rid, 'lut-size:%s:%s' % (k, cn), 'lookup table %s does not have 256 entries' % cn, d.name)
    if ctx.tier == 'thorough':
        g7d = rep.rule('G7d', 'the generated impl is token-identical with and without forbid_unsafe: the two builds differ only in the audited runtime functions', floor=60)
        for a, b in (('tail-full', 'tail-forbid-full'), ('sm-full', 'sm-forbid-full')):
            x = {dkey(d): d for d, m, s in models(ctx, a)}
            y = {dkey(d): d for d, m, s in models(ctx, b)}
            for k in sorted(set(x) | set(y)):
                rep.inst(g7d, '%s:%s' % (a, k))
                if k not in x or k not in y or x[k].body_tokens != y[k].body_tokens:
                    rep.viol(g7d, 'forbid-diff:%s:%s' % (a, k), 'generated code of %s differs between the default and the forbid_unsafe build' % k, k)


def rules_c06(ctx, rep):
    cfgs = configs(ctx)
    base_checks(ctx, rep, cfgs)
    rule_backends(ctx, rep, (cfgs[0], cfgs[1]))
    rule_automata(ctx, rep, cfgs)
    extra = dict(rep.extra)
    rule_shape_coverage(ctx, rep, cfgs)
    smallscope(ctx, rep, backends=True, automata=('G19', 'G20'))
    controls(ctx, rep, ['G8'])
    rep.extra.update(extra)


def rules_c07(ctx, rep):
    cfgs = configs(ctx)
    base_checks(ctx, rep, cfgs)
    rule_automata(ctx, rep, cfgs, want=('G20',))      # kind `withheld`: decided items are not kept behind an edge (reference: the DFA)
    rule_partial(ctx, rep, cfgs)
    rule_promptness(ctx, rep, cfgs)
    rule_graph(ctx, rep, cfgs, want=('G6b', 'G3'))
    rule_shape_coverage(ctx, rep, cfgs)
    smallscope(ctx, rep, automata=('G20',), partial=True, promptness=True, graph=('G6b', 'G3'))
    controls(ctx, rep, ['G5'])


def rules_c13(ctx, rep):
    cfgs = configs(ctx)
    base_checks(ctx, rep, cfgs)
    rule_automata(ctx, rep, cfgs)
    rule_action_dispatch(ctx, rep, cfgs)
    rule_leaf_arms(ctx, rep, cfgs)
    rule_records(ctx, rep, cfgs, want=('G10',))
    smallscope(ctx, rep, automata=('G19', 'G20'), action_dispatch=True, records=('G10',))
    controls(ctx, rep, ['G9c', 'G10'])


def rules_c20(ctx, rep):
    cfgs = configs(ctx)
    base_checks(ctx, rep, cfgs)
    rule_automata(ctx, rep, cfgs)
    rule_transitions(ctx, rep, cfgs, want=('G1', 'G2', 'G12'))
    rule_fast_loops(ctx, rep, cfgs)
    rule_graph(ctx, rep, cfgs, want=('G3', 'G6b'))      # no end-of-input cycle (unbounded reads), no walk beyond the decision
    rule_shape_coverage(ctx, rep, cfgs)
    smallscope(ctx, rep, automata=('G19', 'G20'), transitions=('G1', 'G2', 'G12'), fast_loops=True, graph=('G3', 'G6b'))
    controls(ctx, rep, ['G1', 'G2', 'G11'])


# ------------------------------------------------------------------------------------------------
# G13 / G14: twin groups of the corpus
# ------------------------------------------------------------------------------------------------

def normalised_body(d):
    ident = re.match(r'[A-Za-z_][A-Za-z0-9_]*', d.self_ty).group(0)
    return re.sub(r"(?<![A-Za-z0-9_'])%s(?![A-Za-z0-9_'])" % re.escape(ident), 'SELF', d.body_tokens)


def rule_twins(ctx, rep, cfgs, rid, text, prefix, floor):
    rep.rule(rid, text, floor=floor)
    for cfg in cfgs:
        groups = {}
        for d in ctx.gen(cfg):
            if d.label == 'corpus' and d.module.startswith(prefix):
                groups.setdefault(d.module, []).append(d)
        if not groups:
            rep.anchor(rid, 'corpus groups %s* under %s' % (prefix, cfg), False)
        for g, ds in sorted(groups.items()):
            ds = sorted(ds, key=lambda d: d.self_ty)
            rej = [d for d in ds if d.rejected]
            rep.inst(rid, '%s:%s' % (cfg, g), detail=dict(members=len(ds), rejected=len(rej)))
            if rej and len(rej) < len(ds):
                rep.viol(rid, 'twin-acceptance:%s:%s' % (cfg, g), 'group %s: %d of %d members are rejected by the derive although they differ only in spelling / argument order (%s)' % (g, len(rej), len(ds), ', '.join(d.self_ty for d in rej[:4])), g)
                continue
            if rej:
                rep.viol(rid, 'twin-rejected:%s:%s' % (cfg, g), 'group %s is rejected by the derive' % g, g)
                continue
            ref = normalised_body(ds[0])
            bad = [d.self_ty for d in ds[1:] if normalised_body(d) != ref]
            # ... and implement Logos for the same instantiation of the enum (`impl Logos for P<u64, String>`)
            def inst_of(d):
                return re.sub(r'^[A-Za-z_][A-Za-z0-9_]*', 'SELF', d.self_ty)
            bad += [d.self_ty for d in ds[1:] if inst_of(d) != inst_of(ds[0]) and d.self_ty not in bad]
            if bad:
                rep.viol(rid, 'twin-mismatch:%s:%s' % (cfg, g), 'group %s: members %s generate a different lexer than %s although they must be equivalent' % (g, bad[:6], ds[0].self_ty), g)
            if len(ds) < 2:
                rep.viol(rid, 'twin-singleton:%s:%s' % (cfg, g), 'group %s has a single member' % g, g)


def rules_c10(ctx, rep):
    cfgs = configs(ctx)
    rule_twins(ctx, rep, cfgs, 'G14-C10', 'corpus twins: a literal token (verbatim or ignore(case)) generates exactly the lexer of the regex that spells it out (token-identical fn lex, hence identical behaviour on every input)', 'twins_c10::', floor=10)


def rules_c11(ctx, rep):
    cfgs = configs(ctx)
    rule_twins(ctx, rep, cfgs, 'G14-C11', 'corpus twins: a definition using subpatterns (alternation + suffix, nested references, inline flags, byte subpatterns, references at start/middle/end) generates exactly the lexer of its hand-inlined (?u:..)/(?-u:..) form', 'twins_c11::', floor=10)


def rules_c12(ctx, rep):
    cfgs = configs(ctx)
    rule_twins(ctx, rep, cfgs, 'G14-C12', 'corpus mode twins: a str-mode definition and the same definition with utf8 = false generate token-identical fn lex bodies (they differ only in `type Source`)', 'twins_c12::', floor=4)


def rules_c18(ctx, rep):
    cfgs = configs(ctx)
    rule_twins(ctx, rep, cfgs, 'G13', 'permutation twins: every permutation of the named arguments of #[regex] / #[token] / skip(...) (with and without positional callback) and of the items of one #[logos(...)] attribute is accepted and generates token-identical code', 'perms::', floor=12)



# ------------------------------------------------------------------------------------------------
# positive controls: hand-broken generated lexers (fixtures/gen) must make each rule fire; the unbroken base must not
# ------------------------------------------------------------------------------------------------

CONTROLS = {
    'G1': ('g1_no_consume', lambda c, r, cfgs: rule_transitions(c, r, cfgs, want=('G1',))),
    'G2': ('g2_backwards', lambda c, r, cfgs: rule_transitions(c, r, cfgs, want=('G2',))),
    'G4': ('g4_root_eoi', lambda c, r, cfgs: rule_graph(c, r, cfgs, want=('G4',))),
    'G5': ('g5_no_guard', lambda c, r, cfgs: rule_partial(c, r, cfgs)),
    'G6a': ('g6a_error_end', lambda c, r, cfgs: rule_error_action(c, r, cfgs)),
    'G9c': ('g9c_no_trivia', lambda c, r, cfgs: rule_action_dispatch(c, r, cfgs)),
    'G10': ('g10_record_ahead', lambda c, r, cfgs: rule_records(c, r, cfgs, want=('G10',))),
    'G11': ('g11_chunk_advance', lambda c, r, cfgs: rule_fast_loops(c, r, cfgs)),
    'G19': ('g8_sm_other_edge', lambda c, r, cfgs: rule_automata(c, r, cfgs, want=('G19',))),
    'G20': ('g20_graph_broken', lambda c, r, cfgs: rule_automata(c, r, cfgs, want=('G20',))),
}


def controls(ctx, rep, rids):
    import core
    crid = rep.rule('G-controls', 'positive controls: each generated-code rule fires on its hand-broken lexer in fixtures/gen and stays silent on the unbroken base lexers')
    for rid in rids:
        if rid in CONTROLS:
            name, run = CONTROLS[rid]
            probe = core.Report(rep.pid, rep.tier)
            run(ctx, probe, ['fx:' + name])
            fired = rid in probe.rules and bool(probe.rules[rid]['violations'])
            rep.inst(crid, '%s:%s' % (rid, name))
            rep.control(crid, '%s on fixtures/gen/%s.rs' % (rid, name), fired)
            quiet = core.Report(rep.pid, rep.tier)
            run(ctx, quiet, ['fx:base_tail', 'fx:base_sm'])
            if rid in quiet.rules and quiet.rules[rid]['violations']:
                rep.viol(crid, 'control-false-alarm:%s' % rid, 'rule %s fires on the unbroken base lexers: %s' % (rid, quiet.rules[rid]['violations'][0]['msg'][:160]))
        elif rid == 'G8':
            probe = core.Report(rep.pid, rep.tier)
            rule_backends(ctx, probe, ('fx:base_tail', 'fx:g8_sm_other_edge'))
            rep.inst(crid, 'G8a:g8_sm_other_edge')
            rep.control(crid, 'G8a on base_tail.rs vs g8_sm_other_edge.rs', bool(probe.rules['G8a']['violations']))
            probe = core.Report(rep.pid, rep.tier)
            rule_backends(ctx, probe, ('fx:base_tail', 'fx:g8b_reenter'))
            rep.inst(crid, 'G8b:g8b_reenter')
            rep.control(crid, 'G8b on g8b_reenter.rs', bool(probe.rules['G8b']['violations']))
            quiet = core.Report(rep.pid, rep.tier)
            rule_backends(ctx, quiet, ('fx:base_tail', 'fx:base_sm'))
            bad = quiet.rules['G8a']['violations'] + quiet.rules['G8b']['violations']
            if bad:
                rep.viol(crid, 'control-false-alarm:G8', 'the back end comparison fires on the unbroken base pair: %s' % bad[0]['msg'][:160])


# ------------------------------------------------------------------------------------------------
# G15: definitions that must be rejected
# ------------------------------------------------------------------------------------------------

def rule_must_reject(ctx, rep, cfgs, groups, floor):
    rid = rep.rule('G15', 'definitions that cannot be implemented faithfully are rejected: every corpus definition in rejects::{%s} expands to compile_error! diagnostics (an accepted one would be mis-compiled)' % ','.join(groups), floor=floor)
    for cfg in cfgs:
        seen = 0
        for d in ctx.gen(cfg):
            if d.label != 'corpus' or not d.module.startswith('rejects::'):
                continue
            g = d.module.split('::')[1]
            if g not in groups:
                continue
            seen += 1
            rep.inst(rid, '%s:%s:%s' % (cfg, d.module, d.self_ty), detail=dict(rejected=d.rejected))
            if not d.rejected:
                rep.viol(rid, 'accepted:%s:%s:%s' % (d.backend, d.module, d.self_ty), 'definition %s::%s must be rejected (%s) but the derive generates a lexer for it' % (d.module, d.self_ty, g.replace('_', ' ')), 'corpus/src/rejects.rs')
        if not seen:
            rep.anchor(rid, 'corpus rejects::{%s} under %s' % (','.join(groups), cfg), False)


def rule_expect_late(ctx, rep, cfgs):
    rid = rep.rule('G16', 'look-ahead is honoured: in the corpus definitions whose every pattern ends in a look-ahead assertion (lookaround::expect_late) no state records a match before the byte that confirms it has been read (all records are late)', floor=3)
    for cfg in cfgs:
        n = 0
        for d, m, sm in models(ctx, cfg):
            if d.label != 'corpus' or d.module != 'lookaround::expect_late':
                continue
            n += 1
            if d.rejected or m is None:
                rep.viol(rid, 'expect-late-unanalysable:%s:%s' % (d.backend, d.self_ty), 'definition %s is rejected or not analysable' % d.name, d.name)
                continue
            early = [k for k, s in sm.items() if s.record and s.record[1] == 'early']
            late = [k for k, s in sm.items() if s.record and s.record[1] == 'late']
            rep.inst(rid, '%s:%s' % (cfg, d.self_ty), detail=dict(early=len(early), late=len(late)))
            if early:
                rep.viol(rid, 'early-before-lookahead:%s:%s' % (d.backend, d.self_ty), '%s: state(s) %s record a match before the look-ahead byte has been read: a token is emitted although the assertion may fail (e.g. `let` accepted in `letx`)' % (d.name, ['state%d' % k for k in early[:4]]), d.name)
            if not late:
                rep.viol(rid, 'no-late-record:%s:%s' % (d.backend, d.self_ty), '%s has no late record at all' % d.name, d.name)
        if not n:
            rep.anchor(rid, 'corpus lookaround::expect_late under %s' % cfg, False)


# ------------------------------------------------------------------------------------------------
# G17: promptness — a decided item is not withheld
# ------------------------------------------------------------------------------------------------

def rule_promptness(ctx, rep, cfgs):
    rid = rep.rule('G17', 'promptness: a state that has a successor for every byte value (self loop included) and whose every successor, the end-of-input successor included, records the same leaf already determines that leaf; it must record it itself as an early match (otherwise a partial lexer withholds a decided item until one more byte arrives)', floor=500)
    for cfg, d, m, sm, name, s in each_state(ctx, cfgs):
        k = skey(d, m, name)
        rep.inst(rid, k)
        covered = set(s.edges) | set(s.loopset)
        if len(covered) != 256:
            continue
        succ = set(s.edges.values())
        if s.eoi_edge is not None:
            succ.add(s.eoi_edge)
        if s.loopset:
            succ.add(s.key)
        leaves = set()
        for t in succ:
            r = sm[t].record
            leaves.add(r[0] if r else None)
        if len(leaves) == 1 and None not in leaves:
            leaf = list(leaves)[0]
            if not (s.record and s.record == (leaf, 'early')):
                rep.viol(rid, 'withheld:%s' % k, 'state %s: every byte and the end of input lead to a state recording leaf %s, so the item is decided here, yet the state records %s: the early-accept optimisation missed it and a partial lexer withholds the item' % (name, leaf, s.record), d.name)
    g18 = rep.rule('G18', 'promptness (definitions whose matches do not depend on the next symbol, decided on the printed reference DFA): a state that records leaf L as an early match and has no self loop must not have pure sinks re-recording L as its only successors (such a successor records the same end and the same leaf, so the continuation decides nothing, yet its presence makes a partial lexer answer "need more input")', floor=500)
    import autlib
    la_cache = {}

    def la_free(d):
        """the definition's matches do not depend on the next symbol (decided on the reference DFA the derive printed);
        definitions with look-around may yield one byte later (property text), so G18 does not apply to them"""
        key = (d.backend, d.name)
        if key not in la_cache:
            v = False
            inv = getattr(d, 'inv', None)
            if inv is not None and inv.dfa_text:
                try:
                    v = autlib.lookahead_free(inv.dfa(), inv.leaves)
                except autlib.ParseError:
                    v = False
            la_cache[key] = v
        return la_cache[key]

    for cfg, d, m, sm, name, s in each_state(ctx, cfgs):
        k = skey(d, m, name)
        rep.inst(g18, k)
        if not s.record or s.record[1] != 'early' or s.loopset:
            continue
        if not la_free(d):
            continue
        succ = set(s.edges.values())
        if s.eoi_edge is not None:
            succ.add(s.eoi_edge)
        if not succ:
            continue
        leaf = s.record[0]

        def sink(t):
            x = sm[t]
            return not x.edges and not x.loopset and x.eoi_edge is None and x.record == (leaf, 'late')
        if all(sink(t) for t in succ):
            rep.viol(g18, 'redundant:%s' % k, 'state %s records leaf %s early, and all of its %d successor state(s) are sinks that only record %s again at the same end: the late accept of those sinks should have been removed; a partial lexer withholds the decided item' % (name, leaf, len(succ), leaf), d.name)


# ------------------------------------------------------------------------------------------------
# G19 / G20: translation validation against the artefacts the derive prints (debug feature)
#   G19  generated code  ==  logos graph          (validates the generator: fork / fast loop / leaf rendering)
#   G20  logos graph     ~   regex-automata DFA   (validates Graph::new: typing by priority, early/late, pruning, merging)
# ------------------------------------------------------------------------------------------------

def _leaf_index(name):
    m = re.search(r'(\d+)$', str(name))
    return int(m.group(1)) if m else None


def rule_automata(ctx, rep, cfgs, want=('G19', 'G20'), corpus_only=False):
    import autlib
    g19 = rep.rule('G19', 'generator validation: for every accepted definition the transition system extracted from the generated code (states, byte edges incl. fast-loop self edges, end-of-input edge, early/late record and its leaf, entry state) is identical, state by state, to the graph the derive printed in the same run', floor=60) if 'G19' in want else None
    g20 = rep.rule('G20', 'graph validation: for every accepted definition the product of the graph with the regex-automata DFA it was built from (reference; match states delayed by one transition, leaf = highest priority pattern of the match state) is explored from (start, root): on every reachable pair and every byte / end of input the graph holds the same last match as the reference, stops exactly where the reference can no longer reach a match, and never continues into a dead reference state', floor=60) if 'G20' in want else None
    for cfg in cfgs:
        for d, m, sm in models(ctx, cfg):
            if d.rejected or m is None:
                continue
            if corpus_only and d.label != 'corpus':
                continue
            k = '%s:%s' % (d.backend, dkey(d))
            inv = getattr(d, 'inv', None)
            for rid in (g19, g20):
                if rid is not None:
                    rep.inst(rid, k)
            if inv is None or not inv.codegen or inv.root is None:
                why = getattr(d, 'inv_error', None) or 'the debug stream of this invocation ends before code generation'
                for rid in (g19, g20):
                    if rid is not None:
                        rep.viol(rid, 'no-artefacts:%s' % k, 'cannot associate %s with the artefacts printed by the derive (%s): fail closed' % (d.name, why), d.name)
                continue
            try:
                graph = inv.graph()
                dfa = inv.dfa() if g20 is not None else None
            except autlib.ParseError as e:
                for rid in (g19, g20):
                    if rid is not None:
                        rep.viol(rid, 'artefact-syntax:%s' % k, 'the artefacts printed by the derive for %s cannot be parsed (%s): fail closed' % (d.name, e), d.name)
                continue
            if g19 is not None:
                _compare_code_graph(rep, g19, k, d, m, sm, graph, inv)
            if g20 is not None:
                stats, mism = autlib.compare_dfa_graph(dfa, inv.leaves, graph, inv.root)
                rep.analysed['product_states'] = rep.analysed.get('product_states', 0) + stats.get('product_states', 0)
                feat = rep.analysed.setdefault('reference_features', dict(definitions=0, with_lookahead=0, with_eoi_edges=0, with_early_and_late_state=0, multi_pattern_match_states=0))
                feat['definitions'] += 1
                feat['with_lookahead'] += 0 if stats.get('lookahead_free') else 1
                feat['with_eoi_edges'] += 1 if any(x['eoi'] is not None for x in graph.states.values()) else 0
                feat['with_early_and_late_state'] += 1 if any(x['early'] is not None and x['accept'] is not None for x in graph.states.values()) else 0
                feat['multi_pattern_match_states'] += 1 if any(len(v) > 1 for v in dfa.matches.values()) else 0
                for x in mism[:6]:
                    rep.viol(g20, 'graph-vs-dfa:%s:%s' % (x['kind'], k), '%s, after reading "%s": %s' % (d.name, autlib.fmt_path(x['path']), x['detail']), d.name)
    if g20 is not None and not corpus_only and not any(c.startswith('fx:') for c in cfgs):
        automata_floors(rep, g20)


def automata_floors(rep, rid):
    """the comparison is only meaningful if the corpus exercises the features it is about (fail closed)"""
    feat = rep.analysed.get('reference_features')
    if feat is None:
        return
    for key, floor in (('with_lookahead', 10), ('with_eoi_edges', 10), ('with_early_and_late_state', 2), ('multi_pattern_match_states', 10)):
        rep.anchor(rid, 'at least %d analysed definitions %s (found %d)' % (floor, key.replace('_', ' '), feat[key]), feat[key] >= floor)


def _compare_code_graph(rep, rid, k, d, m, sm, graph, inv):
    def bad(kind, msg):
        rep.viol(rid, 'code-vs-graph:%s:%s' % (kind, k), '%s: %s' % (d.name, msg), d.name)
    if set(sm) != set(graph.states):
        bad('states', 'generated states %s, graph states %s' % (sorted(set(sm) - set(graph.states))[:5], sorted(set(graph.states) - set(sm))[:5]))
        return
    if m.state_key(m.root) != inv.root:
        bad('root', 'generated code starts in %s, the graph root is state%d' % (m.root, inv.root))
    nleaves = len(inv.leaves or [])
    for key in sorted(sm):
        s = sm[key]
        g = graph.states[key]
        # record
        want = ('early', g['early']) if g['early'] is not None else (('late', g['accept']) if g['accept'] is not None else None)
        got = None
        if s.record is not None:
            got = (s.record[1], _leaf_index(s.record[0]))
        elif s.records or len(getattr(s, 'pre', ())) > 1:
            got = ('?', None)
        if want != got:
            bad('record:state%d' % key, 'state%d records %s in the generated code, the graph says %s' % (key, got, want))
        if got and got[1] is not None and got[1] >= nleaves:
            bad('leaf:state%d' % key, 'state%d records leaf %s but the definition has %d leaves' % (key, got[1], nleaves))
        # byte edges
        diff = []
        for b in range(256):
            ge = g['edges'][b]
            ce = key if b in s.loopset else s.edges.get(b)
            if ge != ce:
                diff.append((b, ge, ce))
        if diff:
            b, ge, ce = diff[0]
            bad('edges:state%d' % key, 'state%d: %d byte value(s) go elsewhere, e.g. byte 0x%02x: graph -> %s, generated code -> %s' % (key, len(diff), b, 'state%d' % ge if ge is not None else 'stop', 'state%d' % ce if ce is not None else 'stop'))
        if g['eoi'] != s.eoi_edge:
            bad('eoi:state%d' % key, 'state%d: end-of-input edge graph -> %s, generated code -> %s' % (key, g['eoi'], s.eoi_edge))


def rule_debug_neutral(ctx, rep, cfgs):
    """thorough tier: the `debug` feature, with which the artefacts are printed, does not change the generated code"""
    rid = rep.rule('G21', 'the debug feature only prints: every corpus definition expands to token-identical `fn lex` with and without it (so what G19/G20 validate is the code of an ordinary build)', floor=200)
    for cfg in cfgs:
        plain = {}
        for d in genlib.load_nodebug(ctx.hash, cfg):
            plain[(d.module, d.self_ty)] = d
        n = 0
        for d in ctx.gen(cfg):
            if d.label != 'corpus':
                continue
            n += 1
            k = '%s:%s' % (d.backend, dkey(d))
            rep.inst(rid, k)
            o = plain.get((d.module, d.self_ty))
            if o is None:
                rep.viol(rid, 'nodebug-missing:%s' % k, '%s has no counterpart in the build without the debug feature' % d.name, d.name)
            elif o.body_tokens != d.body_tokens or o.rejected != d.rejected:
                rep.viol(rid, 'debug-changes-code:%s' % k, '%s: the generated code differs between a build with and without the debug feature' % d.name, d.name)
        if not n:
            rep.anchor(rid, 'corpus definitions under %s' % cfg, False)
