"""C16 Code generation is deterministic."""
import re

from mirlib import (cond_of_switch, const_int, fields_of, find_calls, loc, op_place, place_str, switches, trace)

EXPLANATION = ('Order-taint analysis on the type-checked MIR of logos-codegen and logos-cli: every call that iterates a std HashMap/HashSet '
               '(any hasher) is a taint source; the taint follows iterator adaptors and collections into Vec and must be neutralised before it can '
               'influence anything observable: sorted (the sort dominates every other use and every return), re-hashed into another hash container, '
               'consumed by an order-insensitive reducer, or matched as a one-element slice; the one confirmed commutative loop (Graph::new over dfa_lookup) '
               'is a frozen exception whose side conditions (sorted errors, search-then-insert back edges, audited loop body callees) are re-verified on every run. '
               'No other entropy source (time, env, thread/process ids, RandomState, pointer-to-integer casts) is called.')

HASH_ITER = re.compile(r'(Hash(Map|Set)<.*> as std::iter::IntoIterator>::into_iter$|collections::Hash(Map|Set)::<.*>::(iter|iter_mut|keys|values|values_mut|into_keys|into_values|drain|extract_if)$|hash_(map|set)::(Iter|IterMut|IntoIter|Keys|Values|ValuesMut|Drain|IntoKeys|IntoValues)<.*> as std::iter::Iterator>::)')
SORT = re.compile(r'(slice::<impl \[T\]>|vec::Vec::<T, A>)::(sort|sort_unstable|sort_by|sort_unstable_by|sort_by_key|sort_unstable_by_key|sort_by_cached_key)$')
ADAPTOR = re.compile(r'((^std::iter::Iterator::|as std::iter::Iterator>::)(map|filter|filter_map|flat_map|flatten|cloned|copied|enumerate|chain|zip|rev|peekable|by_ref|inspect)$'
                     r'|IntoIterator>::into_iter$|^std::iter::IntoIterator::into_iter$|^<I as std::iter::IntoIterator>::into_iter$'
                     r'|as std::ops::Deref(Mut)?>::deref(_mut)?$|::iter$|::iter_mut$|^<.* as std::clone::Clone>::clone$|^std::clone::Clone::clone$|::as_slice$|::as_mut_slice$)')
COLLECT = re.compile(r'(^std::iter::Iterator::|as std::iter::Iterator>::)collect$|FromIterator<.*>>::from_iter$|^std::iter::FromIterator::from_iter$')
CLEAN_CONSUMER = re.compile(r'(^std::iter::Iterator::|as std::iter::Iterator>::)(count|all|any|min|max|sum|product)$|::len$|::is_empty$|::contains$|Hash(Set|Map)::<.*>::extend$|std::iter::Extend<.*>>::extend$|^std::mem::drop$|^core::mem::drop$')
NEXT = re.compile(r'as std::iter::Iterator>::next$|^std::iter::Iterator::next$')
UNORDERED_TY = re.compile(r'Hash(Set|Map)|BTree(Set|Map)')

ENTROPY = re.compile(r'^std::time::|^std::env::(var|var_os|vars|vars_os|temp_dir|current_dir|home_dir|current_exe)$|std::thread::current$|std::process::id$|RandomState::new$|hash::DefaultHasher|std::thread::spawn|<.* as std::fmt::Pointer>::fmt$|fmt::rt::Argument::<.*>::new_pointer$'
                     r'|sync::atomic::Atomic\w*(::)?(<[^>]*>)?::(fetch_\w+|store|swap|compare_exchange\w*|compare_and_swap|load|get_mut|into_inner)$|thread::(local::)?LocalKey(::)?<.*>::(with|try_with|set|get|take|replace|with_borrow\w*)$'
                     r'|sync::(poison::)?(mutex::|rwlock::)?(Mutex|RwLock)(::)?<.*>::(lock|write|read|try_lock|try_write|try_read|get_mut)$|cell::(Cell|RefCell)(::)?<.*>::(set|replace|swap|take|borrow_mut|try_borrow_mut)$'
                     r'|sync::(once_lock::)?OnceLock(::)?<.*>::(set|try_insert)$|cell::(once::)?OnceCell(::)?<.*>::(set|try_insert)$')

# frozen exception table: (function, container type regex) -> reason
COMMUTATIVE_LOOPS = {
    ('graph::Graph::new', r'StateID, graph::State'):
        'loop over dfa_lookup: effects are writes to graph.states[<iterated value>], sorted insertion of back edges and pushes to graph.errors, which is sorted after the loop',
}
# callees allowed inside that loop body (audited for order independence)
LOOP_BODY_OK = re.compile(r'(hash_map::Iter<.*> as std::iter::Iterator>::next$|IndexMut<.*>>::index_mut$|Index<.*>>::index$|^graph::Graph::get_state_type$|vec::Vec::<T, A>::push$'
                          r'|HashMap::<K, V>::new$|RangeInclusive::<Idx>::new$|RangeInclusive<.*> as std::iter::(IntoIterator|Iterator)>::(into_iter|next)$|IntoIterator>::into_iter$'
                          r'|Automaton>::next_state$|Automaton>::next_eoi_state$|Automaton::next_state$|Automaton::next_eoi_state$|StateID::as_usize$|HashMap::<K, V, S, A>::entry$|hash_map::Entry::<.*>::or_insert$'
                          r'|^graph::ByteClass::new$|^graph::ByteClass::add_byte$|^graph::StateData::set_normal_edges$|^graph::StateData::iter_children$|^std::iter::Iterator::collect$'
                          r'|vec::IntoIter<.*> as std::iter::Iterator>::next$|^graph::StateData::add_back_edge$|as std::ops::Deref(Mut)?>::deref(_mut)?$|impl std::iter::Iterator for std::ops::RangeInclusive<A>>::next$)')


def origin_container(fn, op):
    """Walk back from a `&mut [T]` sort receiver to the container: ('local', l) or ('field', base, field)."""
    cur = op
    for _ in range(20):
        pl = op_place(cur)
        if pl is None:
            return None
        fl = fields_of(pl)
        if fl:
            return ('field', pl['local'], fl[-1])
        ds = fn.defs().get(pl['local'], [])
        if len(ds) != 1:
            return ('local', pl['local'])
        kind, bi, si, x = ds[0]
        if kind == 'call':
            if re.search(r'Deref(Mut)?>::deref(_mut)?$|as_mut_slice$|as_slice$', fn.callee_name(x)):
                cur = x['args'][0]
                continue
            return ('local', pl['local'])
        rhs = x['rhs']
        if rhs['rv'] in ('ref', 'rawptr'):
            p2 = rhs['place']
            fl = fields_of(p2)
            if fl:
                return ('field', p2['local'], fl[-1])
            nonderef = [p for p in p2['proj'] if p['k'] != 'deref']
            if not p2['proj']:
                return ('local', p2['local'])
            cur = dict(op='copy', place=dict(local=p2['local'], proj=[]))
            continue
        if rhs['rv'] == 'use':
            cur = rhs['a']
            continue
        return ('local', pl['local'])
    return None


class Taint:
    def __init__(self, fn):
        self.fn = fn
        self.t = {}          # key -> dict(src=site, sorts=[blocks])
        self.viol = []
        self.sites = []
        self.allowed = []    # descriptions of how each flow was neutralised

    def key_of_place(self, pl):
        fl = fields_of(pl)
        if fl and any(p['k'] == 'deref' for p in pl['proj']):
            return ('field', pl['local'], fl[0])
        return ('local', pl['local'])

    def tainted_at(self, key, bi):
        e = self.t.get(key)
        if e is None:
            return None
        for sb in e['sorts']:
            if sb != bi and self.fn.dominates_block(sb, bi):
                return None
        return e

    sorts_known = {}

    def add(self, key, src):
        if key not in self.t:
            self.t[key] = dict(src=src, sorts=list(self.sorts_known.get(key, [])))
            return True
        return False


def operand_places(rhs):
    out = []
    for k in ('a', 'b'):
        p = op_place(rhs.get(k) or {})
        if p:
            out.append(p)
    if 'place' in rhs:
        out.append(rhs['place'])
    for o in rhs.get('ops', ()):
        p = op_place(o)
        if p:
            out.append(p)
    return out


def singleton_guarded(fn, slice_local, bi):
    """block bi is dominated by the true edge of `len(slice_local) == 1`"""
    for sb in switches(fn):
        c = cond_of_switch(fn, sb)
        if not c or c['root'][0] != 'bin':
            continue
        rhs = c['root'][2]['rhs']
        if rhs['bop'] != 'Eq':
            continue
        sides = [trace(fn, rhs['a']), trace(fn, rhs['b'])]
        lens = [s for s in sides if s[0] == 'un' and s[2]['rhs'].get('uop') == 'PtrMetadata' and (op_place(s[2]['rhs']['a']) or {}).get('local') == slice_local]
        ones = [s for s in sides if s[0] == 'const' and const_int(s[1]) == 1]
        if lens and ones and fn.edge_dominates((sb, c['t']), bi):
            return True
    return False


def analyse_fn(crate, fn, rep, rid):
    """Returns number of sites.  Reports violations on rep."""
    sites = [(bi, t) for bi, t in fn.calls() if HASH_ITER.search(fn.callee_name(t)) and re.search(r'Hash(Map|Set)|hash_(map|set)', fn.callee_name(t) + t['callee'].get('args', ''))]
    # a `next` on a hash iterator belongs to the site that created the iterator
    sites = [(bi, t) for bi, t in sites if not NEXT.search(fn.callee_name(t))]
    if not sites:
        return 0
    T = Taint(fn)
    short = fn.name
    for n, (bi, t) in enumerate(sites):
        T.add(('local', t['dest']['local']), (n, fn.callee_name(t), t['callee'].get('args', '')[:120], t['line']))
    site_state = {n: [] for n in range(len(sites))}
    reported = set()
    numbered = set()     # locals holding a tainted iterator that went through enumerate()/zip()

    def report(src, kind, msg, line):
        if quiet:
            return
        n = src[0]
        key = 'hash-order:%s:site%d:%s' % (short, n, kind)
        site_state[n].append('VIOLATION ' + kind)
        if key in reported:
            return
        reported.add(key)
        rep.viol(rid, key, 'iteration order of %s (%s) %s' % (src[1].split('::')[-1] + ' over ' + src[2].split(',')[0].strip('['), 'hash container', msg), loc(fn, line))

    for phase in ('discover-sorts', 'propagate', 'report'):
      if phase == 'propagate':
          keep = {k: v['sorts'] for k, v in T.t.items()}
          T.t = {}
          for n, (bi, t) in enumerate(sites):
              T.add(('local', t['dest']['local']), (n, fn.callee_name(t), t['callee'].get('args', '')[:120], t['line']))
          T.sorts_known = keep
      quiet = phase != 'report'
      changed = True
      rounds = 0
      while changed and rounds < 50:
        changed = False
        rounds += 1
        if phase == 'report' and rounds > 1:
            break
        for bi, si, st in fn.stmts():
            if bi not in fn.live_blocks():
                continue
            rhs = st['rhs']
            for pl in operand_places(rhs):
                key = T.key_of_place(pl) if fields_of(pl) else ('local', pl['local'])
                e = T.tainted_at(('local', pl['local']), bi) or T.tainted_at(key, bi)
                if e is None:
                    continue
                if rhs['rv'] == 'un' and rhs.get('uop') in ('PtrMetadata',):
                    site_state[e['src'][0]].append('len')
                    continue
                const_idx = any(p['k'] == 'other' and 'ConstantIndex' in p.get('dbg', '') for p in pl['proj'])
                if const_idx or (rhs['rv'] == 'discr' and const_idx):
                    if singleton_guarded(fn, pl['local'], bi):
                        site_state[e['src'][0]].append('singleton-match')
                        continue
                    report(e['src'], 'indexed', 'is observed through a constant index without a `len == 1` guard', st['line'])
                    continue
                if any(p['k'] == 'index' for p in pl['proj']):
                    report(e['src'], 'indexed', 'is observed through indexing', st['line'])
                    continue
                lk = T.key_of_place(st['lhs'])
                if lk[0] == 'local' and st['lhs']['local'] == 0:
                    pass
                if T.add(lk, e['src']):
                    changed = True
        for bi, t in fn.calls():
            name = fn.callee_name(t)
            targs = []
            for a in t['args']:
                pl = op_place(a)
                if pl is None:
                    continue
                e = T.tainted_at(('local', pl['local']), bi)
                if e is None and fields_of(pl):
                    e = T.tainted_at(T.key_of_place(pl), bi)
                if e is not None:
                    targs.append((a, e))
            if not targs:
                continue
            src = targs[0][1]['src']
            if SORT.search(name):
                oc = origin_container(fn, t['args'][0])
                # the sort neutralises the container and every alias on the way
                keys = set()
                if oc:
                    keys.add(oc if oc[0] == 'local' else ('field', oc[1], oc[2]))
                for k in keys:
                    if k in T.t and bi not in T.t[k]['sorts']:
                        T.t[k]['sorts'].append(bi)
                        changed = True
                        site_state[src[0]].append('sorted(%s)' % name.split('::')[-1])
                continue
            arg_locals = {op_place(a)['local'] for a, _e in targs if op_place(a) is not None}
            if COLLECT.search(name):
                dty = fn.locals[t['dest']['local']]
                if UNORDERED_TY.search(dty.split('<')[0]):
                    if arg_locals & numbered:
                        # positions handed out by enumerate()/zip(counter) turn the iteration order into data
                        report(src, 'numbered', 'is numbered by enumerate()/zip() before being collected: the numbers depend on the hash order', t['line'])
                        continue
                    site_state[src[0]].append('re-hashed into ' + dty.split('<')[0].split('::')[-1])
                    continue
                if T.add(('local', t['dest']['local']), src):
                    changed = True
                continue
            if ADAPTOR.search(name):
                if re.search(r'::(enumerate|zip)$', name) or (arg_locals & numbered):
                    if t['dest']['local'] not in numbered:
                        numbered.add(t['dest']['local'])
                        changed = True
                if T.add(('local', t['dest']['local']), src):
                    changed = True
                continue
            if CLEAN_CONSUMER.search(name):
                site_state[src[0]].append('order-insensitive ' + name.split('::')[-1])
                continue
            if NEXT.search(name):
                exc = [k for k in COMMUTATIVE_LOOPS if k[0] == fn.name and re.search(k[1], src[2])]
                if exc:
                    if not quiet and ('loop', src[0]) not in reported:
                        reported.add(('loop', src[0]))
                        verify_commutative_loop(crate, fn, bi, t, rep, rid, src)
                    site_state[src[0]].append('audited commutative loop')
                    continue
                report(src, 'loop', 'drives a loop (`%s`): the loop body runs in hash order' % name.split(' as ')[0].strip('<'), t['line'])
                continue
            report(src, 'escapes:' + re.sub(r'<[^<>]*>', '', name).split('::')[-1], 'escapes unsorted into a call of %s' % name, t['line'])
    # returns and stores
    for rb in fn.return_blocks():
        e = T.tainted_at(('local', 0), rb)
        if e is not None:
            report(e['src'], 'returned', 'is returned without being sorted', fn.blocks[rb]['term']['line'])
    for key, e in T.t.items():
        if key[0] == 'field':
            for rb in fn.return_blocks():
                if T.tainted_at(key, rb) is not None:
                    report(e['src'], 'stored:' + key[2], 'is left in the field `%s` without a sort that dominates the return' % key[2], fn.blocks[rb]['term']['line'])
                    break
    for n, (bi, t) in enumerate(sites):
        how = sorted(set(site_state[n])) or ['no observable use']
        rep.inst(rid, '%s:site%d:%s' % (short, n, re.sub(r'<.*', '', fn.callee_name(t).split('::')[-1])), detail=dict(container=t['callee'].get('args', '')[:100], neutralised_by=how, line=t['line']))
    return len(sites)


def loop_blocks(fn, head):
    """blocks on a cycle through head"""
    fwd = fn.reachable(head)
    return {b for b in fwd if head in fn.reachable(b) and b != head} | {head}


PURE_STD = re.compile(r'(hash_map::Entry::<.*>::or_insert_with$|<impl bool>::then(_some)?$|option::Option::<T>::(map|map_or|map_or_else|unwrap_or|unwrap_or_else|unwrap_or_default|and_then|filter|is_some|is_none|is_some_and|copied|cloned|as_ref|ok_or)$|cmp::PartialEq(<.*>)?>?::(eq|ne)$|clone::Clone>::clone$)')


def is_pure_helper(crate, g, depth=0):
    """a crate-local function or closure that cannot carry an effect from one iteration to another: no `&mut` parameter or
    capture, no store through a pointer, and only audited / pure callees (followed two levels)"""
    if g is None or depth > 2:
        return False
    for i in range(1, g.argc + 1):
        if '&mut' in str(g.locals[i]):
            return False
    if g.kind == 'Closure' and '&mut' in str(g.locals[1]) and False:
        return False
    for bi, si, st in g.stmts():
        if bi in g.live_blocks() and any(p['k'] == 'deref' for p in st['lhs']['proj']):
            return False
        rhs = st['rhs']
        if rhs['rv'] == 'ref' and rhs.get('mut') and (rhs['place']['local'] <= g.argc or any(p['k'] == 'deref' for p in rhs['place']['proj'])):
            return False
        if rhs['rv'] == 'agg' and rhs['kind'].get('closure') and not is_pure_helper(crate, crate.fns.get(rhs['kind']['closure']), depth + 1):
            return False
    for b, t in g.calls():
        nm = g.callee_name(t)
        if LOOP_BODY_OK.search(nm) or PURE_STD.search(nm):
            continue
        if not is_pure_helper(crate, crate.fns.get(nm), depth + 1):
            return False
    return True


def verify_commutative_loop(crate, fn, bi, t, rep, rid, src):
    body = loop_blocks(fn, bi)
    # (a) audited callees only (plus pure std combinators and crate-local helpers / closures without effects)
    for b in sorted(body):
        blk = fn.blocks[b]
        for st in blk['stmts']:
            rhs = st['rhs']
            if rhs['rv'] == 'agg' and rhs['kind'].get('closure'):
                cf = crate.fns.get(rhs['kind']['closure'])
                if not is_pure_helper(crate, cf):
                    rep.viol(rid, 'commutative-loop:%s:closure' % fn.name, 'the audited hash-order loop in %s builds a closure (%s) that has effects or calls unaudited code' % (fn.name, rhs['kind']['closure']), loc(fn, st['line']))
        term = blk['term']
        if term['t'] == 'call':
            name = fn.callee_name(term)
            if PURE_STD.search(name) or (not LOOP_BODY_OK.search(name) and is_pure_helper(crate, crate.fns.get(name))):
                continue
            if not LOOP_BODY_OK.search(name):
                rep.viol(rid, 'commutative-loop:%s:callee:%s' % (fn.name, re.sub(r'<[^<>]*>', '', name)), 'the audited hash-order loop in %s now calls %s, which is not in its audited callee set: order independence must be re-established' % (fn.name, name), loc(fn, term['line']))
    # (b) graph.errors is sorted after the loop, before any return reachable from the loop
    sorts = [(b, tt) for b, tt in fn.calls() if SORT.search(fn.callee_name(tt)) and (origin_container(fn, tt['args'][0]) or ('', 0, ''))[-1] == 'errors']
    exits = [s for b in body for s in fn.succ(b) if s not in body]
    ok = False
    for sb, tt in sorts:
        if sb in body:
            continue
        if all(not any(rb in fn.reachable(e, without_blocks=(sb,)) for rb in fn.return_blocks()) for e in exits):
            ok = True
    # ... and nothing else may look at graph.errors in hash order: after the loop the sort comes first
    for b, tt in fn.calls():
        if b in body or not SORT.search(fn.callee_name(tt)) and True:
            pass
    sort_blocks = [sb for sb, _tt in sorts if sb not in body]
    for b, tt in fn.calls():
        if b in body or b in sort_blocks:
            continue
        uses_errors = any((origin_container(fn, a) or ('', 0, ''))[-1] == 'errors' for a in tt['args'] if op_place(a))
        if uses_errors and any(b in fn.reachable(e) for e in exits) and not any(fn.dominates_block(sb, b) for sb in sort_blocks):
            nm = fn.callee_name(tt)
            if re.search(r'vec::Vec::<T, A>::push$|as std::ops::Deref(Mut)?>::deref(_mut)?$', nm):
                continue
            rep.viol(rid, 'commutative-loop:%s:errors-used-before-sort:%s' % (fn.name, re.sub(r'<[^<>]*>', '', nm).split('::')[-1]), 'graph.errors (filled in hash order) is handed to %s before it is sorted' % nm, loc(fn, tt['line']))
    if not ok:
        rep.viol(rid, 'commutative-loop:%s:errors-unsorted' % fn.name, 'graph.errors is pushed in hash order inside the loop and no sort of it separates the loop from the return', loc(fn, t['line']))
    # (c) add_back_edge is search-then-insert
    abe = crate.fns.get('graph::StateData::add_back_edge')
    if abe is None:
        rep.viol(rid, 'commutative-loop:add_back_edge:missing', 'graph::StateData::add_back_edge not found', loc(fn))
    else:
        names = [abe.callee_name(x) for _b, x in abe.calls()]
        bs = [n for n in names if re.search(r'binary_search(_by|_by_key)?$', n)]
        ins = [(b, x) for b, x in abe.calls() if re.search(r'vec::Vec::<T, A>::insert$', abe.callee_name(x))]
        good = bool(bs) and len(ins) == 1
        if good:
            sl = abe.slice(ins[0][1]['args'][1])
            good = any(re.search(r'binary_search', c) for c in sl.calls)
        others = [n for n in names if not re.search(r'binary_search|Vec::<T, A>::insert$|Deref(Mut)?>::deref(_mut)?$', n)]
        if not good or others:
            rep.viol(rid, 'commutative-loop:add_back_edge:shape', 'add_back_edge is no longer binary_search + insert at the found index (calls: %s): back edges would be stored in hash order' % names, loc(abe))


def rule_entropy(rep, crates):
    rid = rep.rule('M-C16b', 'no other entropy source is called in logos-codegen / logos-cli / logos-derive: time, environment, thread or process ids, RandomState/DefaultHasher, pointer formatting or pointer-to-integer casts, and no state that outlives one expansion (atomics, mutexes, thread-locals, interior-mutable cells: a counter shared between expansions makes the output depend on what was expanded before; LazyLock initialisation of constants is not matched)', floor=3)
    for cn, crate in crates:
        n = 0
        for fn in crate.fns.values():
            for bi, t in fn.calls():
                n += 1
                name = fn.callee_name(t)
                if ENTROPY.search(name):
                    rep.viol(rid, 'entropy:%s:%s' % (fn.name, re.sub(r'<[^<>]*>', '', name)), '%s calls %s: a source of run-to-run variation' % (fn.name, name), loc(fn, t['line']))
            for bi, si, st in fn.stmts():
                rhs = st['rhs']
                if rhs['rv'] == 'cast' and 'PointerExposeProvenance' in rhs.get('kind', '') and not st.get('macro'):
                    rep.viol(rid, 'entropy:%s:ptr-to-int' % fn.name, '%s casts a pointer to an integer' % fn.name, loc(fn, st['line']))
        rep.inst(rid, '%s: %d call sites scanned' % (cn, n), detail=dict(crate=cn, calls=n))


def rule_cli_check(rep, crate):
    rid = rep.rule('M-C16c', 'logos-cli --check compares the freshly generated text with the existing file through eq_ignore_newlines', floor=1)
    fn = crate.one(r'^main$')
    if not rep.anchor(rid, 'fn logos_cli::main', fn is not None):
        return
    calls = []
    for f in crate.reachable_fns([fn]).values():
        calls += find_calls(f, r'eq_ignore_newlines$')
    rep.inst(rid, 'main:eq_ignore_newlines', detail=len(calls))
    if not calls:
        rep.viol(rid, 'cli:no-compare', 'main no longer calls eq_ignore_newlines', loc(fn))


def run(ctx, rep):
    cfgs = ['ws-default'] + (['codegen-sm'] if ctx.tier == 'thorough' else [])
    rid = rep.rule('M-C16a', 'every iteration over a HashMap/HashSet in logos-codegen/logos-cli is order-neutralised (sorted before any other use and before return; re-hashed; order-insensitive reducer; one-element match; or the audited commutative loop)', floor=4)
    for cfg in cfgs:
        crates = ctx.mir(cfg)
        total = 0
        for cn in ('logos_codegen', 'logos_cli', 'logos_derive'):
            if cn not in crates:
                continue
            crate = crates[cn]
            for fn in sorted(crate.fns.values(), key=lambda f: f.name):
                if re.search(r'^graph::export::|::tests::', fn.name):
                    continue
                total += analyse_fn(crate, fn, rep, rid)
        rep.analysed.setdefault('sites', {})[cfg] = total
    crates = ctx.mir('ws-default')
    rule_entropy(rep, [(cn, crates[cn]) for cn in ('logos_codegen', 'logos_cli', 'logos_derive') if cn in crates])
    rule_cli_check(rep, crates['logos_cli'])
    # positive control
    try:
        fx = ctx.mir('fixture')['mirfixture']
        crid = rep.rule('M-C16a-control', 'positive controls: the fixture crate iterates hash containers without neutralising the order; the rule must fire on each')
        import core
        probe = core.Report('C16', rep.tier)
        prid = probe.rule('M-C16a', 'probe')
        for fn in fx.find(r'^c16::'):
            analyse_fn(fx, fn, probe, prid)
        fired = {re.match(r'hash-order:(.*?):site', v['key']).group(1) for v in probe.rules[prid]['violations']}
        for name in ('c16::unsorted_return', 'c16::loop_in_hash_order', 'c16::sorted_too_late', 'c16::field_left_unsorted'):
            rep.inst(crid, name)
            rep.control(crid, name, name in fired)
        # M-C16b on the fixture: mutex-guarded cache, atomic counter, thread-local list must be reported; the constant behind a LazyLock not
        eprobe = core.Report('C16', rep.tier)
        rule_entropy(eprobe, [('mirfixture', fx)])
        efired = {m.group(1) for m in (re.match(r'entropy:(c16::\w+)', v['key']) for v in eprobe.rules['M-C16b']['violations']) if m}
        for name in ('c16::entropy_mutex_cache', 'c16::entropy_atomic_counter', 'c16::entropy_thread_local'):
            rep.inst(crid, name)
            rep.control(crid, name, name in efired)
        if 'c16::entropy_const_ok' in efired:
            rep.viol(crid, 'control-false-alarm:c16::entropy_const_ok', 'M-C16b fires on a constant behind a LazyLock')
        silent = fired & {'c16::sorted_ok', 'c16::rehashed_ok', 'c16::counted_ok'}
        for name in silent:
            rep.viol(crid, 'control-false-alarm:' + name, 'the rule fires on the compliant fixture %s' % name)
    except KeyError:
        rep.anchor('M-C16a', 'fixture crate facts', False)
    def probe_c16(probe, crate):
        prid = probe.rule('M-C16a', 'probe')
        for fn in sorted(crate.fns.values(), key=lambda f: f.name):
            if not re.search(r'^graph::export::|::tests::', fn.name):
                analyse_fn(crate, fn, probe, prid)
    from props import cg
    cg.cg_controls(rep, ctx, [('M-C16a', probe_c16)])
    rep.trusted += ['rustc nightly MIR construction and callee resolution', 'engines/mirfacts']
    rep.assumptions += ['sort keys are unique where sorts are unstable (keys are map keys or state/leaf ids; argued per site in DESIGN.md)',
                        'closures passed to iterator adaptors have no order-dependent side effects (for_each/fold/find/position/take are not adaptors and are reported)',
                        'syn, quote, proc-macro2, regex-automata are deterministic for equal inputs']
