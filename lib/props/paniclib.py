"""Enumeration of panic-capable constructs reachable from logos_codegen::generate."""
import re

PANIC_CALLS = re.compile(
    r'(Option::<T>::(unwrap|expect)$|Result::<T, E>::(unwrap|expect|unwrap_err|expect_err)$|^core::panicking::|^std::rt::begin_panic|^std::rt::panic'
    r'|Index<.*>>::index$|IndexMut<.*>>::index_mut$|impl std::ops::Index(Mut)?<.*> for .*>::index(_mut)?$'
    r'|Vec::<T, A>::(insert|remove|swap_remove|split_off|drain|truncate_front)$|VecDeque::<T, A>::(insert|remove)$'
    r'|slice::<impl \[T\]>::(chunks|windows|split_at|split_at_mut|copy_from_slice|clone_from_slice|chunks_exact|rotate_left|rotate_right|swap)$'
    r'|str::<impl str>::(split_at|split_at_mut)$|String::(insert|insert_str|remove|drain|replace_range|split_off)$'
    r'|proc_macro2::Ident::new$|proc_macro2::Ident::new_raw$|syn::Lifetime::new$|syn::Ident::new$|parse_quote::parse$|proc_macro2::Literal::.*_(suffixed|unsuffixed)$'
    r'|RefCell<T>::(borrow|borrow_mut)$|unwrap_unchecked$|LazyLock<T, F> as std::ops::Deref>::deref$|LazyLock::<T, F>::force$'
    r'|as std::ops::(Add|Sub|Mul|Div|Rem|Shl|Shr|Neg)(<.*>)?>::(add|sub|mul|div|rem|shl|shr|neg)$|as std::ops::(AddAssign|SubAssign|MulAssign|DivAssign|RemAssign|ShlAssign|ShrAssign)(<.*>)?>::\w+_assign$'
    r'|num::<impl \w+>::(pow|abs|div_euclid|rem_euclid|next_power_of_two|strict_\w+)$|iter::Iterator::(sum|product)$|Iterator>::(sum|product)$|Iterator::step_by$|Iterator>::step_by$'
    r'|char::from_u32_unchecked|from_utf8_unchecked|std::process::(exit|abort)$|std::thread::|todo|unimplemented)')
IGNORED_ASSERTS = ('MisalignedPointerDereference', 'NullPointerDereference', 'InvalidEnumConstruction')
EXCLUDE_FNS = [r'^graph::export', r'^generate_graphs', r'::tests::']


def clean(name):
    """drop generic argument lists (`Vec<T, A>` -> `Vec`, `::<'a>` -> ``) but keep `<T as Trait>` qualifiers"""
    out = []
    i = 0
    n = len(name)
    while i < n:
        c = name[i]
        if c == '<' and out and (out[-1].isalnum() or out[-1] in '_:'):
            depth = 0
            while i < n:
                if name[i] == '<':
                    depth += 1
                elif name[i] == '>' and name[i - 1] != '-':
                    depth -= 1
                    if depth == 0:
                        break
                i += 1
            i += 1
            while out and out[-1] == ':':
                out.pop()
            continue
        out.append(c)
        i += 1
    return ''.join(out)


def _is_range_full(f, op):
    from mirlib import trace
    r = trace(f, op)
    return r[0] == 'agg' and str(r[2]['rhs']['kind'].get('adt', '')).endswith('ops::RangeFull')


MUTATORS = re.compile(r'::(push|push_back|push_front|insert|remove|swap_remove|pop|pop_back|pop_front|clear|truncate|retain|retain_mut|drain|dedup\w*|split_off|append|extend|extend_from_slice|resize\w*|sort\w*|reverse|rotate_\w+|swap)$')


def _index_from_position(f, t):
    """`v[i]` where i is the Some payload of `v.iter().position(..)` / `rposition` over the same container (same field
    of the same root) and nothing that changes the container's length or order is called in between: in bounds by
    construction, not a panic site."""
    from mirlib import trace, trace_place
    r = trace(f, t['args'][1])
    if r[0] != 'place' or not any(p['k'] == 'downcast' and str(p.get('variant', p.get('name', ''))).endswith('Some') for p in r[1]['proj']):
        return False
    src = trace(f, dict(local=r[1]['local'], proj=[]))
    if src[0] != 'call' or not re.search(r'Iterator>?::r?position$', f.callee_name(src[2])):
        return False
    pos_bb = src[1]
    cont = trace_place(f, t['args'][0])
    if cont is None or not cont[1]:
        return False
    recv = f.slice(src[2]['args'][0])
    same = any(fl and tuple(fl)[:len(cont[1])] == tuple(cont[1]) for _l, fl in recv.fields)
    if not same:
        return False
    idx_bb = [bi for bi, tt in f.calls() if tt is t]
    if not idx_bb or not f.dominates_block(pos_bb, idx_bb[0]):
        return False
    after = f.reachable(pos_bb)
    for bi, tt in f.calls():
        if bi in after and bi != pos_bb and idx_bb[0] in f.reachable(bi) and MUTATORS.search(f.callee_name(tt)) and tt['args']:
            c2 = trace_place(f, tt['args'][0])
            if c2 is not None and c2[1] and tuple(c2[1])[:len(cont[1])] == tuple(cont[1]):
                return False
    return True


def sites(crate, roots):
    """list of (fn, kind, what, line)"""
    # formatting impls are called through the function pointers inside fmt::Arguments (format!, to_string, write!), which
    # the call graph cannot follow: every local Display/Debug impl is taken to be reachable (diagnostics print patterns,
    # leaves and graph errors; the derive's `debug` feature prints the graph)
    roots = list(roots) + [f for f in crate.fns.values() if f.impl_trait and re.search(r'fmt::(Display|Debug)>', str(f.impl_trait))]
    reach = crate.reachable_fns(roots, exclude=EXCLUDE_FNS)
    out = []
    for n, f in sorted(reach.items()):
        for bi, t in f.calls():
            nm = f.callee_name(t)
            if PANIC_CALLS.search(nm):
                # `v[..]` (indexing with RangeFull) cannot fail: the whole slice
                if re.search(r'Index(Mut)?<.*>>::index(_mut)?$', nm) and len(t['args']) == 2 and _is_range_full(f, t['args'][1]):
                    continue
                if re.search(r'Index(Mut)?<.*>>::index(_mut)?$', nm) and len(t['args']) == 2 and _index_from_position(f, t):
                    continue
                out.append((f, 'call', clean(nm), t['line']))
        for bi in sorted(f.live_blocks()):
            t = f.blocks[bi]['term']
            if t['t'] == 'assert':
                k = t['msg'].split('(')[0].split(' ')[0].strip()
                if k in IGNORED_ASSERTS:
                    continue
                if k == 'Overflow':
                    m = re.match(r'Overflow\((\w+)', t['msg'])
                    k = 'Overflow:' + (m.group(1) if m else '?')
                out.append((f, 'assert', k, t['line']))
    return reach, out
