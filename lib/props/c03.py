"""C03 Lexing terminates, makes progress and tiles the input."""
from props import cg, gen, rt

ENGINE = 'genscan+mirfacts'
EXPLANATION = ('Structural termination/progress argument checked on every generated lexer of the corpus (both code generators): every transition consumes exactly one position (G1), end-of-input edges '
               'have depth <= 1 (G3), fast loops advance and stop at the byte that ends them (G11), the root never records, returns None at end of input with nothing consumed and has no late-recording '
               'successor (G4), a state records at most once with end in {offset, offset-1} (G10), Skip restarts at the root at the end of the item (G9c). On MIR, for every definition: token_start is '
               'written only by constructors/morph/clone/next/trivia (= token_end), next() resumes at the previous end, and Graph::new builds states only on the false edge of dfa.has_empty() while the '
               'true edge records EmptyMatch for every leaf of minimum length 0. Per generated program; "all definitions" is covered by the corpus plus template-shape coverage counters.'
               ' Since the E5 engine: generated code == printed graph (G19) and graph ~ reference DFA (G20): end-of-input successors record late and have no continuation, no state continues into a dead reference state.'
               ' Added in round 8: only the partial constructors put a lexer into prefix mode and morph/clone copy the mode (M-C07a, M-C14c) - a full-mode lexer that becomes a prefix lexer would stop before the end of the input.')


def run(ctx, rep):
    lg = ctx.mir('ws-default')
    rt.rule_writers(rep, lg['logos'], 'ws-default', ['token_start'], 'M-C03a')
    rt.rule_next_resumes(rep, lg['logos'], 'ws-default')
    rt.rule_frames(rep, lg['logos'], 'ws-default')
    rt.rule_bump(rep, lg['logos'], 'ws-default')           # a callback's bump keeps the span inside the input (or panics)
    rt.rule_is_boundary(rep, lg['logos'], 'ws-default')
    # tiling to the END of the input: only the partial constructors put a lexer into prefix mode (a full-mode lexer that
    # turns into a prefix lexer, e.g. through morph, stops at the first state with a continuation and drops the last item)
    rt.rule_writers(rep, lg['logos'], 'ws-default', ['is_prefix'], 'M-C07a')
    rt.rule_field_correspondence(rep, lg['logos'], 'ws-default')
    # a read fails only at the end of the source (otherwise the walk would stop early and the rest of the input is never tiled)
    rt.rule_read_bounds(rep, lg['logos'], 'ws-default')
    rt.rule_read_forbid(rep, ctx.mir('logos-forbid')['logos'], 'logos-forbid')
    cg.rule_empty_rejected(rep, lg['logos_codegen'])
    from props import c19
    c19.rule_gate(rep, lg['logos_codegen'])
    gen.rules_c03(ctx, rep)
    gen.rule_must_reject(ctx, rep, gen.configs(ctx), ['empty_match'], floor=6)
    rep.trusted += ['rustc nightly MIR', 'rustc macro expansion (-Zunpretty=expanded)', 'syn', 'engines/mirfacts', 'engines/genscan', 'lib/genlib.py']
    rep.assumptions += ['user callbacks return', 'regex-automata: has_empty() is true iff some pattern matches the empty string']
