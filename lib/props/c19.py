"""C19 The derive never panics and rejects what it cannot implement."""
import collections
import re

from mirlib import cond_of_switch, find_calls, loc, switches, trace, const_int
from props import cg, paniclib
from props.c19_table import TABLE
from props.rt import desc

ENGINE = 'mirfacts+genscan'
EXPLANATION = ('On type-checked MIR of logos-codegen: (a) inventory of every panic-capable construct reachable in the crate-local call graph from generate '
               '(unwrap/expect, panicking::*, Index::index, documented-panic std/syn calls, overflow/bounds/division assertions): each must be in a justification table, '
               'new sites are reported; (b) single gate: Generator::new/generate are dominated by the None edge of Errors::render(parser.errors), no error can be recorded after it, '
               'every GraphError arm records an error; (c) sibling traversals of Hir recurse into every sub-expression (greedy dot check); (d) named, multi-field and empty variants '
               'always record an error; (e) the graph root is pushed unconditionally into the work list of the dead-end pruning (premise of the justification of expect("Unreachable state found")). Not decided: panics inside syn/regex-syntax/regex-automata on valid calls; running time of DFA construction.')


def always_hits(fn, edge, target_blocks):
    """Every path through `edge` passes one of target_blocks before leaving the region controlled by the edge."""
    s, t = edge
    region = {b for b in fn.live_blocks() if fn.edge_dominates(edge, b)}
    if t in target_blocks:
        return True
    reach = fn.reachable(t, without_blocks=tuple(target_blocks))
    return not (reach - region)


def rule_inventory(rep, crate):
    rid = rep.rule('M-C19a', 'inventory of panic-capable constructs reachable from logos_codegen::generate: every site is in the justification table (function, construct) -> reason', floor=80)
    gen = crate.fns.get('generate')
    if not rep.anchor(rid, 'fn logos_codegen::generate', gen is not None):
        return
    reach, sites = paniclib.sites(crate, [gen])
    rep.analysed['reachable_functions'] = len(reach)
    cnt = collections.Counter()
    first = {}
    for f, kind, what, line in sites:
        k = (paniclib.clean(f.name), kind, what)
        cnt[k] += 1
        first.setdefault(k, (f, line))
        rep.inst(rid, '%s|%s|%s#%d' % (k[0], kind, what, cnt[k]), detail=dict(justification=TABLE.get(k, (0, None))[1]))
    # Sites are justified per (function, construct) in the table, but compared crate-wide per construct: moving code
    # between functions (extract method, loop -> closure) keeps the totals, a new panic-capable construct does not.
    total = collections.Counter()
    allowed_total = collections.Counter()
    for (f_, kind, what), n in cnt.items():
        total[(kind, what)] += n
    for (f_, kind, what), (n, _r) in TABLE.items():
        allowed_total[(kind, what)] += n
    for (kind, what), n in sorted(total.items()):
        if n > allowed_total[(kind, what)]:
            # name the functions that have more sites of this construct than the table justifies for them
            over = sorted(k for k, c in cnt.items() if k[1] == kind and k[2] == what and c > TABLE.get(k, (0, None))[0])
            f, line = first[over[0]] if over else first[[k for k in cnt if k[1] == kind and k[2] == what][0]]
            rep.viol(rid, 'panic-site:%s:%s' % (kind, what), '%d panic-capable construct(s) `%s` (%s) reachable from generate, %d justified; unjustified in: %s — a panic here would surface as "proc-macro derive panicked"' % (n, what, kind, allowed_total[(kind, what)], ', '.join(k[0] for k in over[:4]) or '?'), loc(f, line))
    # mechanical side conditions of two table entries
    rid2 = rep.rule('M-C19a-unwrap', 'the two unconditional unwrap/expect of generate are applied to Errors::render() of an Errors that just received an error, and to syn::parse2 of the input', floor=2)
    for bi, t in find_calls(gen, r'Option::<T>::unwrap$'):
        d = desc(gen, t['args'][0])
        rep.inst(rid2, 'generate:unwrap', detail=d[:120])
        ok = d.startswith('call:error::Errors::render(')
        if ok:
            sl = gen.slice(t['args'][0])
            ok = any(re.search(r'Errors as std::default::Default>::default$', c) for c in sl.calls)
            errs = [b for b, tt in find_calls(gen, r'error::Errors::err$') if gen.dominates_block(b, bi) and 'Errors as std::default::Default>::default' in desc(gen, tt['args'][0])]
            ok = ok and bool(errs)
        if not ok:
            rep.viol(rid2, 'generate:unwrap', 'Option::unwrap in generate is applied to %s, not to render() of a freshly filled Errors' % d[:160], loc(gen, t['line']))
    for bi, t in find_calls(gen, r'Result::<T, E>::expect$'):
        d = desc(gen, t['args'][0])
        rep.inst(rid2, 'generate:expect', detail=d[:120])
        if d != 'call:syn::parse2(param1)':
            rep.viol(rid2, 'generate:expect', 'Result::expect in generate is applied to %s' % d[:160], loc(gen, t['line']))


def rule_gate(rep, crate):
    rid = rep.rule('M-C19b', 'single gate: code generation (Generator::new / Generator::generate) is dominated by the None edge of Errors::render(parser.errors); no Parser::err / Errors::err is reachable after that edge; every GraphError variant arm in generate records an error', floor=5)
    fn = crate.fns.get('generate')
    if not rep.anchor(rid, 'fn logos_codegen::generate', fn is not None):
        return
    renders = [(b, t) for b, t in find_calls(fn, r'error::Errors::render$') if 'parser::Parser as std::default::Default>::default.errors' in desc(fn, t['args'][0])]
    if not rep.anchor(rid, 'Errors::render(parser.errors) in generate', len(renders) == 1):
        return
    rb, rt_ = renders[0]
    none_edge = None
    for sb in switches(fn):
        term = fn.blocks[sb]['term']
        r = trace(fn, term['discr'])
        if r[0] == 'discr' and r[2]['rhs']['place']['local'] == rt_['dest']['local']:
            tg = dict((v, x) for v, x in term['targets'])
            none_edge = (sb, tg['0']) if '0' in tg else (sb, tg['otherwise'])
    if not rep.anchor(rid, 'match on the result of Errors::render', none_edge is not None):
        return
    gens = find_calls(fn, r"generator::Generator::<'a>::(new|generate)$")
    rep.inst(rid, 'gate', detail=dict(render_block=rb, none_edge=none_edge, generator_calls=len(gens)))
    if len(gens) < 2:
        rep.viol(rid, 'gate:no-generator', 'Generator::new / Generator::generate calls not found', loc(fn))
    for b, t in gens:
        rep.inst(rid, 'gate:dominates:' + fn.callee_name(t).split('::')[-1])
        if not fn.edge_dominates(none_edge, b):
            rep.viol(rid, 'gate:bypass:' + fn.callee_name(t).split('::')[-1], 'code generation (%s) is reachable without passing the "no errors recorded" edge: a rejected definition would still be compiled' % fn.callee_name(t), loc(fn, t['line']))
    after = fn.reachable(none_edge[1])
    for b, t in find_calls(fn, r'(parser::Parser::err|error::Errors::err)$'):
        if b in after and fn.edge_dominates(none_edge, b):
            rep.viol(rid, 'gate:late-error', 'an error is recorded after the gate (it can never be rendered)', loc(fn, t['line']))
    # errors recorded into any other Errors value must be rendered on the path that created them
    # GraphError arms
    for sb in switches(fn):
        term = fn.blocks[sb]['term']
        r = trace(fn, term['discr'])
        if r[0] == 'discr' and re.match(r'^&?graph::GraphError$', r[2]['rhs'].get('enum', '')):
            names = r[2]['rhs']['variants']
            errs = [b for b, _t in find_calls(fn, r'parser::Parser::err$')]
            for v, tgt in term['targets']:
                if v == 'otherwise':
                    continue
                nm = names[int(v)]
                region = {b for b in fn.live_blocks() if fn.edge_dominates((sb, tgt), b)}
                has = [b for b in errs if b in region]
                rep.inst(rid, 'graph-error-arm:' + nm, detail=len(has))
                if not has:
                    rep.viol(rid, 'graph-error-arm:' + nm, 'the GraphError::%s arm of generate records no error: the rejection is dropped' % nm, loc(fn, term['line']))
                if nm != 'Disambiguation' and has and not always_hits(fn, (sb, tgt), has):
                    rep.viol(rid, 'graph-error-arm-cond:' + nm, 'the GraphError::%s arm does not always record its error' % nm, loc(fn, term['line']))
            covered = {names[int(v)] for v, _t in term['targets'] if v != 'otherwise'}
            for nm in names:
                if nm not in covered:
                    oth = [x for v, x in term['targets'] if v == 'otherwise']
                    if oth and fn.blocks[oth[0]]['term']['t'] != 'unreachable':
                        rep.viol(rid, 'graph-error-arm:' + nm, 'GraphError::%s is handled by a catch-all arm' % nm, loc(fn, term['line']))
    # the graph construction failure path renders its own error and returns
    # Graph::new: empty matches and missing start state are pushed as errors
    g = crate.fns.get('graph::Graph::new')
    if rep.anchor(rid, 'fn graph::Graph::new', g is not None):
        pushes = find_calls(g, r'vec::Vec::<T, A>::push$')
        kinds = set()
        for b, t in pushes:
            d = desc(g, t['args'][1])
            m = re.match(r'agg:graph::GraphError::(\w+)', d)
            if m:
                kinds.add(m.group(1))
        rep.inst(rid, 'graph-errors-pushed', detail=sorted(kinds))
        for k in ('NoUniversalStart', 'EmptyMatch', 'Disambiguation'):
            if k not in kinds:
                rep.viol(rid, 'graph-error-push:' + k, 'Graph::new never records GraphError::%s' % k, loc(g))


def rule_variants(rep, crate):
    rid = rep.rule('M-C19d', 'named-field variants and tuple variants whose field count is not 1 (including 0) always record an error', floor=2)
    fn = crate.fns.get('generate')
    if not rep.anchor(rid, 'fn logos_codegen::generate', fn is not None):
        return
    errs = [b for b, _t in find_calls(fn, r'parser::Parser::err$')]
    done = False
    for sb in switches(fn):
        term = fn.blocks[sb]['term']
        r = trace(fn, term['discr'])
        if r[0] == 'discr' and r[2]['rhs'].get('enum', '').startswith('syn::Fields'):
            names = r[2]['rhs']['variants']
            tg = {}
            for v, tgt in term['targets']:
                if v != 'otherwise':
                    tg[names[int(v)]] = tgt
            done = True
            # Named
            if 'Named' in tg:
                edge = (sb, tg['Named'])
                region = [b for b in errs if fn.edge_dominates(edge, b)]
                rep.inst(rid, 'variant:named', detail=len(region))
                if not region or not always_hits(fn, edge, region):
                    rep.viol(rid, 'variant:named', 'a variant with named fields does not always record an error', loc(fn, term['line']))
            else:
                rep.viol(rid, 'variant:named-arm', 'no arm for Fields::Named', loc(fn, term['line']))
            if 'Unnamed' in tg:
                edge = (sb, tg['Unnamed'])
                ok = False
                for s2 in switches(fn):
                    if not fn.edge_dominates(edge, s2):
                        continue
                    c = cond_of_switch(fn, s2)
                    if not c or c['root'][0] != 'bin':
                        continue
                    rhs = c['root'][2]['rhs']
                    if rhs['bop'] not in ('Ne', 'Eq'):
                        continue
                    ds = [desc(fn, rhs['a']), desc(fn, rhs['b'])]
                    if not any('::len(' in d for d in ds) or 'const:1' not in ds:
                        continue
                    bad_edge = (s2, c['t'] if rhs['bop'] == 'Ne' else c['f'])
                    region = [b for b in errs if fn.edge_dominates(bad_edge, b)]
                    rep.inst(rid, 'variant:field-count', detail=dict(cond=ds, errs=len(region)))
                    if region and always_hits(fn, bad_edge, region):
                        ok = True
                if not ok:
                    rep.viol(rid, 'variant:field-count', 'a tuple variant whose field count differs from 1 (e.g. `A()` or `A(u8, u8)`) does not always record an error', loc(fn, term['line']))
            else:
                rep.viol(rid, 'variant:unnamed-arm', 'no arm for Fields::Unnamed', loc(fn, term['line']))
    rep.anchor(rid, 'match on syn::Fields in generate', done)


def rule_root_retained(rep, crate):
    rid = rep.rule('M-C19e', 'the root survives pruning: in Graph::new every call retain_states(keep, true) is dominated by an unconditional push/insert of graph.root into the work list (or an iter::once(graph.root) chained into its seeds) the keep-set is computed from (the expect("Unreachable state found") of Generator::get_ident and the index expressions of the generator are justified by "every state the generator names is in the graph", which for the root rests on this)', floor=1)
    g = crate.fns.get('graph::Graph::new')
    if not rep.anchor(rid, 'fn Graph::new', g is not None):
        return
    # the pruning pass lives in Graph::new or in a private method of Graph it was moved to
    fn, keeps = g, []
    for h in [g] + [f for n, f in sorted(crate.fns.items()) if re.match(r'^graph::Graph::[a-z_0-9]+$', n) and f is not g and f.name != 'graph::Graph::retain_states']:
        ks = [(b, t) for b, t in find_calls(h, r'graph::Graph::retain_states$') if desc(h, t['args'][2]) == 'const:1']
        if ks:
            fn, keeps = h, ks
            break
    if not rep.anchor(rid, 'retain_states(.., true) in Graph::new or a Graph method', bool(keeps)):
        return
    # graph.root handed, outside any condition that could skip it, to a container or to an iterator source feeding the keep-set
    roots = [(b, t) for b, t in fn.calls() if re.search(r'(Vec::<T, A>::push|HashSet::<T, S>::insert|VecDeque::<T, A>::push_back|BTreeSet::<T, A>::insert|iter::once|Extend<.*>>::extend|::extend_one)$', fn.callee_name(t)) and any(re.search(r'(^|\.)root$', desc(fn, a)) for a in t['args'])]
    for b, t in keeps:
        rep.inst(rid, 'retain:bb%d' % b, detail=[rb for rb, _t in roots])
        if not any(fn.dominates_block(rb, b) for rb, _t in roots):
            rep.viol(rid, 'root-not-retained', 'no unconditional push of graph.root dominates retain_states(.., true): for a definition whose patterns can never match the root is pruned and the generator panics ("Unreachable state found") instead of reporting an error or generating an all-error lexer', loc(fn, t['line']))


def run(ctx, rep):
    crate = ctx.mir('ws-default')['logos_codegen']
    rule_inventory(rep, crate)
    rule_gate(rep, crate)
    cg.rule_greedy_recursion(rep, crate)
    cg.rule_literal_escape(rep, crate)      # justifies the `expect("ASCII is always valid UTF-8")` of the inventory: the guard is byte <= 127
    rule_variants(rep, crate)
    rule_root_retained(rep, crate)
    cg.rule_dfa_heuristics(rep, crate)     # what regex-automata cannot build exactly stays a reported build error (no approximate automaton)
    if ctx.tier == 'thorough':
        crate2 = ctx.mir('codegen-sm')['logos_codegen']
        rep2_before = len(rep.rules['M-C19a']['violations'])
        rule_inventory(rep, crate2)
    cg.cg_controls(rep, ctx, [('M-C19d', rule_variants), ('M-C01b', cg.rule_dfa_heuristics)])
    from props import gen
    gen.rule_must_reject(ctx, rep, gen.configs(ctx), ['empty_match', 'empty_callback', 'greedy_dot', 'greedy_dot_hidden', 'greedy_dot_explicit_false', 'undefined_subpattern', 'variants', 'look_behind', 'non_utf8_in_str_mode'], floor=34)
    rep.trusted += ['rustc nightly MIR and callee resolution', 'engines/mirfacts', 'the reasons in lib/props/c19_table.py were established by reading the code']
    rep.assumptions += ['input parses as an enum (the property quantifies over enum inputs)', 'third-party crates do not panic on valid calls', 'allocation failure is out of scope']
