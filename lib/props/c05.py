"""C05 Default (unsafe) build never reads outside the source."""
from props import rt

ENGINE = 'mirfacts+genscan'
EXPLANATION = ('Every unsafe operation of crate logos (calls of unsafe fns, raw pointer dereferences) is enumerated from type-checked MIR '
               'and must be in an audited table; in both Source::read implementations the raw read is dominated by the true edge of '
               'offset.checked_add(Chunk::SIZE).is_some_and(|end| end <= self.len()) on the same offset/receiver and Some is returned exactly on '
               'that edge; the two unchecked slicing sites use exactly span() and token_end..len, whose invariant is preserved by the closed, '
               'audited writer sets of token_start/token_end; the forbid_unsafe build has no unsafe operation, carries forbid(unsafe_code) and reads through '
               'the checked sub-slice with the same Some-condition. Generated code is checked (genscan) to contain no unsafe, to touch the source only through lex.read and to pass in-range offsets to lex.end.'
               ' Since the E5 engine: G19 + G20 (per definition) exclude an early record on an end-of-input successor (the only way a generated lexer can hand end = len + 1 to the runtime).'
               ' Added in round 8: the UTF-8 acceptance gate of generate covers every pattern of a str definition, skip patterns included (M-C04a, must-reject group non_utf8_in_str_mode): items begin and end on char boundaries, on which the unchecked str slicing of slice()/remainder() relies.')


def run(ctx, rep):
    cfgs = ['ws-default'] + (['logos-release'] if ctx.tier == 'thorough' else [])
    for cfg in cfgs:
        crate = ctx.mir(cfg)['logos']
        rt.rule_unsafe_inventory(rep, crate, cfg)
        rt.rule_read_bounds(rep, crate, cfg)
        rt.rule_accessor_operands(rep, crate, cfg, False)
        rt.rule_writers(rep, crate, cfg, ['token_start', 'token_end', 'source'], 'M-C05c')
        rt.rule_bump(rep, crate, cfg)
        rt.rule_is_boundary(rep, crate, cfg)
        rt.rule_rounding(rep, crate, cfg)       # error ends are char boundaries: the unchecked str slicing of slice()/remainder() relies on it
    crate = ctx.mir('logos-forbid')['logos']
    rt.rule_unsafe_inventory(rep, crate, 'logos-forbid', expect_empty=True)
    rt.rule_read_forbid(rep, crate, 'logos-forbid')
    rt.rule_accessor_operands(rep, crate, 'logos-forbid', True)
    # str items begin and end on char boundaries only if no pattern of a str definition (skip patterns included) can match
    # a partial UTF-8 sequence: the acceptance gate (the unchecked str slicing of slice()/remainder() relies on it)
    from props import cg
    cg.rule_utf8_gate(rep, ctx.mir('ws-default')['logos_codegen'])
    from props import gen
    gen.rules_c05(ctx, rep)
    gen.rule_must_reject(ctx, rep, gen.configs(ctx), ['non_utf8_in_str_mode'], floor=8)
    rep.analysed['configs'] = cfgs + ['logos-forbid']
    if ctx.tier == 'thorough':
        rt.rule_witnesses(rep, ctx)
    rt.rt_controls(rep, ctx, ['M-C05a', 'M-C15a'])
    rep.trusted += ['rustc nightly MIR construction', 'engines/mirfacts', 'std: ptr::add, get_unchecked contracts']
    rep.assumptions += ['positions passed to LexerInternal::end by generated code are within the source (decided on generated code by G7c)']
