"""C14 Lexer accessors, clone, morph and spanned agree in every call order."""
from props import rt

ENGINE = 'mirfacts+witness'
EXPLANATION = ('The state of a Lexer is four private fields plus extras; the effect of every Lexer method on them is read off the '
               'type-checked MIR, which turns the "all call sequences" quantifier into a finite frame table: accessors store nothing, '
               'next/trivia store token_start := token_end, bump/end/end_to_boundary store token_end only; slice() and remainder() are '
               'computed from exactly span() / token_end..len of the same source; morph and clone build the new lexer field by field from '
               'the same-named fields; SpannedIter::next is Lexer::next paired with Lexer::span of the same lexer. Compile-fail witnesses '
               'show the fields cannot be written from outside the crate and that morph requires an equal Source type.')


def run(ctx, rep):
    cfgs = [('ws-default', False)] + ([('logos-forbid', True), ('logos-release', False)] if ctx.tier == 'thorough' else [('logos-forbid', True)])
    for cfg, forbid in cfgs:
        crate = ctx.mir(cfg)['logos']
        rt.rule_frames(rep, crate, cfg)
        rt.rule_bump(rep, crate, cfg)        # an in-range bump is accepted, an out-of-range one leaves the span untouched
        rt.rule_is_boundary(rep, crate, cfg)
        rt.rule_accessor_operands(rep, crate, cfg, forbid)
        rt.rule_field_correspondence(rep, crate, cfg)
        rt.rule_spanned(rep, crate, cfg)
        rt.rule_writers(rep, crate, cfg, ['source', 'is_prefix', 'token_start', 'token_end'], 'M-C14w')
    rt.rule_witnesses(rep, ctx)
    rep.analysed['configs'] = [c for c, _ in cfgs]
    rt.rt_controls(rep, ctx, ['M-C14c'])
    rep.trusted += ['rustc nightly MIR construction', 'engines/mirfacts']
    rep.assumptions += ['Into::into / Clone::clone of Extras are the user-provided conversions the property names',
                        'generated Logos::lex only uses the LexerInternal interface (decided under C05/C20 on generated code)']
