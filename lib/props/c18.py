"""C18 Attribute arguments may be given in any order."""
import re

from mirlib import (cond_of_switch, const_bytes, const_int, control_slice, fields_of, find_calls, innermost_loop, loc,
                    op_place, switches, trace, variant_edges)
from props.rt import desc, ret_desc

ENGINE = 'mirfacts+genscan'
EXPLANATION = ('On type-checked MIR of the attribute parser: (a) sibling rule on the hand-written tokenizer: every arm that yields an item leaves the cursor just past the next top-level comma '
               '(each parse_* helper reaches collect_tail on every path; collect_tail draws only from next_tt and stops only at its None; next_tt maps exactly the `,` punct to None); '
               '(b) the handlers of named arguments and of #[logos(...)] items have pairwise independent read/write sets: no write to a Definition / Parser / TypeParams field depends on another field that an '
               'item can set, so handling them commutes; (c) the positional callback is accepted only at position 0. Permutation twins of the corpus generate identical code (genscan G13).')

ARMS = ['parse_unnamed', 'parse_assign', 'parse_literal', 'parse_group', 'parse_keyword']
AP = 'parser::nested::AttributeParser::'


def dominated_by_calls(fn, blocks, target):
    """every path entry -> target passes one of blocks"""
    return target not in fn.reachable(0, without_blocks=tuple(blocks))


def rule_separator(rep, crate):
    rid = rep.rule('M-C18a', 'attribute tokenizer: every arm that yields an item consumes the input up to and including the next top-level comma (sibling rule over parse_unnamed / parse_assign / parse_literal / parse_group / parse_keyword and the arms of Iterator::next)', floor=8)
    for a in ARMS:
        fn = crate.fns.get(AP + a)
        if not rep.anchor(rid, 'fn AttributeParser::' + a, fn is not None):
            continue
        ct = [b for b, _t in find_calls(fn, r'AttributeParser::collect_tail$')]
        rep.inst(rid, 'arm:' + a, detail=dict(collect_tail_calls=len(ct)))
        for rb in fn.return_blocks():
            if not dominated_by_calls(fn, ct, rb):
                rep.viol(rid, 'separator:%s' % a, 'AttributeParser::%s can return without draining the tokens up to the next comma (no collect_tail on some path): whatever follows this argument is mis-tokenised, so the accepted argument orders differ' % a, loc(fn))
                break
        # the arm touches the token cursor only through next_tt / collect_tail
        for b, t in fn.calls():
            n = fn.callee_name(t)
            if re.search(r'token_stream::IntoIter as std::iter::Iterator>::|Peekable|::peek$|::clone$', n) and 'inner' in ' '.join(desc(fn, x) for x in t['args']):
                rep.viol(rid, 'separator:%s:raw-cursor' % a, 'AttributeParser::%s accesses the token cursor directly (%s)' % (a, n), loc(fn, t['line']))
    nx = crate.fns.get('<parser::nested::AttributeParser as std::iter::Iterator>::next')
    if rep.anchor(rid, 'fn <AttributeParser as Iterator>::next', nx is not None):
        helpers = [b for b, t in nx.calls() if re.search(r'AttributeParser::(collect_tail|%s)$' % '|'.join(ARMS), nx.callee_name(t))]
        somes = [(bi, x) for kind, bi, si, x in nx.defs().get(0, []) if kind == 'stmt' and x['rhs']['rv'] == 'agg' and x['rhs']['kind'].get('variant') == 'Some' and bi in nx.live_blocks()]
        # an arm may also assign the item to a local that a single `Some(item)` wraps afterwards: the arms are then the
        # definitions of that local
        yields = []
        for bi, x in somes:
            r0 = trace(nx, x['rhs']['ops'][0]) if x['rhs']['ops'] else ('?',)
            ds = [d for d in nx.defs().get(r0[1], []) if d[1] in nx.live_blocks()] if r0[0] == 'multi' else []
            if len(ds) > 1:
                for kind, dbi, dsi, dx in ds:
                    yields.append((dbi, dict(line=dx.get('line'))))
            else:
                yields.append((bi, x))
        somes = yields
        rep.inst(rid, 'next:arms', detail=dict(item_yields=len(somes), helper_calls=len(helpers)))
        if len(somes) < 5:
            rep.viol(rid, 'separator:next:arms', 'expected at least five item-yielding arms in AttributeParser::next, found %d' % len(somes), loc(nx))
        none_after_next_tt = []
        for b, t in find_calls(nx, r'AttributeParser::next_tt$'):
            none_after_next_tt += variant_edges(nx, t['dest']['local'], 0)
        for bi, x in somes:
            if any(nx.edge_dominates(e, bi) for e in none_after_next_tt):
                continue      # next_tt just returned None: the separator (or the end) has been consumed
            if not dominated_by_calls(nx, helpers, bi):
                rep.viol(rid, 'separator:next', 'an arm of AttributeParser::next yields an item without draining up to the separator', loc(nx, x['line']))
        # first token is drawn raw (a leading comma must not terminate the iteration), everything else through next_tt
        raw = [(b, t) for b, t in nx.calls() if re.search(r'token_stream::IntoIter as std::iter::Iterator>::next$', nx.callee_name(t))]
        ntt = find_calls(nx, r'AttributeParser::next_tt$')
        rep.inst(rid, 'next:cursor', detail=dict(raw_next=len(raw), next_tt=len(ntt)))
        if len(raw) != 1 or not raw or raw[0][0] != min([b for b, _t in raw] + [b for b, _t in ntt]):
            rep.viol(rid, 'separator:next:first', 'AttributeParser::next does not draw exactly its first token with inner.next()', loc(nx))
        # the None of `first` ends the iteration: `?`
    ct = crate.fns.get(AP + 'collect_tail')
    if rep.anchor(rid, 'fn AttributeParser::collect_tail', ct is not None):
        calls = sorted({ct.callee_name(t) for _b, t in ct.calls()})
        ok_callees = re.compile(r'(AttributeParser::next_tt$|std::convert::Into<.*>::into$|^std::convert::Into::into$|std::iter::Extend<.*>>::extend$|^std::iter::Extend::extend$|From<.*>>::from$)')
        rep.inst(rid, 'collect_tail:body', detail=calls)
        bad = [c for c in calls if not ok_callees.search(c)]
        if bad:
            rep.viol(rid, 'separator:collect_tail:callee', 'collect_tail calls %s: the tail is no longer "everything next_tt yields"' % bad, loc(ct))
        nt = find_calls(ct, r'AttributeParser::next_tt$')
        if len(nt) != 1:
            rep.viol(rid, 'separator:collect_tail:shape', 'collect_tail does not loop over exactly one next_tt call', loc(ct))
        else:
            b, t = nt[0]
            lp = innermost_loop(ct, b)
            none_edges = variant_edges(ct, t['dest']['local'], 0)
            exits = []
            if lp:
                for x in lp[1]:
                    for s in ct.succ(x):
                        if s not in lp[1]:
                            exits.append((x, s))
            if not lp or not exits or not all(e in none_edges for e in exits):
                rep.viol(rid, 'separator:collect_tail:exit', 'collect_tail leaves its loop on something other than the None of next_tt', loc(ct))
    nt = crate.fns.get(AP + 'next_tt')
    if rep.anchor(rid, 'fn AttributeParser::next_tt', nt is not None):
        d = ret_desc(nt)
        rep.inst(rid, 'next_tt', detail=d)
        if not re.fullmatch(r'call:util::expect_punct\(call:<proc_macro2::token_stream::IntoIter as std::iter::Iterator>::next\(self\.inner\),const:44\)', d):
            rep.viol(rid, 'separator:next_tt', 'next_tt is %s, expected expect_punct(self.inner.next(), \',\')' % d, loc(nt))
    ep = crate.fns.get('util::expect_punct')
    if rep.anchor(rid, 'fn util::expect_punct', ep is not None):
        d = ret_desc(ep)
        rep.inst(rid, 'expect_punct', detail=d[:160])
        m = re.fullmatch(r'call:std::option::Option::<T>::filter\(param1,agg:closure:(.*?)\{0=param2\}\)', d)
        cd = ret_desc(crate.fns[m.group(1)]) if m and m.group(1) in crate.fns else '?'
        if not m or cd != 'Not(call:util::is_punct(param2,param1.0))':
            rep.viol(rid, 'separator:expect_punct', 'expect_punct is %s / %s, expected tt.filter(|tt| !is_punct(tt, expect))' % (d[:120], cd), loc(ep))


def self_effects(crate, fn, seen=None, depth=0):
    """(reads, writes) of the fields of *param1, following calls that pass the receiver on to crate-local fns"""
    if seen is None:
        seen = set()
    if fn.name in seen or depth > 6:
        return set(), set()
    seen.add(fn.name)
    reads, writes = set(), set()
    mutrefs = {}
    for bi, si, st in fn.stmts():
        if bi not in fn.live_blocks():
            continue
        lhs = st['lhs']
        if lhs['local'] == 1 and fields_of(lhs):
            writes.add(fields_of(lhs)[0])
        rhs = st['rhs']
        for pl in [op_place(rhs.get('a') or {}), op_place(rhs.get('b') or {}), rhs.get('place')] + [op_place(o) for o in rhs.get('ops', ())]:
            if pl and pl['local'] == 1 and fields_of(pl):
                f = fields_of(pl)[0]
                if rhs['rv'] in ('ref', 'rawptr') and (rhs.get('mut') or rhs['rv'] == 'rawptr'):
                    writes.add(f)
                    reads.add(f)
                else:
                    reads.add(f)
    for sb in switches(fn):
        pl = op_place(fn.blocks[sb]['term']['discr'])
        if pl and pl['local'] == 1 and fields_of(pl):
            reads.add(fields_of(pl)[0])
    for bi, t in fn.calls():
        g = crate.fns.get(fn.callee_name(t))
        for i, a in enumerate(t['args']):
            pl = op_place(a)
            if pl is None:
                continue
            r = trace(fn, a)
            whole = (r[0] == 'param' and r[1] == 1 and not [p for p in r[2] if p['k'] != 'deref']) if r[0] == 'param' else False
            if whole and g is not None and i == 0:
                r2, w2 = self_effects(crate, g, seen, depth + 1)
                reads |= r2
                writes |= w2
        # closures capturing self
    for clo in crate.closures_of(fn):
        for bi, si, st in clo.stmts():
            pass
    return reads, writes


def write_events(fn):
    """(field, inputs: list of operands, where) for every store to / &mut borrow of a field of *param1"""
    ev = []
    for bi, si, st in fn.stmts():
        if bi not in fn.live_blocks():
            continue
        lhs = st['lhs']
        if lhs['local'] == 1 and fields_of(lhs):
            rhs = st['rhs']
            ins = [rhs[k] for k in ('a', 'b') if rhs.get(k)] + list(rhs.get('ops', ()))
            ev.append((fields_of(lhs)[0], ins, st['line'], 'store'))
        rhs = st['rhs']
        if rhs['rv'] == 'ref' and rhs.get('mut') and rhs['place']['local'] == 1 and fields_of(rhs['place']):
            l = st['lhs']['local']
            f = fields_of(rhs['place'])[0]
            for b2, t in fn.calls():
                for i, a in enumerate(t['args']):
                    p = op_place(a)
                    if p and p['local'] == l:
                        others = [x for j, x in enumerate(t['args']) if j != i]
                        ev.append((f, others, t['line'], fn.callee_name(t)))
    return ev


def rule_commute(rep, crate):
    rid = rep.rule('M-C18b', 'commuting handlers: every write to a Definition field in named_attr, to a Parser field in try_parse_logos and to a TypeParams field in the methods it calls depends only on the item being handled and on that same field, never on another field an item can set; the TypeParams handlers have pairwise disjoint write/read sets', floor=10)
    EXEMPT = {'errors'}
    for name, what in (('parser::definition::Definition::named_attr', 'Definition'), ('parser::Parser::try_parse_logos', 'Parser'), ('parser::error_type::ErrorType::named_attr', 'ErrorType')):
        fn = crate.fns.get(name)
        if not rep.anchor(rid, 'fn ' + name, fn is not None):
            continue
        for f, ins, line, how in write_events(fn):
            if f in EXEMPT:
                continue
            deps = set()
            for o in ins:
                locs, calls, flds = control_slice(fn, o, stop_at_calls=('parser::Parser::err', 'error::Errors::err'))
                for l, fl in flds:
                    if l == 1 and fl:
                        deps.add(fl[0])
            rep.inst(rid, '%s:%s<-%s' % (what, f, how.split('::')[-1]), detail=sorted(deps))
            other = deps - {f} - EXEMPT
            if what == 'Parser' and f == 'types':
                other -= {'types'}
            if other:
                rep.viol(rid, 'commute:%s:%s<-%s' % (what, f, ','.join(sorted(other))), 'in %s the new value of %s.%s depends on %s.%s, which another argument/item sets: the result depends on their order' % (name, what, f, what, sorted(other)), loc(fn, line))
        # private helpers that receive the whole receiver (`self.push_skip(..)`): what they do (a store or a recorded error) must
        # not depend on a field that another argument / item sets — the handler rule above does not see into them
        done = set()
        for _b, t in fn.calls():
            g = crate.fns.get(fn.callee_name(t))
            if g is None or g.name in done or not t['args']:
                continue
            r0 = trace(fn, t['args'][0])
            if not (r0[0] == 'param' and r0[1] == 1 and not [p for p in r0[2] if p['k'] != 'deref']):
                continue
            done.add(g.name)
            rd, wr = self_effects(crate, g)
            rep.inst(rid, '%s:helper:%s' % (what, g.name.split('::')[-1]), detail=dict(reads=sorted(rd), writes=sorted(wr)))
            other = rd - wr - EXEMPT
            if what == 'Parser':
                other -= {'types'} if 'types' in wr else set()
            if other and wr:
                rep.viol(rid, 'commute:%s:helper:%s<-%s' % (what, g.name.split('::')[-1], ','.join(sorted(other))), '%s (called from %s with the whole receiver) reads %s.%s and writes %s: what this item leaves behind (a value or a recorded error) depends on a field that another argument/item sets, i.e. on their order' % (g.name, name, what, sorted(other), sorted(wr)), loc(g))
    # TypeParams handlers reachable from try_parse_logos
    tp = crate.fns.get('parser::Parser::try_parse_logos')
    if tp is not None:
        handlers = sorted({tp.callee_name(t) for _b, t in tp.calls() if re.search(r'^parser::type_params::TypeParams::', tp.callee_name(t)) and 'types' in desc(tp, t['args'][0])})
        eff = {}
        for h in handlers:
            g = crate.fns.get(h)
            if g is not None:
                eff[h] = self_effects(crate, g)
        rep.inst(rid, 'TypeParams:handlers', detail={h.split('::')[-1]: dict(reads=sorted(r), writes=sorted(w)) for h, (r, w) in eff.items()})
        if not rep.anchor(rid, 'TypeParams handlers set_type / set_source_lifetime called on parser.types', any(h.endswith('set_type') for h in eff) and any(h.endswith('set_source_lifetime') for h in eff)):
            return
        hs = sorted(eff)
        blocks = {}
        for b_, t in tp.calls():
            if tp.callee_name(t) in eff:
                blocks.setdefault(tp.callee_name(t), []).append(b_)

        def same_item(a, b):
            # two handlers called on one straight path belong to the same #[logos(...)] item kind
            return any(tp.dominates_block(x, y) or tp.dominates_block(y, x) for x in blocks.get(a, []) for y in blocks.get(b, []))
        for a in hs:
            for b in hs:
                if a == b or same_item(a, b):
                    continue
                ra, wa = eff[a]
                rb, wb = eff[b]
                clash = wa & (rb | wb)
                if clash:
                    rep.viol(rid, 'commute:TypeParams:%s/%s:%s' % (a.split('::')[-1], b.split('::')[-1], ','.join(sorted(clash))), 'TypeParams::%s writes %s, which TypeParams::%s reads or writes: #[logos(...)] items handled by them do not commute' % (a.split('::')[-1], sorted(clash), b.split('::')[-1]), loc(crate.fns[a]))


def rule_item_loops(rep, crate):
    rid = rep.rule('M-C18d', 'every item of an attribute is processed: the loops of try_parse_logos and parse_definition over the comma separated items are left before exhaustion only on paths that have recorded an error', floor=2)
    from mirlib import early_loop_exits
    for name in ('parser::Parser::try_parse_logos', 'parser::Parser::parse_definition'):
        fn = crate.fns.get(name)
        if not rep.anchor(rid, 'fn ' + name, fn is not None):
            continue
        errs = [b for b, _t in find_calls(fn, r'(parser::Parser::err|error::Errors::err)$')]

        def after_error(f, edge, errs=errs):
            # an error is recorded on every path that leaves through this edge (before or after the exit itself)
            if edge[0] in errs or edge[0] not in f.reachable(0, without_blocks=tuple(errs)):
                return True
            rest = f.reachable(edge[1], without_blocks=tuple(errs))
            return not (rest & set(f.return_blocks())) and edge[1] not in errs or (edge[1] in errs)
        ex = early_loop_exits(fn, r'(AttributeParser as std::iter::Iterator>::next|Enumerate<.*> as std::iter::Iterator>::next)$', allow=after_error)
        rep.inst(rid, name.split('::')[-1] + ':item-loop', detail=dict(early_exits=len(ex)))
        for h, e in ex:
            rep.viol(rid, 'item-loop-left-early:%s' % name.split('::')[-1], '%s leaves its item loop early without having recorded an error: the items after this one are silently dropped, so the result depends on item order' % name, loc(fn, fn.blocks[e[0]]['term']['line']))
            break


def rule_positional(rep, crate):
    rid = rep.rule('M-C18c', 'the positional callback is accepted only as the first item after the literal (position 0), in parse_definition and in the error(...) item', floor=2)
    for name in ('parser::Parser::parse_definition', 'parser::Parser::try_parse_logos'):
        fn = crate.fns.get(name)
        if not rep.anchor(rid, 'fn ' + name, fn is not None):
            continue
        pcs = find_calls(fn, r'parser::Parser::parse_callback$')
        rep.inst(rid, name.split('::')[-1] + ':parse_callback', detail=len(pcs))
        if not pcs:
            rep.viol(rid, 'positional:%s:missing' % name.split('::')[-1], 'no positional callback handling', loc(fn))
        for b, t in pcs:
            ok = False
            for sb in switches(fn):
                term = fn.blocks[sb]['term']
                sl = fn.slice(term['discr'], through_calls=False)
                if not any(re.search(r'Enumerate<.*> as std::iter::Iterator>::next$', c) for c in sl.calls):
                    continue
                if sl.binops or len(sl.calls) != 1:
                    continue
                tg = dict((v, x) for v, x in term['targets'])
                if '0' in tg and fn.edge_dominates((sb, tg['0']), b) and set(tg) == {'0', 'otherwise'}:
                    # the discriminant is the index component
                    ok = True
            # guard form: `Nested::Unnamed(..) if position == 0 => ..`
            if not ok:
                for sb in switches(fn):
                    c = cond_of_switch(fn, sb)
                    if not c or c['root'][0] != 'bin' or c['root'][2]['rhs']['bop'] not in ('Eq', 'Ne'):
                        continue
                    rhs = c['root'][2]['rhs']
                    zero = [k for k in ('a', 'b') if const_int(rhs[k]) == 0]
                    if len(zero) != 1:
                        continue
                    other = rhs['b' if zero[0] == 'a' else 'a']
                    sl = fn.slice(other, through_calls=False)
                    if sl.binops or len(sl.calls) != 1 or not any(re.search(r'Enumerate<.*> as std::iter::Iterator>::next$', x) for x in sl.calls):
                        continue
                    edge = (c['bb'], c['t'] if rhs['bop'] == 'Eq' else c['f'])
                    if fn.edge_dominates(edge, b):
                        ok = True
            if not ok:
                rep.viol(rid, 'positional:%s' % name.split('::')[-1], 'a positional callback is accepted at a position other than 0 (or unconditionally)', loc(fn, t['line']))


LOOP_CARRIED_OK = {
    ('parser::subpattern::Subpatterns::subst_subpatterns', 'current_pos'): 'cursor into the text of ONE pattern (reset per call)',
    ('*', '_i'): 'repetition counter generated by quote!',
}


def rule_loop_state(rep, crate):
    """Order independence of items also fails when a loop over items carries a user variable from one iteration to the next."""
    rid = rep.rule('M-C18e', 'no loop of the attribute parser (parser::*, generate) carries a user variable from one item to the next: a named local that is initialised before a loop, assigned inside it and read inside it is reported unless it is in the audited list (state that leaks from an earlier item into a later one makes the result depend on their order)', floor=10)
    from mirlib import natural_loops
    n = 0
    for name, fn in sorted(crate.fns.items()):
        if not re.match(r'^(parser::|generate$)', name):
            continue
        loops = natural_loops(fn)
        n += 1
        rep.inst(rid, 'loops:%s' % name, detail=len(loops), trivial=not loops)
        for head, body in loops:
            body = set(body)
            asg = set()
            for bi, si, st in fn.stmts():
                if bi in body and not st['lhs']['proj'] and st['lhs']['local'] in fn.names:
                    asg.add(st['lhs']['local'])
            for l in sorted(asg):
                if not [d for d in fn.defs().get(l, []) if d[1] not in body and d[1] in fn.live_blocks()]:
                    continue
                read = False
                for bi in body:
                    blk = fn.blocks[bi]
                    ops = []
                    for st in blk['stmts']:
                        rhs = st['rhs']
                        ops += [rhs.get('a'), rhs.get('b')] + list(rhs.get('ops') or [])
                        if 'place' in rhs and rhs['place']['local'] == l:
                            read = True
                    t = blk['term']
                    if t['t'] == 'switch':
                        ops.append(t['discr'])
                    if t['t'] == 'call':
                        ops += list(t['args'])
                    for o in ops:
                        if o and o.get('op') in ('copy', 'move') and o['place']['local'] == l:
                            read = True
                if not read:
                    continue
                var = fn.names[l]
                if (name, var) in LOOP_CARRIED_OK or ('*', var) in LOOP_CARRIED_OK:
                    continue
                rep.viol(rid, 'loop-carried:%s:%s' % (name, var), 'in %s the variable `%s` is set while one item is processed and read while a later one is processed: the outcome can depend on the order of the items' % (name, var), loc(fn, fn.blocks[head]['term'].get('line')))


def run(ctx, rep):
    crate = ctx.mir('ws-default')['logos_codegen']
    rule_separator(rep, crate)
    rule_commute(rep, crate)
    rule_positional(rep, crate)
    rule_item_loops(rep, crate)
    rule_loop_state(rep, crate)
    # a tie between two items (e.g. two skips) is an error, never resolved by the order in which they were written
    from props import c08
    c08.rule_state_type(rep, crate)
    from props import cg
    cg.cg_controls(rep, ctx, [('M-C18a', rule_separator)])
    rep.trusted += ['rustc nightly MIR', 'engines/mirfacts']
    rep.assumptions += ['skips and subpatterns are append-only vectors whose relative order is the dependency the property exempts']
    from props import gen
    gen.rules_c18(ctx, rep)
