"""Rules over the MIR of the runtime crate `logos` (src/)."""
import re

from mirlib import (bool_edges, cond_of_switch, const_int, fields_of, find_calls, has_raw_deref, loc,
                    mut_uses_of_field, op_place, place_str, stores_to_field, switches, trace, trace_place)

LEXER_FIELDS = ['source', 'is_prefix', 'token_start', 'token_end', 'extras']
PRIVATE_FIELDS = ['source', 'is_prefix', 'token_start', 'token_end']

ARITH_BINOPS = {'Add', 'AddWithOverflow', 'AddUnchecked', 'Sub', 'SubWithOverflow', 'SubUnchecked',
                'Mul', 'MulWithOverflow', 'MulUnchecked', 'Shl', 'Shr', 'BitOr', 'BitAnd', 'BitXor'}
UNCHECKED_ARITH_CALLS = r'(wrapping_|unchecked_|overflowing_|saturating_|strict_)'


def short(name):
    """Stable short name of a function: drop generic parameter lists."""
    return re.sub(r"(::)?<'source, \w+>", '', name)


def lexer_fn(crate, meth):
    return crate.one(r"^lexer::Lexer::<.*>::%s$" % meth)


def internal_fn(crate, meth):
    return crate.one(r"^<lexer::Lexer<.*> as internal::LexerInternal<.*>>::%s$" % meth)


def is_self_field_store(fn, st):
    """store whose destination is (a field of) *self (local 1) or the return place aggregate"""
    return st['lhs']['local'] == 1 and any(p['k'] == 'field' for p in st['lhs']['proj'])


def lexer_aggregates(fn):
    out = []
    for bi, si, st in fn.stmts():
        rhs = st['rhs']
        if rhs['rv'] == 'agg' and rhs['kind'].get('adt') == 'lexer::Lexer' and bi in fn.live_blocks():
            out.append((bi, si, st))
    return out


# --------------------------------------------------------------------------------------------
# writer sets
# --------------------------------------------------------------------------------------------

def helper_callee(crate, fn):
    """the crate-local, non-public function whose result `fn` returns unchanged (a private construction helper), if any"""
    r = ret_root(fn)
    if r and r[0] == 'call':
        g = crate.fns.get(fn.callee_name(r[2]))
        if g is not None and g.vis != 'Public' and g.kind != 'Closure':
            return g, r[2]
    return None, None


def constructs_lexer(crate, fn, depth=0):
    if lexer_aggregates(fn):
        return True
    if depth > 4:
        return False
    g, _t = helper_callee(crate, fn)
    return g is not None and constructs_lexer(crate, g, depth + 1)


def callers_of(crate, target):
    out = []
    for f in crate.fns.values():
        if f.name != target.name and target.name in crate.callees(f):
            out.append(f)
    return out


def is_private_helper_of(crate, fn, allowed):
    """fn is a non-public function that is only called by audited writers (or by other such helpers)"""
    if fn.vis == 'Public' or fn.kind == 'Closure':
        return False
    cs = callers_of(crate, fn)
    if not cs:
        return False
    for c in cs:
        root = crate.fns.get(c.parent) if c.kind == 'Closure' else c
        if root is None:
            return False
        if any(re.search(p, root.name) for p in allowed):
            continue
        if root.name != fn.name and is_private_helper_of(crate, root, allowed):
            continue
        return False
    return True


def writers_of(crate, field):
    """Functions of the crate that can change Lexer.<field>: direct stores through a place ending in
    the field, &mut borrows of it, and constructions of a Lexer aggregate."""
    out = {}
    for fn in crate.fns.values():
        kinds = set()
        for bi, si, st in stores_to_field(fn, field):
            base_ty = fn.locals[st['lhs']['local']]
            if 'Lexer' in base_ty or 'Self' in base_ty:
                kinds.add('store')
        for bi, si, st in mut_uses_of_field(fn, field):
            base_ty = fn.locals[st['rhs']['place']['local']]
            if 'Lexer' in base_ty:
                kinds.add('mut-borrow')
        if constructs_lexer(crate, fn):
            kinds.add('construct')
        if kinds:
            out[fn.name] = kinds
    return out


def check_writer_set(rep, rid, crate, field, allowed, cfg):
    """allowed: dict short-name-regex -> reason"""
    ws = writers_of(crate, field)
    helper_writers = set()
    for name, kinds in sorted(ws.items()):
        ok = [pat for pat in allowed if re.search(pat, name)]
        rep.inst(rid, '%s:%s:%s' % (cfg, field, short(name)), detail=dict(writer=name, kinds=sorted(kinds)))
        if not ok and kinds == {'construct'} and is_private_helper_of(crate, crate.fns[name], allowed):
            continue       # a private construction helper of audited constructors: its field values are checked through its callers (M-C14c)
        if not ok and private_self_helper(crate, name) is not None and is_private_helper_of(crate, crate.fns[name], allowed):
            helper_writers.add(name)
            continue       # a private `&mut self` helper of audited writers: its stores are attributed to them (frame conditions, M-C14a)
        if not ok:
            fn = crate.fns[name]
            rep.viol(rid, '%s:writer:%s' % (field, short(name)),
                     'function %s writes Lexer.%s (%s) but is not in the audited writer set' % (name, field, ','.join(sorted(kinds))),
                     loc(fn))
    for pat in allowed:
        if not any(re.search(pat, n) for n in ws):
            # the audited writer may now write through a private helper
            via = False
            for n, f in crate.fns.items():
                if re.search(pat, n) and any(short(f.callee_name(t)) in {short(h) for h in helper_writers} for _b, t in f.calls()):
                    via = True
            if not via:
                rep.anchor(rid, 'writer %s of %s [%s]' % (pat, field, cfg), False)
            else:
                rep.inst(rid, '%s:%s:%s (through a private helper)' % (cfg, field, pat))


# --------------------------------------------------------------------------------------------
# C15: bump
# --------------------------------------------------------------------------------------------

def rule_bump(rep, crate, cfg):
    rid = rep.rule('M-C15a', 'Lexer::bump: every store to a lexer field is dominated by checked_add (no profile dependent arithmetic) and by the true edge of is_boundary(<the stored value>); no store lies on a path to a panic', floor=1)
    fn = lexer_fn(crate, 'bump')
    if not rep.anchor(rid, 'fn Lexer::bump [%s]' % cfg, fn is not None):
        return
    stores = [(bi, si, st) for bi, si, st in fn.stmts() if bi in fn.live_blocks() and is_self_field_store(fn, st)]
    # any &mut borrow of a field handed to a call counts as a store at the call
    for bi, si, st in fn.stmts():
        rhs = st['rhs']
        if rhs['rv'] == 'ref' and rhs.get('mut') and rhs['place']['local'] == 1 and fields_of(rhs['place']):
            stores.append((bi, si, dict(lhs=rhs['place'], rhs=dict(rv='mutref'), line=st['line'])))
    if not rep.anchor(rid, 'store to token_end in bump [%s]' % cfg, any(fields_of(s[2]['lhs'])[-1:] == ['token_end'] for s in stores)):
        return
    # is_boundary guards
    guards = []
    for sb in switches(fn):
        c = cond_of_switch(fn, sb)
        if c and c['root'][0] == 'call' and re.search(r'is_boundary$', fn.callee_name(c['root'][2])):
            guards.append(c)
    n = 0
    for bi, si, st in stores:
        fld = fields_of(st['lhs'])[-1]
        key = '%s:bump:store:%s:%d' % (cfg, fld, n)
        n += 1
        where = loc(fn, st.get('line'))
        rep.inst(rid, key, detail=dict(block=bi, field=fld))
        if st['rhs']['rv'] == 'mutref':
            rep.viol(rid, 'bump:mutref:%s' % fld, 'bump hands out &mut self.%s: the write cannot be ordered after the check' % fld, where)
            continue
        if st['rhs']['rv'] != 'use':
            rep.viol(rid, 'bump:store-shape:%s' % fld, 'store to self.%s is not a plain move of a checked value (%s)' % (fld, st['rhs']['rv']), where)
            continue
        sl = fn.slice(st['rhs']['a'])
        bad_ops = sl.binops & ARITH_BINOPS
        bad_calls = sl.calls_matching(UNCHECKED_ARITH_CALLS)
        chk = [(b, t) for b, t in sl.call_terms if re.search(r'::checked_add$', fn.callee_name(t))]
        if bad_ops or bad_calls:
            rep.viol(rid, 'bump:unchecked-arith:%s' % fld,
                     'value stored to self.%s is computed with %s: its overflow behaviour depends on the build profile or wraps silently' % (fld, sorted(bad_ops) + sorted(bad_calls)), where)
        if not chk:
            rep.viol(rid, 'bump:no-checked-add:%s' % fld, 'value stored to self.%s does not come from usize::checked_add' % fld, where)
            continue
        # the checked_add must combine the old end and n
        for b, t in chk:
            a0 = fn.slice(t['args'][0], through_calls=False)
            a1 = fn.slice(t['args'][1], through_calls=False)
            srcs = (a0.field_names() | a1.field_names(), a0.params | a1.params)
            if 'token_end' not in srcs[0] or 2 not in srcs[1]:
                rep.viol(rid, 'bump:checked-add-operands', 'checked_add in bump does not add the parameter n to self.token_end', loc(fn, t.get('line')))
        # guard: some is_boundary guard whose argument is the same checked value and whose true edge dominates the store
        ok = False
        for g in guards:
            gt = g['root'][2]
            if len(gt['args']) < 2:
                continue
            gs = fn.slice(gt['args'][1])
            same = {b for b, _t in chk} & {b for b, t in gs.call_terms if re.search(r'::checked_add$', fn.callee_name(t))}
            if gs.binops & ARITH_BINOPS or gs.calls_matching(UNCHECKED_ARITH_CALLS):
                continue
            recv = fn.slice(gt['args'][0], through_calls=False)
            if not same or 'source' not in recv.field_names():
                continue
            if fn.edge_dominates((g['bb'], g['t']), bi):
                ok = True
        # idiom 2: checked_add(n).filter(|&end| self.source.is_boundary(end)) and the store on the Some edge of the filter
        filters = []
        for b, t in sl.call_terms:
            if not re.search(r'Option::<T>::filter$', fn.callee_name(t)):
                continue
            a0 = fn.slice(t['args'][0])
            if not ({bb for bb, _t in chk} & {bb for bb, tt in a0.call_terms if re.search(r'::checked_add$', fn.callee_name(tt))}):
                continue
            m = re.match(r'agg:closure:(.*?\{closure#\d+\})\{', desc(fn, t['args'][1]))
            cf = crate.fns.get(m.group(1)) if m else None
            if cf is None:
                continue
            ibs = [tt for _b, tt in cf.calls() if re.search(r'is_boundary$', cf.callee_name(tt))]
            if len(ibs) != 1 or not ret_desc(cf).startswith('call:') or 'is_boundary' not in ret_desc(cf) or any(cf.blocks[bb]['term']['t'] == 'switch' for bb in cf.live_blocks()):
                continue
            argsl = cf.slice(ibs[0]['args'][1])
            recv = cf.slice(ibs[0]['args'][0])
            # the receiver is self.source, read directly or captured by the closure (env field k <- outer operand k)
            recv_ok = 'source' in recv.field_names()
            if not recv_ok and 1 in recv.params:
                ag = trace(fn, t['args'][1])
                if ag[0] == 'agg':
                    recv_ok = any('source' in fn.slice(o, through_calls=False).field_names() for o in ag[2]['rhs']['ops'])
            if 2 in argsl.params and not (argsl.binops & ARITH_BINOPS) and not argsl.calls and recv_ok:
                filters.append((b, t))
        if filters:
            ok = True
        if not ok:
            rep.viol(rid, 'bump:unguarded-store:%s' % fld,
                     'store to self.%s is not dominated by the true edge of self.source.is_boundary(<stored value>)' % fld, where)
        # nothing diverges after the store
        for d in fn.diverging_blocks():
            if fn.can_reach(bi, d) and d != bi:
                rep.viol(rid, 'bump:store-before-panic:%s' % fld,
                         'a panic is reachable after the store to self.%s: a caught panic leaves the lexer corrupted' % fld, where)
                break
        # the payload of checked_add may only be used on its Some edge
        other_calls = [c for c in sl.calls if not re.search(r'::checked_add$|^core::option::Option::<T>::(unwrap|expect)$|^std::option::Option::<T>::(unwrap|expect)$', c) and not (filters and re.search(r'Option::<T>::filter$', c))]
        if other_calls:
            rep.viol(rid, 'bump:unrecognised-idiom:%s' % fld,
                     'value stored to self.%s flows through %s; only checked_add (+ unwrap/expect or a Some pattern) is an audited idiom' % (fld, sorted(other_calls)), where)
        if not sl.calls_matching(r'Option::<T>::(unwrap|expect)$'):
            for b, t in (filters or chk):
                some_ok = False
                for sb in switches(fn):
                    term = fn.blocks[sb]['term']
                    r = trace(fn, term['discr'])
                    if r[0] == 'discr' and r[2]['rhs']['place']['local'] == t['dest']['local']:
                        tg = {v: x for v, x in term['targets']}
                        some_t = tg['1'] if '1' in tg else (tg['otherwise'] if '0' in tg else None)
                        if some_t is not None and fn.edge_dominates((sb, some_t), bi):
                            some_ok = True
                if not some_ok:
                    rep.viol(rid, 'bump:none-reaches-store:%s' % fld, 'the store to self.%s is not dominated by the Some edge of checked_add: on overflow a garbage value would be committed' % fld, where)


def source_method(crate, ty, meth):
    """The body that implements Source::<meth> for `ty` ('str', '[u8]', 'T'): the impl's own method or the trait's
    default.  Returns (fn, 'own'|'default') or (None, None)."""
    own = crate.fns.get('<%s as source::Source>::%s' % (ty, meth))
    if own is not None:
        return own, 'own'
    has_impl = any(i.get('trait') == 'source::Source' and i.get('self_ty') == ty for i in crate.impls)
    if has_impl:
        d = crate.fns.get('source::Source::%s' % meth)
        if d is not None:
            return d, 'default'
    return None, None


def is_len_of_self(fn, op):
    d = desc(fn, op)
    return re.fullmatch(r'call:(core::str::<impl str>::len|core::slice::<impl \[T\]>::len|source::Source::len|<(str|\[u8\]) as source::Source>::len)\(param1\)', d) is not None or d == 'PtrMetadata(param1)'


def index_le_len(fn):
    r = ret_root(fn)
    if r and r[0] == 'bin':
        rhs = r[2]['rhs']
        if rhs['bop'] == 'Le' and desc(fn, rhs['a']) == 'param2' and is_len_of_self(fn, rhs['b']):
            return True
        if rhs['bop'] == 'Ge' and desc(fn, rhs['b']) == 'param2' and is_len_of_self(fn, rhs['a']):
            return True
    return False


def rule_is_boundary(rep, crate, cfg):
    rid = rep.rule('M-C15b', 'the Source::is_boundary body that applies to each Source impl: [u8] is `index <= len`, str is str::is_char_boundary(index), the Deref wrapper forwards to the target', floor=3)
    fn, how = source_method(crate, '[u8]', 'is_boundary')
    if rep.anchor(rid, 'Source::is_boundary for [u8] [%s]' % cfg, fn is not None):
        rep.inst(rid, cfg + ':[u8]::is_boundary', detail=dict(body=fn.name, via=how, ret=ret_desc(fn)))
        if not index_le_len(fn):
            rep.viol(rid, '[u8]::is_boundary:shape', 'the is_boundary that applies to [u8] (%s) does not return `index <= self.len()` but %s' % (fn.name, ret_desc(fn)), loc(fn))
    fn, how = source_method(crate, 'str', 'is_boundary')
    if rep.anchor(rid, 'Source::is_boundary for str [%s]' % cfg, fn is not None):
        d = ret_desc(fn)
        rep.inst(rid, cfg + ':str::is_boundary', detail=dict(body=fn.name, via=how, ret=d))
        if d != 'call:core::str::<impl str>::is_char_boundary(param1,param2)':
            rep.viol(rid, 'str::is_boundary:shape', 'the is_boundary that applies to str (%s) returns %s, expected self.is_char_boundary(index)' % (fn.name, d), loc(fn))
    fn, how = source_method(crate, 'T', 'is_boundary')
    if rep.anchor(rid, 'Source::is_boundary for Deref wrappers [%s]' % cfg, fn is not None):
        d = ret_desc(fn)
        rep.inst(rid, cfg + ':T::is_boundary', detail=dict(body=fn.name, via=how, ret=d))
        if d != 'call:source::Source::is_boundary(call:std::ops::Deref::deref(param1),param2)':
            rep.viol(rid, 'T::is_boundary:shape', 'the is_boundary that applies to Deref wrappers (String, Box<str>, &str, ...) is %s and returns %s: it does not forward to the target, so the str rule is lost' % (fn.name, d), loc(fn))
    # any further Source impl must be audited
    for i in crate.impls:
        if i.get('trait') == 'source::Source' and i.get('self_ty') not in ('str', '[u8]', 'T'):
            rep.viol(rid, 'source-impl:%s' % i.get('self_ty'), 'unaudited Source impl for %s' % i.get('self_ty'), 'src/source.rs')


def ret_root(fn):
    """trace of the value assigned to the return place, when it is assigned exactly once (or by one call)."""
    ds = [d for d in fn.defs().get(0, []) if d[1] in fn.live_blocks()]
    if len(ds) != 1:
        return None
    kind, bi, si, x = ds[0]
    if kind == 'call':
        return ('call', bi, x)
    rhs = x['rhs']
    if rhs['rv'] == 'use':
        return trace(fn, rhs['a'])
    if rhs['rv'] == 'bin':
        return ('bin', bi, x)
    if rhs['rv'] == 'agg':
        return ('agg', bi, x)
    if rhs['rv'] == 'un':
        return ('un', bi, x)
    return ('other', rhs)


TOKEN_END_WRITERS = {
    r'^lexer::Lexer::<.*>::with_extras$': 'constructor: 0',
    r'^lexer::Lexer::<.*>::partial_with_extras$': 'constructor: 0',
    r'^lexer::Lexer::<.*>::morph$': 'copies the field',
    r'^<lexer::Lexer<.*> as std::clone::Clone>::clone$': 'copies the field',
    r'^lexer::Lexer::<.*>::bump$': 'checked (M-C15a)',
    r'^<lexer::Lexer<.*> as internal::LexerInternal<.*>>::end$': 'trusted entry for generated code',
    r'^<lexer::Lexer<.*> as internal::LexerInternal<.*>>::end_to_boundary$': 'stores find_boundary(x) (M-C02a)',
}


def rule_token_end_writers(rep, crate, cfg):
    rid = rep.rule('M-C04c', 'closed writer set of Lexer.token_end: {with_extras, partial_with_extras, morph, clone, bump, end, end_to_boundary}', floor=7)
    check_writer_set(rep, rid, crate, 'token_end', TOKEN_END_WRITERS, cfg)
    # fields are private (the set is closed for code outside the crate)
    fields = dict((n, v) for n, v in crate.adts.get('lexer::Lexer', []))
    if rep.anchor(rid, 'struct lexer::Lexer [%s]' % cfg, bool(fields)):
        for f in PRIVATE_FIELDS:
            rep.inst(rid, '%s:private:%s' % (cfg, f), trivial=True)
            if not fields.get(f, '').startswith('Restricted'):
                rep.viol(rid, 'field-visibility:%s' % f, 'Lexer.%s is not private (%s): the writer set is not closed' % (f, fields.get(f)), 'src/lexer.rs')


# --------------------------------------------------------------------------------------------
# value descriptions
# --------------------------------------------------------------------------------------------

def desc(fn, op, ident=False):
    """Canonical description of an operand: 'self.f' / 'param<n>' / 'const:<v>' / 'call:<callee>(args...)' / '?'.
    With ident=True every call is tagged with its block (`call@12:...`) so that two calls of the same function differ."""
    r = trace(fn, op)
    k = r[0]
    at = (lambda b: '@%d' % b) if ident else (lambda b: '')
    if k == 'const':
        v = const_int(r[1])
        if v is None and r[1].get('fn'):
            return 'fn:%s' % r[1]['fn']
        if v is None and r[1].get('val') is None and r[1].get('pretty'):
            return 'const:%s' % r[1]['pretty']
        return 'const:%s' % (v if v is not None else r[1].get('val'))
    if k == 'param':
        return 'param%d' % r[1]
    if k == 'place':
        tp = trace_place(fn, r[1])
        if tp:
            root, fl = tp
            if root[0] == 'param':
                return ('self' if root[1] == 1 and fn.names.get(1) == 'self' else 'param%d' % root[1]) + ''.join('.' + f for f in fl)
            if root[0] == 'call':
                return 'call%s:%s' % (at(root[2]), short(root[1])) + ''.join('.' + f for f in fl)
            return 'local%s' % (('#%d' % root[1]) if ident else '') + ''.join('.' + f for f in fl)
        return '?place'
    if k == 'call':
        t = r[2]
        return 'call%s:%s(%s)' % (at(r[1]), short(fn.callee_name(t)), ','.join(desc(fn, a, ident) for a in t['args']))
    if k == 'agg':
        rhs = r[2]['rhs']
        kd = rhs['kind']
        nm = kd.get('adt') or ('closure:' + kd.get('closure', '')) if ('adt' in kd or 'closure' in kd) else 'tuple'
        names = rhs['fields'] or [str(i) for i in range(len(rhs['ops']))]
        if 'adt' in kd and kd.get('variant') and kd['variant'] != kd['adt'].split('::')[-1]:
            nm += '::' + kd['variant']
        return 'agg:%s{%s}' % (nm, ','.join('%s=%s' % (n, desc(fn, o, ident)) for n, o in zip(names, rhs['ops'])))
    if k == 'bin':
        rhs = r[2]['rhs']
        return '%s(%s,%s)' % (rhs['bop'], desc(fn, rhs['a'], ident), desc(fn, rhs['b'], ident))
    if k == 'un':
        rhs = r[2]['rhs']
        return '%s(%s)' % (rhs['uop'], desc(fn, rhs['a'], ident))
    if k == 'cast':
        return 'cast(%s)' % desc(fn, r[2]['rhs']['a'], ident)
    if k == 'multi':
        return '?multi' + (('#%d' % r[1]) if ident else '')
    return '?' + k


def ret_desc(fn):
    ds = [d for d in fn.defs().get(0, []) if d[1] in fn.live_blocks()]
    if len(ds) != 1:
        return '?multi-return(%d)' % len(ds)
    kind, bi, si, x = ds[0]
    if kind == 'call':
        return 'call:%s(%s)' % (short(fn.callee_name(x)), ','.join(desc(fn, a) for a in x['args']))
    fake = dict(op='copy', place=dict(local=0, proj=[]))
    return desc(fn, fake)


SPAN = 'agg:std::ops::Range{start=self.token_start,end=self.token_end}'
SPAN_CALL = 'call:lexer::Lexer::span(param1)'


def norm_span(d):
    return d.replace(SPAN_CALL, SPAN)


# --------------------------------------------------------------------------------------------
# C14: frame conditions, operands, field correspondence, spanned
# --------------------------------------------------------------------------------------------

# method regex -> (allowed stored fields with required value description, may pass &mut *self to)
FRAME = {
    r'^lexer::Lexer::<.*>::span$': ({}, None),
    r'^lexer::Lexer::<.*>::slice$': ({}, None),
    r'^lexer::Lexer::<.*>::remainder$': ({}, None),
    r'^lexer::Lexer::<.*>::source$': ({}, None),
    r'^lexer::Lexer::<.*>::range$': ({}, None),
    r'^<lexer::Lexer<.*> as internal::LexerInternal<.*>>::read$': ({}, None),
    r'^<lexer::Lexer<.*> as internal::LexerInternal<.*>>::offset$': ({}, None),
    r'^<lexer::Lexer<.*> as internal::LexerInternal<.*>>::is_prefix$': ({}, None),
    r'^<lexer::Lexer<.*> as std::iter::Iterator>::next$': ({'token_start': 'self.token_end'}, r'Logos::lex$'),
    r'^<lexer::Lexer<.*> as internal::LexerInternal<.*>>::trivia$': ({'token_start': 'self.token_end'}, None),
    r'^<lexer::Lexer<.*> as internal::LexerInternal<.*>>::end$': ({'token_end': 'param2'}, None),
    r'^<lexer::Lexer<.*> as internal::LexerInternal<.*>>::end_to_boundary$': ({'token_end': 'call:source::Source::find_boundary(self.source,param2)'}, None),
    r'^lexer::Lexer::<.*>::bump$': ({'token_end': None}, None),
}


def self_effects(fn, _depth=0):
    """(stores: list of (field, value description, line), escapes: list of (what, callee))  for methods with a self pointer in _1"""
    stores = []
    escapes = []
    crate = getattr(fn, 'crate', None)
    for bi, si, st in fn.stmts():
        if bi not in fn.live_blocks():
            continue
        if st['lhs']['local'] == 1 and fields_of(st['lhs']):
            rhs = st['rhs']
            val = desc(fn, rhs['a']) if rhs['rv'] == 'use' else '?' + rhs['rv']
            stores.append((fields_of(st['lhs'])[0], val, st['line']))
        rhs = st['rhs']
        if rhs['rv'] in ('ref', 'rawptr') and (rhs.get('mut') or rhs['rv'] == 'rawptr') and rhs['place']['local'] == 1:
            # who receives it?
            l = st['lhs']['local']
            recv = []
            for b2, t in fn.calls():
                for a in t['args']:
                    p = op_place(a)
                    if p and p['local'] == l:
                        recv.append(fn.callee_name(t))
            what = '.'.join(fields_of(rhs['place'])) or '*self'
            helpers = [private_self_helper(crate, r) for r in recv] if (crate is not None and what == '*self' and recv and _depth < 2) else []
            if helpers and all(h is not None for h in helpers):
                # a private method that works on the same `self`: its effects are the caller's effects
                for h in helpers:
                    hs, he = self_effects(h, _depth + 1)
                    stores += [(f, v, st['line']) for f, v, _l in hs]
                    escapes += he
                continue
            escapes.append((what, recv or ['?']))
    return stores, escapes


def private_self_helper(crate, name):
    """a non-public inherent method of Lexer (e.g. `fn begin_token(&mut self)`), or None"""
    g = crate.fns.get(name)
    if g is None:
        for k, f in crate.fns.items():
            if short(k) == short(name):
                g = f
                break
    if g is None or g.vis == 'Public' or g.kind not in ('AssocFn', 'Fn') or not re.match(r'^lexer::Lexer(::<.*>)?::\w+$', g.name):
        return None
    return g


def rule_frames(rep, crate, cfg):
    rid = rep.rule('M-C14a', 'frame conditions of every Lexer method: accessors store nothing and hand out no &mut; next/trivia store token_start := token_end only; end/end_to_boundary/bump store token_end only', floor=13)
    for pat, (allowed, may_pass) in FRAME.items():
        fn = crate.one(pat)
        nm = pat.strip('^$')
        if not rep.anchor(rid, 'fn %s [%s]' % (nm, cfg), fn is not None):
            continue
        stores, escapes = self_effects(fn)
        rep.inst(rid, '%s:%s' % (cfg, short(fn.name)), detail=dict(stores=[(f, v) for f, v, _l in stores], escapes=escapes))
        for f, v, line in stores:
            if f not in allowed:
                rep.viol(rid, 'frame:%s:stores:%s' % (short(fn.name), f), '%s stores to self.%s, which its frame condition forbids' % (fn.name, f), loc(fn, line))
            elif allowed[f] is not None and v != allowed[f]:
                rep.viol(rid, 'frame:%s:value:%s' % (short(fn.name), f), '%s stores %s to self.%s, expected %s' % (fn.name, v, f, allowed[f]), loc(fn, line))
        for f in allowed:
            if f not in [s[0] for s in stores]:
                rep.viol(rid, 'frame:%s:missing:%s' % (short(fn.name), f), '%s no longer stores to self.%s' % (fn.name, f), loc(fn))
        for what, recv in escapes:
            if may_pass and what == '*self' and all(re.search(may_pass, r) for r in recv):
                continue
            rep.viol(rid, 'frame:%s:escape:%s' % (short(fn.name), what), '%s hands out a mutable borrow of %s to %s' % (fn.name, what, recv), loc(fn))
        # next: the store precedes the call of lex
        if may_pass:
            calls = find_calls(fn, may_pass)
            if not calls:
                rep.viol(rid, 'frame:%s:no-lex' % short(fn.name), '%s does not call Logos::lex' % fn.name, loc(fn))
            for bi, t in calls:
                sb = [b for b, _s, st in stores_to_field(fn, 'token_start')]
                for hb, ht in fn.calls():
                    h = private_self_helper(crate, fn.callee_name(ht))
                    if h is not None and stores_to_field(h, 'token_start'):
                        sb.append(hb)
                if not any(fn.dominates_block(b, bi) for b in sb):
                    rep.viol(rid, 'frame:%s:order' % short(fn.name), 'token_start := token_end does not dominate the call of Logos::lex', loc(fn, t['line']))
                if desc(fn, t['args'][0]) not in ('param1', 'self'):
                    rep.viol(rid, 'frame:%s:lex-arg' % short(fn.name), 'Logos::lex is not called on self', loc(fn, t['line']))


ACCESSORS = {
    'span': {'ws-default': [SPAN], 'logos-forbid': [SPAN]},
}


def rule_accessor_operands(rep, crate, cfg, forbid=False):
    rid = rep.rule('M-C14b', 'span() = token_start..token_end; slice() slices self.source with exactly span(); remainder() slices self.source with token_end..source.len(); source() returns the field', floor=4)
    exp_span = SPAN
    fn = lexer_fn(crate, 'span')
    if rep.anchor(rid, 'fn Lexer::span [%s]' % cfg, fn is not None):
        d = ret_desc(fn)
        rep.inst(rid, cfg + ':span', detail=d)
        if d != exp_span:
            rep.viol(rid, 'span:value', 'Lexer::span returns %s, expected %s' % (d, exp_span), loc(fn))
    rem_range = 'agg:std::ops::Range{start=self.token_end,end=call:source::Source::len(self.source)}'
    if forbid:
        want = {'slice': 'call:std::option::Option::<T>::unwrap(call:source::Source::slice(self.source,%s))' % SPAN,
                'remainder': 'call:std::option::Option::<T>::unwrap(call:source::Source::slice(self.source,%s))' % rem_range}
    else:
        want = {'slice': 'call:source::Source::slice_unchecked(self.source,%s)' % SPAN,
                'remainder': 'call:source::Source::slice_unchecked(self.source,%s)' % rem_range}
    for m, w in want.items():
        fn = lexer_fn(crate, m)
        if rep.anchor(rid, 'fn Lexer::%s [%s]' % (m, cfg), fn is not None):
            d = norm_span(ret_desc(fn))
            rep.inst(rid, '%s:%s' % (cfg, m), detail=d)
            if d != w:
                rep.viol(rid, '%s:operands' % m, 'Lexer::%s returns %s, expected %s' % (m, d, w), loc(fn))
    fn = lexer_fn(crate, 'source')
    if rep.anchor(rid, 'fn Lexer::source [%s]' % cfg, fn is not None):
        d = ret_desc(fn)
        rep.inst(rid, cfg + ':source', detail=d)
        if d != 'self.source':
            rep.viol(rid, 'source:value', 'Lexer::source returns %s' % d, loc(fn))
    fn = lexer_fn(crate, 'range')
    if fn is not None:
        d = norm_span(ret_desc(fn))
        rep.inst(rid, cfg + ':range', detail=d)
        if d != SPAN:
            rep.viol(rid, 'range:value', 'Lexer::range returns %s' % d, loc(fn))
    for m, w in (('offset', 'self.token_start'), ('is_prefix', 'self.is_prefix')):
        fn = internal_fn(crate, m)
        if rep.anchor(rid, 'fn LexerInternal::%s [%s]' % (m, cfg), fn is not None):
            d = ret_desc(fn)
            rep.inst(rid, '%s:%s' % (cfg, m), detail=d)
            if d != w:
                rep.viol(rid, '%s:value' % m, 'LexerInternal::%s returns %s, expected %s' % (m, d, w), loc(fn))


def lexer_agg_desc(fn):
    aggs = lexer_aggregates(fn)
    if len(aggs) != 1:
        return None
    bi, si, st = aggs[0]
    rhs = st['rhs']
    return {n: desc(fn, o) for n, o in zip(rhs['fields'], rhs['ops'])}


def lexer_summary(crate, fn, depth=0):
    """field -> description of the value the returned Lexer gets, in terms of fn's own parameters; follows private
    construction helpers (param substitution)"""
    d = lexer_agg_desc(fn)
    if d is not None or depth > 4:
        return d
    g, t = helper_callee(crate, fn)
    if g is None:
        return None
    gs = lexer_summary(crate, g, depth + 1)
    if gs is None:
        return None
    args = [desc(fn, a) for a in t['args']]

    def sub(v):
        return re.sub(r'\bparam(\d+)\b', lambda m: args[int(m.group(1)) - 1] if int(m.group(1)) - 1 < len(args) else m.group(0), v)
    return {k: sub(v) for k, v in gs.items()}


CONSTRUCT = {
    'with_extras': dict(source='param1', is_prefix='const:0', token_start='const:0', token_end='const:0', extras='param2'),
    'partial_with_extras': dict(source='param1', is_prefix='const:1', token_start='const:0', token_end='const:0', extras='param2'),
    'morph': dict(source='self.source', is_prefix='self.is_prefix', token_start='self.token_start', token_end='self.token_end',
                  extras='call:std::convert::Into::into(self.extras)'),
}
CLONE = dict(source='self.source', is_prefix='self.is_prefix', token_start='self.token_start', token_end='self.token_end',
             extras='call:std::clone::Clone::clone(self.extras)')


def rule_field_correspondence(rep, crate, cfg):
    rid = rep.rule('M-C14c', 'field correspondence of every Lexer construction: constructors start at 0..0 with the requested mode; morph and clone copy source, is_prefix, token_start, token_end from the same-named fields and convert/clone extras; new/new_partial forward', floor=6)
    items = [(lexer_fn(crate, m), m, w) for m, w in CONSTRUCT.items()]
    items.append((crate.one(r'^<lexer::Lexer<.*> as std::clone::Clone>::clone$'), 'clone', CLONE))
    for fn, m, w in items:
        if not rep.anchor(rid, 'fn Lexer::%s [%s]' % (m, cfg), fn is not None):
            continue
        d = lexer_summary(crate, fn)
        rep.inst(rid, '%s:%s' % (cfg, m), detail=d)
        if d is None:
            rep.viol(rid, '%s:shape' % m, 'Lexer::%s does not build exactly one Lexer aggregate (directly or through a private helper)' % m, loc(fn))
            continue
        for f, v in w.items():
            if d.get(f) != v:
                rep.viol(rid, '%s:field:%s' % (m, f), 'Lexer::%s builds %s from %s, expected %s' % (m, f, d.get(f), v), loc(fn))
        if ret_desc(fn).split('{')[0] != 'agg:lexer::Lexer' and helper_callee(crate, fn)[0] is None:
            rep.viol(rid, '%s:return' % m, 'Lexer::%s does not return the aggregate it builds' % m, loc(fn))
    for m, tgt in (('new', 'with_extras'), ('new_partial', 'partial_with_extras')):
        fn = lexer_fn(crate, m)
        if rep.anchor(rid, 'fn Lexer::%s [%s]' % (m, cfg), fn is not None):
            d = ret_desc(fn)
            rep.inst(rid, '%s:%s' % (cfg, m), detail=d)
            if not re.fullmatch(r'call:lexer::Lexer::%s\(param1,call:std::default::Default::default\(\)\)' % tgt, d):
                rep.viol(rid, '%s:forward' % m, 'Lexer::%s returns %s, expected a call of %s(source, Default::default())' % (m, d, tgt), loc(fn))
    # only the audited functions may construct a Lexer
    for fn in crate.fns.values():
        audited = [r'::(with_extras|partial_with_extras|morph)$', r'Clone>::clone$']
        if lexer_aggregates(fn) and not any(re.search(p_, fn.name) for p_ in audited) and not is_private_helper_of(crate, fn, audited):
            rep.viol(rid, 'constructs:%s' % short(fn.name), '%s constructs a Lexer but is not an audited constructor' % fn.name, loc(fn))
    # Logos::lexer / lexer_with_extras
    for m, tgt, args in (('lexer', 'new', 'param1'), ('lexer_with_extras', 'with_extras', 'param1,param2')):
        fn = crate.one(r'^Logos::%s$' % m)
        if rep.anchor(rid, 'fn Logos::%s [%s]' % (m, cfg), fn is not None):
            d = ret_desc(fn)
            rep.inst(rid, '%s:Logos::%s' % (cfg, m), detail=d)
            if not re.fullmatch(r'call:lexer::Lexer::%s\(%s\)' % (tgt, args), d):
                rep.viol(rid, 'Logos::%s:forward' % m, 'Logos::%s returns %s' % (m, d), loc(fn))


def rule_spanned(rep, crate, cfg):
    rid = rep.rule('M-C14d', 'spanned(): SpannedIter wraps the lexer unchanged; its next() is Lexer::next followed by Lexer::span on the same lexer, paired; clone clones the inner lexer; Deref/DerefMut return the inner lexer', floor=5)
    fn = lexer_fn(crate, 'spanned')
    if rep.anchor(rid, 'fn Lexer::spanned [%s]' % cfg, fn is not None):
        d = ret_desc(fn)
        rep.inst(rid, cfg + ':spanned', detail=d)
        if d != 'agg:lexer::SpannedIter{lexer=param1}':
            rep.viol(rid, 'spanned:value', 'Lexer::spanned returns %s' % d, loc(fn))
    fn = crate.one(r'^<lexer::SpannedIter<.*> as std::iter::Iterator>::next$')
    if rep.anchor(rid, 'fn SpannedIter::next [%s]' % cfg, fn is not None):
        d = ret_desc(fn)
        rep.inst(rid, cfg + ':SpannedIter::next', detail=d)
        m = re.fullmatch(r'call:std::option::Option::<T>::map\(call:<lexer::Lexer as std::iter::Iterator>::next\(self\.lexer\),agg:closure:(.*)\{0=self\.lexer\}\)', d)
        if not m:
            # equivalent straight-line form: `let token = self.lexer.next()?; Some((token, self.lexer.span()))` (or a match)
            nexts = find_calls(fn, r'^<lexer::Lexer<.*> as std::iter::Iterator>::next$')
            spans = find_calls(fn, r'^lexer::Lexer::<.*>::span$')
            other = sorted({fn.callee_name(t) for _b, t in fn.calls()} - {fn.callee_name(t) for _b, t in nexts + spans})
            other = [c for c in other if not re.search(r'(ops::Try>::branch|ops::FromResidual<.*>>::from_residual|Option::<T>::map)$', c)]
            somes = [(bi, x) for kind, bi, si, x in fn.defs().get(0, []) if kind == 'stmt' and bi in fn.live_blocks() and x['rhs']['rv'] == 'agg' and x['rhs']['kind'].get('variant') == 'Some']
            ok = len(nexts) == 1 and len(spans) == 1 and not other and len(somes) == 1
            if ok:
                nb, nt = nexts[0]
                sb_, st_ = spans[0]
                ok = desc(fn, nt['args'][0]) == 'self.lexer' and desc(fn, st_['args'][0]) == 'self.lexer' and fn.dominates_block(nb, sb_) and nb != sb_
            if ok:
                pay = trace(fn, somes[0][1]['rhs']['ops'][0])
                ok = pay[0] == 'agg' and len(pay[2]['rhs']['ops']) == 2
                if ok:
                    o0, o1 = pay[2]['rhs']['ops']
                    s0 = fn.slice(o0)
                    ok = (nexts[0][1]['dest']['local'] in s0.locals and not s0.binops
                          and not [c for c in s0.calls if not re.search(r'(Iterator>::next|ops::Try>::branch)$', c)]
                          and desc(fn, o1).startswith('call:lexer::Lexer::span(self.lexer'))
            if not ok:
                rep.viol(rid, 'SpannedIter::next:shape', 'SpannedIter::next returns %s, expected self.lexer.next().map(|t| (t, self.lexer.span())) or `let t = self.lexer.next()?; Some((t, self.lexer.span()))`' % d, loc(fn))
        else:
            clo = crate.fns.get(m.group(1))
            if clo is None:
                rep.viol(rid, 'SpannedIter::next:closure', 'closure body not found', loc(fn))
            else:
                cd = ret_desc(clo)
                rep.inst(rid, cfg + ':SpannedIter::next::closure', detail=cd)
                if cd != 'agg:tuple{0=param2,1=call:lexer::Lexer::span(param1.0)}':
                    rep.viol(rid, 'SpannedIter::next:pair', 'the closure of SpannedIter::next returns %s, expected (token, lexer.span())' % cd, loc(clo))
    fn = crate.one(r'^<lexer::SpannedIter<.*> as std::clone::Clone>::clone$')
    if rep.anchor(rid, 'fn SpannedIter::clone [%s]' % cfg, fn is not None):
        d = ret_desc(fn)
        rep.inst(rid, cfg + ':SpannedIter::clone', detail=d)
        if d != 'agg:lexer::SpannedIter{lexer=call:<lexer::Lexer as std::clone::Clone>::clone(self.lexer)}':
            rep.viol(rid, 'SpannedIter::clone:shape', 'SpannedIter::clone returns %s' % d, loc(fn))
    for tr, m in (('Deref', 'deref'), ('DerefMut', 'deref_mut')):
        fn = crate.one(r'^<lexer::SpannedIter<.*> as std::ops::%s>::%s$' % (tr, m))
        if rep.anchor(rid, 'fn SpannedIter::%s [%s]' % (m, cfg), fn is not None):
            d = ret_desc(fn)
            rep.inst(rid, '%s:SpannedIter::%s' % (cfg, m), detail=d)
            if d != 'self.lexer':
                rep.viol(rid, 'SpannedIter::%s:value' % m, 'SpannedIter::%s returns %s' % (m, d), loc(fn))


WRITERS = {
    'token_start': {
        r'^lexer::Lexer::<.*>::with_extras$': 'constructor', r'^lexer::Lexer::<.*>::partial_with_extras$': 'constructor',
        r'^lexer::Lexer::<.*>::morph$': 'copy', r'^<lexer::Lexer<.*> as std::clone::Clone>::clone$': 'copy',
        r'^<lexer::Lexer<.*> as std::iter::Iterator>::next$': ':= token_end', r'^<lexer::Lexer<.*> as internal::LexerInternal<.*>>::trivia$': ':= token_end'},
    'is_prefix': {
        r'^lexer::Lexer::<.*>::with_extras$': 'false', r'^lexer::Lexer::<.*>::partial_with_extras$': 'true',
        r'^lexer::Lexer::<.*>::morph$': 'copy', r'^<lexer::Lexer<.*> as std::clone::Clone>::clone$': 'copy'},
    'source': {
        r'^lexer::Lexer::<.*>::with_extras$': 'param', r'^lexer::Lexer::<.*>::partial_with_extras$': 'param',
        r'^lexer::Lexer::<.*>::morph$': 'copy', r'^<lexer::Lexer<.*> as std::clone::Clone>::clone$': 'copy'},
    'token_end': TOKEN_END_WRITERS,
}


def rule_writers(rep, crate, cfg, fields, rid_name='M-C03a'):
    rid = rep.rule(rid_name, 'closed writer sets of the private Lexer fields %s' % ','.join(fields), floor=sum(len(WRITERS[f]) for f in fields))
    for f in fields:
        check_writer_set(rep, rid, crate, f, WRITERS[f], cfg)
    flds = dict((n, v) for n, v in crate.adts.get('lexer::Lexer', []))
    if rep.anchor(rid, 'struct lexer::Lexer [%s]' % cfg, bool(flds)):
        for f in fields:
            if not flds.get(f, '').startswith('Restricted'):
                rep.viol(rid, 'field-visibility:%s' % f, 'Lexer.%s is not private (%s): the writer set is not closed' % (f, flds.get(f)), 'src/lexer.rs')


# --------------------------------------------------------------------------------------------
# C05: unsafe inventory, bounds check dominates the raw read
# --------------------------------------------------------------------------------------------

def unsafe_ops(fn):
    """unsafe operations of a body: calls of unsafe fns (outside std's format_args expansion) and raw pointer
    dereferences."""
    ops = []
    for bi, t in fn.calls():
        c = t['callee']
        if c.get('unsafe'):
            name = fn.callee_name(t)
            if t.get('tmacro') and re.match(r'(core|std)::fmt::', name):
                continue
            ops.append(('call', name, t['line']))
    for bi, si, st in fn.stmts():
        if bi not in fn.live_blocks():
            continue
        places = [st['lhs']]
        rhs = st['rhs']
        for k in ('a', 'b'):
            p = op_place(rhs.get(k) or {})
            if p:
                places.append(p)
        if 'place' in rhs:
            places.append(rhs['place'])
        for o in rhs.get('ops', ()):
            p = op_place(o)
            if p:
                places.append(p)
        for p in places:
            if has_raw_deref(p):
                ops.append(('rawderef', place_str(p), st['line']))
    return ops


UNSAFE_TABLE = {
    # function regex -> list of (kind, callee regex) allowed, with the reason
    r'^<str as source::Source>::read$': [('call', r'ptr::const_ptr::<impl \*const T>::add$'), ('call', r'source::Chunk::from_ptr$')],
    r'^<\[u8\] as source::Source>::read$': [('call', r'ptr::const_ptr::<impl \*const T>::add$'), ('call', r'source::Chunk::from_ptr$')],
    r'^<str as source::Source>::slice_unchecked$': [('call', r'str::<impl str>::get_unchecked$')],
    r'^<\[u8\] as source::Source>::slice_unchecked$': [('call', r'slice::<impl \[T\]>::get_unchecked$')],
    r'^<T as source::Source>::slice_unchecked$': [('call', r'source::Source::slice_unchecked$')],
    r'^lexer::Lexer::<.*>::slice$': [('call', r'source::Source::slice_unchecked$')],
    r'^lexer::Lexer::<.*>::remainder$': [('call', r'source::Source::slice_unchecked$')],
    r"^<u8 as source::Chunk<'source>>::from_ptr$": [('rawderef', r'.*')],
    r"^<&'source \[u8; N\] as source::Chunk<'source>>::from_ptr$": [('rawderef', r'.*')],
}


def rule_unsafe_inventory(rep, crate, cfg, expect_empty=False):
    rid = rep.rule('M-C05a', 'inventory of unsafe operations in crate logos: every call of an unsafe fn and every raw-pointer dereference is in the audited table (11 operations in 9 functions); forbid_unsafe build has none and carries forbid(unsafe_code)', floor=(0 if expect_empty else 7))
    total = 0
    for fn in sorted(crate.fns.values(), key=lambda f: f.name):
        ops = unsafe_ops(fn)
        if not ops:
            continue
        allowed = None
        for pat, al in UNSAFE_TABLE.items():
            if re.search(pat, fn.name):
                allowed = list(al)
        seen = {}
        for kind, what, line in ops:
            total += 1
            k = '%s:%s:%s:%s' % (cfg, short(fn.name), kind, what if kind == 'call' else 'ptr')
            seen[k] = seen.get(k, 0) + 1
            rep.inst(rid, '%s#%d' % (k, seen[k]), detail=dict(fn=fn.name, kind=kind, what=what))
            ok = False
            if allowed and not expect_empty:
                for i, (ak, apat) in enumerate(allowed):
                    if ak == kind and re.search(apat, what):
                        ok = True
                        if kind == 'call':
                            allowed.pop(i)   # each audited call is allowed once
                        break
            if not ok:
                rep.viol(rid, 'unsafe-op:%s:%s:%s' % (short(fn.name), kind, what if kind == 'call' else 'ptr'),
                         'unaudited unsafe operation in %s: %s %s' % (fn.name, kind, what), loc(fn, line))
    lint = crate.meta.get('unsafe_code_lint', '')
    if expect_empty:
        rep.inst(rid, cfg + ':forbid(unsafe_code)', detail=lint[:200])
        if 'forbid' not in lint.lower():
            rep.viol(rid, 'forbid-attr', 'the forbid_unsafe build does not carry #![forbid(unsafe_code)] (crate attrs: %r)' % lint[:200], 'src/lib.rs')
    # declared unsafe fns
    for fn in crate.fns.values():
        if fn.is_unsafe and not re.search(r'::(slice_unchecked|from_ptr)$', fn.name):
            rep.viol(rid, 'unsafe-fn:%s' % short(fn.name), 'unaudited unsafe fn %s' % fn.name, loc(fn))


def is_size_const(op):
    return op.get('op') == 'const' and 'Chunk::SIZE' in (op.get('cdbg') or '')


def bounds_helper_roles(crate, h):
    """If the private function h(..) returns exactly `a.checked_add(b)` is Some(end) and end <= len` for three of its
    parameters: dict(len=i, a=j, b=k) (1-based parameter numbers); None otherwise."""
    if h.kind not in ('Fn', 'AssocFn') or h.argc != 3 or h.locals[0] != 'bool':
        return None
    adds = [(b, t) for b, t in h.calls() if re.search(r'::checked_add$', h.callee_name(t))]
    others = [h.callee_name(t) for _b, t in h.calls() if not re.search(r'::checked_add$|Option::<T>::is_some_and$', h.callee_name(t))]
    if len(adds) != 1 or others:
        return None
    ab, at = adds[0]
    pa, pb = desc(h, at['args'][0]), desc(h, at['args'][1])
    if not (re.fullmatch(r'param[123]', pa) and re.fullmatch(r'param[123]', pb)) or pa == pb:
        return None
    rest = ({'param1', 'param2', 'param3'} - {pa, pb}).pop()
    from mirlib import variant_edges
    ok = False
    rr = ret_root(h)
    if rr and rr[0] == 'call' and re.search(r'Option::<T>::is_some_and$', h.callee_name(rr[2])) and trace(h, rr[2]['args'][0])[0] == 'call':
        clo = trace(h, rr[2]['args'][1])
        cf = crate.fns.get(clo[2]['rhs']['kind'].get('closure', '')) if clo[0] == 'agg' else None
        cap = [desc(h, o) for o in clo[2]['rhs']['ops']] if clo[0] == 'agg' else []
        if cf is not None and cap == [rest]:
            r2 = ret_root(cf)
            if r2 and r2[0] == 'bin':
                rhs = r2[2]['rhs']
                da, db = desc(cf, rhs['a']), desc(cf, rhs['b'])
                ok = (rhs['bop'] == 'Le' and da == 'param2' and db == 'param1.0') or (rhs['bop'] == 'Ge' and db == 'param2' and da == 'param1.0')
    else:
        some_edges = variant_edges(h, at['dest']['local'], 1)
        none_edges = variant_edges(h, at['dest']['local'], 0)
        good = True
        seen_cmp = False
        for kind, bi, si, x in h.defs().get(0, []):
            if bi not in h.live_blocks() or kind != 'stmt':
                good = False
                continue
            rhs = x['rhs']
            if rhs['rv'] == 'use' and const_int(rhs['a']) == 0:
                continue                      # `false` may be returned anywhere
            if rhs['rv'] == 'bin' and any(h.edge_dominates(e, bi) for e in some_edges):
                pa_, pb_ = trace(h, rhs['a']), trace(h, rhs['b'])

                def payload(x_):
                    return x_[0] == 'place' and x_[1]['local'] == at['dest']['local'] and any(p_['k'] == 'downcast' and p_.get('variant') == 'Some' for p_ in x_[1]['proj'])
                if (rhs['bop'] == 'Le' and payload(pa_) and desc(h, rhs['b']) == rest) or (rhs['bop'] == 'Ge' and payload(pb_) and desc(h, rhs['a']) == rest):
                    seen_cmp = True
                    continue
            good = False
        ok = good and seen_cmp
    if not ok:
        return None
    return dict(len=int(rest[-1]), a=int(pa[-1]), b=int(pb[-1]))


def rule_read_bounds(rep, crate, cfg):
    rid = rep.rule('M-C05b', 'Source::read (default build): the raw pointer read is dominated by the true edge of offset.checked_add(Chunk::SIZE).is_some_and(|end| end <= self.len()) for the same offset and receiver; Some is returned exactly on that edge, None on the other', floor=2)
    for ty in ('str', r'\[u8\]'):
        fn = crate.one(r'^<%s as source::Source>::read$' % ty)
        tyn = ty.replace('\\', '')
        if not rep.anchor(rid, 'fn <%s as Source>::read [%s]' % (tyn, cfg), fn is not None):
            continue
        key = '%s:%s::read' % (cfg, tyn)
        rep.inst(rid, key)
        where = loc(fn)
        if tyn == 'str' and re.fullmatch(r'call:<\[u8\] as source::Source>::read\(call:core::str::<impl str>::as_bytes\(param1\),param2\)', ret_desc(fn)):
            continue    # str delegates to the byte implementation on its own bytes: same condition, same bytes
        # guards
        guards = []
        for sb in switches(fn):
            c = cond_of_switch(fn, sb)
            if not c or c['root'][0] != 'call':
                continue
            t = c['root'][2]
            if not re.search(r'Option::<T>::is_some_and$', fn.callee_name(t)):
                continue
            a0 = trace(fn, t['args'][0])
            if a0[0] != 'call' or not re.search(r'::checked_add$', fn.callee_name(a0[2])):
                continue
            ca = a0[2]['args']
            if desc(fn, ca[0]) != 'param2' or not is_size_const(ca[1]):
                continue
            a1 = trace(fn, t['args'][1])
            if a1[0] != 'agg' or 'closure' not in a1[2]['rhs']['kind']:
                continue
            clo = crate.fns.get(a1[2]['rhs']['kind']['closure'])
            cap = [desc(fn, o) for o in a1[2]['rhs']['ops']]
            if clo is None or cap != ['param1']:
                continue
            r = ret_root(clo)
            okc = False
            if r and r[0] == 'bin':
                rhs = r[2]['rhs']
                da, db = desc(clo, rhs['a']), desc(clo, rhs['b'])
                is_len = lambda d: re.fullmatch(r'call:(core::str::<impl str>::len|core::slice::<impl \[T\]>::len|source::Source::len)\(param1\.0\)', d) is not None or d == 'PtrMetadata(param1.0)'
                if rhs['bop'] == 'Le' and da == 'param2' and is_len(db):
                    okc = True
                if rhs['bop'] == 'Ge' and db == 'param2' and is_len(da):
                    okc = True
            if okc:
                guards.append(c)
        if not guards:
            # idiom 2: `match offset.checked_add(SIZE) { Some(end) if end <= self.len() => .., _ => None }`
            adds_ = [(b, t) for b, t in find_calls(fn, r'::checked_add$') if desc(fn, t['args'][0]) == 'param2' and is_size_const(t['args'][1])]
            for ab, at in adds_:
                from mirlib import variant_edges
                some_edges = variant_edges(fn, at['dest']['local'], 1)
                for sb in switches(fn):
                    c = cond_of_switch(fn, sb)
                    if not c or c['root'][0] != 'bin':
                        continue
                    rhs = c['root'][2]['rhs']
                    pa, pb = trace(fn, rhs['a']), trace(fn, rhs['b'])

                    def is_payload(x):
                        return x[0] == 'place' and x[1]['local'] == at['dest']['local'] and any(p_['k'] == 'downcast' and p_.get('variant') == 'Some' for p_ in x[1]['proj'])

                    def is_len(x):
                        return x[0] == 'call' and re.search(r'(str::<impl str>::len|slice::<impl \[T\]>::len|source::Source::len)$', fn.callee_name(x[2])) and desc(fn, x[2]['args'][0]) in ('param1', 'self') or (x[0] == 'un' and x[2]['rhs'].get('uop') == 'PtrMetadata' and desc(fn, x[2]['rhs']['a']) in ('param1', 'self'))
                    okc = (rhs['bop'] == 'Le' and is_payload(pa) and is_len(pb)) or (rhs['bop'] == 'Ge' and is_len(pa) and is_payload(pb))
                    if okc and any(fn.edge_dominates(e, sb) for e in some_edges):
                        guards.append(c)
        if not guards:
            # idiom 3: the test is a private helper `h(len, offset, size)` that returns checked_add(offset, size) <= len
            for sb in switches(fn):
                c = cond_of_switch(fn, sb)
                if not c or c['root'][0] != 'call':
                    continue
                t = c['root'][2]
                h = crate.fns.get(fn.callee_name(t))
                roles = bounds_helper_roles(crate, h) if h is not None else None
                if roles is None or len(t['args']) != h.argc:
                    continue
                a_len, a_off, a_size = (t['args'][roles[k] - 1] for k in ('len', 'a', 'b'))
                dl = desc(fn, a_len)
                len_ok = re.fullmatch(r'call:(core::str::<impl str>::len|core::slice::<impl \[T\]>::len|source::Source::len)\((param1|self)\)|PtrMetadata\((param1|self)\)', dl) is not None
                pair = [(desc(fn, a_off), a_off), (desc(fn, a_size), a_size)]
                off_ok = (pair[0][0] == 'param2' and is_size_const(pair[1][1])) or (pair[1][0] == 'param2' and is_size_const(pair[0][1]))
                if len_ok and off_ok:
                    guards.append(c)
        if not guards:
            rep.viol(rid, '%s::read:no-guard' % tyn, '<%s as Source>::read has no `offset.checked_add(Chunk::SIZE).is_some_and(|end| end <= self.len())` guard' % tyn, where)
            continue
        adds = find_calls(fn, r'ptr::const_ptr::<impl \*const T>::add$')
        frs = find_calls(fn, r'source::Chunk::from_ptr$')
        if not adds or not frs:
            rep.viol(rid, '%s::read:no-raw-read' % tyn, 'raw read (as_ptr().add / from_ptr) not found', where)
        for bi, t in adds + frs + find_calls(fn, r'::as_ptr$'):
            if not any(fn.edge_dominates((g['bb'], g['t']), bi) for g in guards):
                rep.viol(rid, '%s::read:unguarded:%s' % (tyn, fn.callee_name(t).rsplit('::', 1)[-1]), 'unsafe call %s is not dominated by the bounds check' % fn.callee_name(t), loc(fn, t['line']))
        for bi, t in adds:
            d0, d1 = desc(fn, t['args'][0]), desc(fn, t['args'][1])
            if d1 != 'param2' or not re.fullmatch(r'call:core::(str::<impl str>|slice::<impl \[T\]>)::as_ptr\(param1\)', d0):
                rep.viol(rid, '%s::read:add-operands' % tyn, 'pointer arithmetic is %s.add(%s), expected self.as_ptr().add(offset)' % (d0, d1), loc(fn, t['line']))
        for bi, t in frs:
            d0 = desc(fn, t['args'][0])
            if not d0.startswith('call:std::ptr::const_ptr::<impl *const T>::add('):
                rep.viol(rid, '%s::read:from_ptr-operand' % tyn, 'from_ptr reads %s' % d0, loc(fn, t['line']))
        # return discipline
        for kind, bi, si, x in fn.defs().get(0, []):
            if bi not in fn.live_blocks():
                continue
            if kind == 'stmt' and x['rhs']['rv'] == 'agg':
                var = x['rhs']['kind'].get('variant')
                dom_t = any(fn.edge_dominates((g['bb'], g['t']), bi) for g in guards)
                dom_f = any(fn.edge_dominates((g['bb'], g['f']), bi) for g in guards)
                if var == 'Some' and not dom_t:
                    rep.viol(rid, '%s::read:some-unguarded' % tyn, 'Some(..) is returned outside the bounds-check edge', loc(fn, x['line']))
                if var == 'Some' and not desc(fn, x['rhs']['ops'][0]).startswith('call:source::Chunk::from_ptr('):
                    rep.viol(rid, '%s::read:some-payload' % tyn, 'Some payload is not the chunk read', loc(fn, x['line']))
                if var == 'None' and not dom_f and any(fn.edge_dominates((g['bb'], g['t']), bi) for g in guards):
                    rep.viol(rid, '%s::read:none-on-success' % tyn, 'None is returned although the bounds check succeeded', loc(fn, x['line']))
            else:
                rep.viol(rid, '%s::read:return-shape' % tyn, 'unexpected definition of the return value', where)
    # Deref wrapper forwards
    fn = crate.one(r'^<T as source::Source>::read$')
    if rep.anchor(rid, 'fn <T as Source>::read [%s]' % cfg, fn is not None):
        d = ret_desc(fn)
        rep.inst(rid, cfg + ':T::read', detail=d)
        if not re.fullmatch(r'call:source::Source::read\(call:std::ops::Deref::deref\(param1\),param2\)', d):
            rep.viol(rid, 'T::read:forward', 'Deref wrapper read returns %s' % d, loc(fn))
    fn = internal_fn(crate, 'read')
    if rep.anchor(rid, 'fn LexerInternal::read [%s]' % cfg, fn is not None):
        d = ret_desc(fn)
        rep.inst(rid, cfg + ':LexerInternal::read', detail=d)
        if d != 'call:source::Source::read(self.source,param2)':
            rep.viol(rid, 'LexerInternal::read:forward', 'LexerInternal::read returns %s, expected self.source.read(offset)' % d, loc(fn))


def rule_read_forbid(rep, crate, cfg):
    rid = rep.rule('M-C05d', 'Source::read (forbid_unsafe build): the chunk is taken from the checked sub-slice offset..offset.checked_add(Chunk::SIZE)? of the same source (same Some-condition as the raw read)', floor=2)
    for ty in ('str', r'\[u8\]'):
        fn = crate.one(r'^<%s as source::Source>::read$' % ty)
        tyn = ty.replace('\\', '')
        if not rep.anchor(rid, 'fn <%s as Source>::read [%s]' % (tyn, cfg), fn is not None):
            continue
        rep.inst(rid, '%s:%s::read' % (cfg, tyn))
        where = loc(fn)
        if tyn == 'str' and re.fullmatch(r'call:<\[u8\] as source::Source>::read\(call:core::str::<impl str>::as_bytes\(param1\),param2\)', ret_desc(fn)):
            continue
        fs = find_calls(fn, r'source::Chunk::from_slice$')
        if len(fs) != 1:
            rep.viol(rid, '%s::read:from_slice' % tyn, 'expected exactly one Chunk::from_slice call', where)
            continue
        sl = fn.slice(fs[0][1]['args'][0])
        slice_calls = [(b, t) for b, t in sl.call_terms if re.search(r'(source::Source>?::slice|::get)$', fn.callee_name(t))]
        if len(slice_calls) != 1:
            rep.viol(rid, '%s::read:no-checked-slice' % tyn, 'from_slice argument does not come from one checked slice()/get() call', where)
            continue
        if not re.search(r'^<\[u8\] as source::Source>::slice$|slice::<impl \[T\]>::get$', fn.callee_name(slice_calls[0][1])):
            rep.viol(rid, '%s::read:not-byte-slice' % tyn, 'the chunk is taken with %s: only a byte-level sub-slice has the same Some-condition as the raw read (a str sub-slice also fails inside multi-byte characters)' % fn.callee_name(slice_calls[0][1]), where)
        b, t = slice_calls[0]
        rng = trace(fn, t['args'][1])
        ok = False
        if rng[0] == 'agg' and rng[2]['rhs']['kind'].get('adt') == 'std::ops::Range':
            ops = rng[2]['rhs']['ops']
            start = desc(fn, ops[0])
            es = fn.slice(ops[1])
            chk = [(bb, tt) for bb, tt in es.call_terms if re.search(r'::checked_add$', fn.callee_name(tt))]
            if start == 'param2' and len(chk) == 1 and desc(fn, chk[0][1]['args'][0]) == 'param2' and is_size_const(chk[0][1]['args'][1]) \
                    and not (es.binops & ARITH_BINOPS) and not es.calls_matching(UNCHECKED_ARITH_CALLS + r'|unwrap_or'):
                ok = True
        if not ok:
            rep.viol(rid, '%s::read:range' % tyn, 'the sub-slice range is not offset..offset.checked_add(Chunk::SIZE)?', loc(fn, t['line']))
        recv = fn.slice(t['args'][0])
        if 1 not in recv.params:
            rep.viol(rid, '%s::read:receiver' % tyn, 'the sub-slice is not taken from self', loc(fn, t['line']))
        for kind, bi, si, x in fn.defs().get(0, []):
            if bi not in fn.live_blocks():
                continue
            nm = fn.callee_name(x) if kind == 'call' else ''
            if not re.search(r'(Chunk::from_slice|FromResidual<.*>>::from_residual)$', nm):
                rep.viol(rid, '%s::read:return-shape' % tyn, 'unexpected definition of the return value', where)


# --------------------------------------------------------------------------------------------
# C13: callback return value mapping table
# --------------------------------------------------------------------------------------------

STD_VARIANTS = {'std::option::Option': ['None', 'Some'], 'std::result::Result': ['Ok', 'Err']}


def variants_of(crate, ty):
    base = ty.split('<')[0]
    if base in STD_VARIANTS:
        return STD_VARIANTS[base]
    if base in crate.enums:
        return [v[0] for v in crate.enums[base]]
    return None


def payload_kind(fn, op):
    d = desc(fn, op)
    if 'std::ops::Fn::call(' in d or 'FnOnce::call_once(' in d or 'FnMut::call_mut(' in d:
        return 'con'
    if 'std::convert::Into::into(' in d or 'std::convert::From::from(' in d:
        return 'into'
    if d.startswith('param1') or d.startswith('self') or (fn.kind == 'Closure' and d.startswith('param2')):
        return 'id'
    return '?' + d


def result_aggs(fn, edge=None):
    """`_0 = <CallbackResult|SkipResult>::Variant(..)` assignments (dominated by edge if given)"""
    out = []
    for kind, bi, si, x in fn.defs().get(0, []):
        if bi not in fn.live_blocks():
            continue
        if edge is not None and not fn.edge_dominates(edge, bi):
            continue
        if kind == 'stmt' and x['rhs']['rv'] == 'agg' and x['rhs']['kind'].get('adt') in ('internal::CallbackResult', 'internal::SkipResult'):
            ops = x['rhs']['ops']
            out.append((x['rhs']['kind']['variant'], payload_kind(fn, ops[0]) if ops else None))
        else:
            out.append(('?', None))
    return out


def closure_result(crate, fn, op):
    """(variant, payload kind) built by the closure passed as `op`, or by a plain aggregate operand"""
    r = trace(fn, op)
    if r[0] == 'const' and r[1].get('fn'):
        # a tuple-variant constructor used as a function: `CallbackResult::Emit` maps the value as it is
        m = re.search(r'internal::(CallbackResult|SkipResult)(?:::<.*>)?::(\w+)$', r[1]['fn'])
        if m:
            return (m.group(2), 'id')
        return ('?fn:' + r[1]['fn'], None)
    if r[0] == 'agg':
        kd = r[2]['rhs']['kind']
        if 'closure' in kd:
            clo = crate.fns.get(kd['closure'])
            if clo is None:
                return ('?closure', None)
            res = result_aggs(clo)
            return res[0] if len(res) == 1 else ('?multi%d' % len(res), None)
        if kd.get('adt') in ('internal::CallbackResult', 'internal::SkipResult'):
            ops = r[2]['rhs']['ops']
            return (kd['variant'], payload_kind(fn, ops[0]) if ops else None)
    return ('?' + r[0], None)


def mapping_of(crate, fn):
    """input variant -> (output variant, payload kind)"""
    sw = [b for b in switches(fn)]
    rr = ret_root(fn)
    if rr and rr[0] == 'call' and desc(fn, rr[2]['args'][0]) in ('param1', 'self'):
        nm = fn.callee_name(rr[2])
        a = rr[2]['args']
        # combinator forms of the same case analysis
        if re.search(r'result::Result::<T, E>::map_or_else$', nm) and len(a) == 3:
            return {'Err': closure_result(crate, fn, a[1]), 'Ok': closure_result(crate, fn, a[2])}
        if re.search(r'option::Option::<T>::map_or_else$', nm) and len(a) == 3:
            return {'None': closure_result(crate, fn, a[1]), 'Some': closure_result(crate, fn, a[2])}
        if re.search(r'option::Option::<T>::map_or$', nm) and len(a) == 3:
            return {'None': closure_result(crate, fn, a[1]), 'Some': closure_result(crate, fn, a[2])}
        if re.search(r'result::Result::<T, E>::map_or$', nm) and len(a) == 3:
            return {'Err': closure_result(crate, fn, a[1]), 'Ok': closure_result(crate, fn, a[2])}
    # composition form: SkipRetVal::construct(self).into() / CallbackResult::from(..): the documented From<SkipResult>
    # conversion (Skip -> Skip, Error(e) -> Error(e), checked as its own row) applied to the skip mapping of the same type
    if rr and rr[0] == 'call' and re.search(r'(convert::Into<U>>::into|CallbackResult<.*> as std::convert::From<.*SkipResult.*>>::from)$', fn.callee_name(rr[2])) and fn.locals[0].startswith('internal::CallbackResult'):
        inner = trace(fn, rr[2]['args'][0])
        if inner[0] == 'call' and re.search(r'internal::SkipRetVal<.*>>::construct$', fn.callee_name(inner[2])) and desc(fn, inner[2]['args'][0]) in ('param1', 'self'):
            g = crate.fns.get(fn.callee_name(inner[2]))
            if g is not None and g.name != fn.name:
                im = mapping_of(crate, g)
                conv = {'Skip': 'Skip', 'Error': 'Error'}
                return {k: ((conv.get(v[0], '?' + str(v[0])), v[1])) for k, v in im.items()}
    if not sw:
        r = result_aggs(fn)
        return {'*': r[0]} if len(r) == 1 else {'*': ('?multi', None)}
    sb = sw[0]
    term = fn.blocks[sb]['term']
    root = trace(fn, term['discr'])
    m = {}
    if root[0] == 'discr' and root[2]['rhs']['place']['local'] == 1:
        names = variants_of(crate, fn.locals[1])
        if names is None:
            return {'?': ('unknown enum ' + fn.locals[1], None)}
        for v, tgt in term['targets']:
            if v == 'otherwise':
                rest = [n for i, n in enumerate(names) if str(i) not in [x for x, _ in term['targets']]]
                if not rest:
                    continue
                label = '|'.join(rest)
            else:
                label = names[int(v)] if int(v) < len(names) else '?%s' % v
            r = result_aggs(fn, (sb, tgt))
            m[label] = r[0] if len(r) == 1 else ('?multi%d' % len(r), None)
    elif root[0] == 'param' and root[1] == 1 and fn.locals[1] == 'bool':
        e = bool_edges(fn, sb)
        for label, tgt in (('true', e[0]), ('false', e[1])):
            r = result_aggs(fn, (sb, tgt))
            m[label] = r[0] if len(r) == 1 else ('?multi%d' % len(r), None)
    else:
        return {'?': ('unrecognised dispatch', None)}
    return m


# (trait, self type) -> expected mapping.  Source: book/src/callbacks.md and the rustdoc of Filter, FilterResult, Skip.
CB = 'internal::CallbackRetVal'
SK = 'internal::SkipRetVal'
MAPPING_TABLE = {
    (CB, 'T'): {'*': ('Emit', 'con')},
    (CB, 'std::result::Result<T, E>'): {'Ok': ('Emit', 'con'), 'Err': ('Error', 'into')},
    (CB, 'std::option::Option<T>'): {'Some': ('Emit', 'con'), 'None': ('DefaultError', None)},
    (CB, 'Filter<T>'): {'Emit': ('Emit', 'con'), 'Skip': ('Skip', None)},
    (CB, 'FilterResult<T, E>'): {'Emit': ('Emit', 'con'), 'Skip': ('Skip', None), 'Error': ('Error', 'into')},
    (CB, 'bool'): {'true': ('Emit', 'con'), 'false': ('DefaultError', None)},
    (CB, 'Skip'): {'*': ('Skip', None)},
    (CB, 'std::result::Result<Skip, E>'): {'Ok': ('Skip', None), 'Err': ('Error', 'into')},
    (CB, 'L'): {'*': ('Emit', 'id')},
    (CB, 'std::result::Result<L, E>'): {'Ok': ('Emit', 'id'), 'Err': ('Error', 'into')},
    (CB, 'Filter<L>'): {'Emit': ('Emit', 'id'), 'Skip': ('Skip', None)},
    (CB, 'FilterResult<L, E>'): {'Emit': ('Emit', 'id'), 'Skip': ('Skip', None), 'Error': ('Error', 'into')},
    (SK, '()'): {'*': ('Skip', None)},
    (SK, 'Skip'): {'*': ('Skip', None)},
    (SK, 'std::result::Result<(), E>'): {'Ok': ('Skip', None), 'Err': ('Error', 'into')},
    (SK, 'std::result::Result<Skip, E>'): {'Ok': ('Skip', None), 'Err': ('Error', 'into')},
    ('std::convert::From', "internal::CallbackResult<'a, L>"): {'Skip': ('Skip', None), 'Error': ('Error', 'id')},
}


def rule_mapping_table(rep, crate, cfg):
    rid = rep.rule('M-C13a', 'every impl of CallbackRetVal / SkipRetVal / From<SkipResult> maps each input variant to the documented CallbackResult variant (T,(),true -> Emit; None,false -> DefaultError; Err(e) -> Error(e.into()); Skip -> Skip); no undocumented impl, no missing row', floor=17)
    seen = set()
    for imp in crate.impls:
        tr = imp.get('trait')
        if tr not in (CB, SK, 'std::convert::From'):
            continue
        st = imp.get('self_ty')
        if tr == 'std::convert::From' and 'CallbackResult' not in st:
            continue
        key = (tr, st)
        fns = [crate.fns[n] for n in imp['items'] if n in crate.fns]
        if len(fns) != 1:
            rep.viol(rid, 'impl-shape:%s:%s' % (tr, st), 'impl %s for %s does not have exactly one method body' % (tr, st), 'src/internal.rs')
            continue
        fn = fns[0]
        got = mapping_of(crate, fn)
        rep.inst(rid, '%s:%s for %s' % (cfg, tr.split('::')[-1], st), detail=got)
        if key not in MAPPING_TABLE:
            rep.viol(rid, 'undocumented-impl:%s:%s' % (tr.split('::')[-1], st), 'impl %s for %s is not in the documented table (maps %s)' % (tr, st, got), loc(fn))
            continue
        seen.add(key)
        want = MAPPING_TABLE[key]
        if {k: tuple(v) for k, v in got.items()} != {k: tuple(v) for k, v in want.items()}:
            rep.viol(rid, 'mapping:%s:%s' % (tr.split('::')[-1], st), 'impl %s for %s maps %s, documented: %s' % (tr, st, got, want), loc(fn))
        # the constructor argument must be the trait's `con` parameter and the payload the matched value
        # output type
        for kind, bi, si, x in fn.defs().get(0, []):
            if kind == 'stmt' and x['rhs']['rv'] == 'agg':
                adt = x['rhs']['kind'].get('adt')
                want_adt = 'internal::SkipResult' if tr == SK else 'internal::CallbackResult'
                if adt != want_adt:
                    rep.viol(rid, 'mapping-type:%s:%s' % (tr.split('::')[-1], st), 'constructs %s' % adt, loc(fn, x['line']))
    for key in MAPPING_TABLE:
        if key not in seen:
            rep.viol(rid, 'missing-impl:%s:%s' % (key[0].split('::')[-1], key[1]), 'documented row without impl: %s for %s' % key, 'src/internal.rs')


# --------------------------------------------------------------------------------------------
# C02 / C04 / C12: rounding
# --------------------------------------------------------------------------------------------

def rule_rounding(rep, crate, cfg):
    rid = rep.rule('M-C02a', 'end_to_boundary stores Source::find_boundary(offset) and nothing else; the find_boundary that applies to str returns its index only on the true edge of is_char_boundary(index) and only ever increases it; for [u8] it is the identity; the Deref wrapper forwards', floor=4)
    fn = internal_fn(crate, 'end_to_boundary')
    if rep.anchor(rid, 'fn LexerInternal::end_to_boundary [%s]' % cfg, fn is not None):
        stores, escapes = self_effects(fn)
        rep.inst(rid, cfg + ':end_to_boundary', detail=stores)
        want = [('token_end', 'call:source::Source::find_boundary(self.source,param2)')]
        if [(f, v) for f, v, _l in stores] != want or escapes:
            rep.viol(rid, 'end_to_boundary:effect', 'end_to_boundary has effects %s %s, expected exactly token_end := self.source.find_boundary(offset)' % ([(f, v) for f, v, _l in stores], escapes), loc(fn))
    fn, how = source_method(crate, 'str', 'find_boundary')
    if rep.anchor(rid, 'Source::find_boundary for str [%s]' % cfg, fn is not None):
        rep.inst(rid, cfg + ':str::find_boundary', detail=dict(body=fn.name, via=how))
        ok = True
        why = ''
        # returns local 2 (index) only on the true edge of is_char_boundary(self, index)
        guards = []
        for sb in switches(fn):
            c = cond_of_switch(fn, sb)
            if c and c['root'][0] == 'call' and re.search(r'is_char_boundary$', fn.callee_name(c['root'][2])):
                t = c['root'][2]
                a1 = op_place(t['args'][1]) and fn.slice(t['args'][1], through_calls=False)
                if a1 is not None and 2 in a1.locals and desc(fn, t['args'][0]) in ('param1', 'self'):
                    guards.append(c)
        rets = [d for d in fn.defs().get(0, []) if d[1] in fn.live_blocks()]
        # the candidate variable: what is returned (the index parameter itself or a local initialised from it)
        cand = None
        for kind, bi, si, x in rets:
            if kind == 'stmt' and x['rhs']['rv'] == 'use' and op_place(x['rhs']['a']) and not op_place(x['rhs']['a'])['proj']:
                cand = op_place(x['rhs']['a'])['local']
        guards = []
        for sb in switches(fn):
            c = cond_of_switch(fn, sb)
            if c and c['root'][0] == 'call' and re.search(r'is_char_boundary$', fn.callee_name(c['root'][2])):
                t = c['root'][2]
                a1 = op_place(t['args'][1]) and fn.slice(t['args'][1], through_calls=False)
                if a1 is not None and cand in a1.locals and desc(fn, t['args'][0]) in ('param1', 'self'):
                    guards.append(c)
        if cand is None:
            ok, why = False, 'the returned value is not a plain variable'
        if not guards:
            ok, why = False, 'no is_char_boundary(<returned variable>) guard'
        for kind, bi, si, x in rets:
            if kind != 'stmt' or x['rhs']['rv'] != 'use' or (op_place(x['rhs']['a']) or {}).get('local') != cand:
                ok, why = False, 'returns something other than the candidate variable'
            elif not any(fn.edge_dominates((g['bb'], g['t']), bi) for g in guards):
                ok, why = False, 'the candidate is returned without passing is_char_boundary'
        # every definition of the candidate is `index` (the parameter) or `candidate + positive constant`
        for kind, bi, si, x in fn.defs().get(cand, []) if cand is not None else []:
            if kind != 'stmt':
                ok, why = False, 'candidate assigned from a call'
                continue
            d0 = desc(fn, x['rhs']['a']) if x['rhs']['rv'] == 'use' else None
            if d0 == 'param2':
                continue
            sl = fn.slice(x['rhs'].get('a') or x['rhs'].get('place') or {'op': 'const'})
            bops = sl.binops - {'Eq', 'Ne', 'Lt', 'Le', 'Gt', 'Ge'}
            if not bops <= {'Add', 'AddWithOverflow', 'AddUnchecked'} or not bops:
                ok, why = False, 'candidate updated with %s' % sorted(bops)
            if sl.calls:
                ok, why = False, 'candidate updated through calls %s' % sorted(sl.calls)
            ints = {v for v in sl.int_consts()}
            if 0 in ints or not ints:
                ok, why = False, 'candidate increment is not a positive constant'
        if how != 'own':
            ok, why = False, 'str uses the identity default'
        if not ok:
            rep.viol(rid, 'str::find_boundary:shape', 'find_boundary for str (%s): %s' % (fn.name, why), loc(fn))
    fn, how = source_method(crate, '[u8]', 'find_boundary')
    if rep.anchor(rid, 'Source::find_boundary for [u8] [%s]' % cfg, fn is not None):
        d = ret_desc(fn)
        rep.inst(rid, cfg + ':[u8]::find_boundary', detail=dict(body=fn.name, via=how, ret=d))
        if d != 'param2':
            rep.viol(rid, '[u8]::find_boundary:identity', 'find_boundary for [u8] (%s) returns %s, expected the identity' % (fn.name, d), loc(fn))
    fn, how = source_method(crate, 'T', 'find_boundary')
    if rep.anchor(rid, 'Source::find_boundary for Deref wrappers [%s]' % cfg, fn is not None):
        d = ret_desc(fn)
        rep.inst(rid, cfg + ':T::find_boundary', detail=dict(body=fn.name, via=how, ret=d))
        if d != 'call:source::Source::find_boundary(call:std::ops::Deref::deref(param1),param2)':
            rep.viol(rid, 'T::find_boundary:forward', 'find_boundary for Deref wrappers (%s) returns %s: it does not forward to the target' % (fn.name, d), loc(fn))


def rule_next_resumes(rep, crate, cfg):
    rid = rep.rule('M-C02b', 'Iterator::next sets token_start := token_end before calling Logos::lex (every item starts where the previous one ended)', floor=1)
    pat = r'^<lexer::Lexer<.*> as std::iter::Iterator>::next$'
    fn = crate.one(pat)
    if not rep.anchor(rid, 'fn Lexer::next [%s]' % cfg, fn is not None):
        return
    stores, escapes = self_effects(fn)
    rep.inst(rid, cfg + ':next', detail=[(f, v) for f, v, _l in stores])
    if [(f, v) for f, v, _l in stores] != [('token_start', 'self.token_end')]:
        rep.viol(rid, 'next:effect', 'Lexer::next stores %s, expected token_start := token_end' % [(f, v) for f, v, _l in stores], loc(fn))
    calls = find_calls(fn, r'Logos::lex$')
    if len(calls) != 1:
        rep.viol(rid, 'next:lex', 'Lexer::next does not call Logos::lex exactly once', loc(fn))
    for bi, t in calls:
        sb = [b for b, _s, st in stores_to_field(fn, 'token_start')]
        for hb, ht in fn.calls():
            h = private_self_helper(crate, fn.callee_name(ht))
            if h is not None and stores_to_field(h, 'token_start'):
                sb.append(hb)
        if not any(fn.dominates_block(b, bi) for b in sb):
            rep.viol(rid, 'next:order', 'the store does not dominate the call of Logos::lex', loc(fn))
    d = ret_desc(fn)
    if d != 'call:Logos::lex(param1)' and d != 'call:Logos::lex(self)':
        rep.viol(rid, 'next:return', 'Lexer::next returns %s, expected Token::lex(self)' % d, loc(fn))


# --------------------------------------------------------------------------------------------
# witnesses
# --------------------------------------------------------------------------------------------

def rule_witnesses(rep, ctx):
    import facts
    rid = rep.rule('W', 'compile-fail witnesses (with compiling twins): Lexer\'s span fields cannot be written or struct-constructed outside the crate (E0616, E0451), morph requires the same Source type (E0271), clone and the accessors take &self while bump needs &mut self (E0596)', floor=12)
    res = facts.witness_facts(ctx.hash)
    for k, v in sorted(res.items()):
        rep.inst(rid, k, detail=v)
        if v != 'ok':
            if k.split('#')[0].endswith(':compile_fail'):
                rep.viol(rid, 'witness:' + k, 'witness %s no longer fails to compile with the expected error code: the type-level guarantee it documents is gone' % k, 'witness/src/lib.rs')
            else:
                rep.viol(rid, 'witness-twin:' + k, 'the compiling twin %s no longer compiles: the witness next to it may fail for an unrelated reason' % k, 'witness/src/lib.rs')



# --------------------------------------------------------------------------------------------
# positive controls on fixtures/mir-rt (a frozen copy of src/ with seeded defects)
# --------------------------------------------------------------------------------------------

RT_CONTROLS = {
    'M-C15a': lambda r, c: rule_bump(r, c, 'fixture-rt'),
    'M-C15b': lambda r, c: rule_is_boundary(r, c, 'fixture-rt'),
    'M-C14c': lambda r, c: rule_field_correspondence(r, c, 'fixture-rt'),
    'M-C05a': lambda r, c: rule_unsafe_inventory(r, c, 'fixture-rt'),
    'M-C13a': lambda r, c: rule_mapping_table(r, c, 'fixture-rt'),
}


def rt_controls(rep, ctx, rids):
    import core
    crid = rep.rule('M-controls', 'positive controls: the runtime rules fire on fixtures/mir-rt, a frozen copy of src/ carrying the seeded defects C15-a, C15-b, C14-b, C05-a, C13-a')
    crate = ctx.mir('fixture-rt')['logos']
    for rid in rids:
        probe = core.Report(rep.pid, rep.tier)
        RT_CONTROLS[rid](probe, crate)
        real = [v for v in probe.rules.get(rid, dict(violations=[]))['violations'] if not v['key'].startswith('anchor-missing')]
        rep.inst(crid, rid)
        rep.control(crid, '%s on fixtures/mir-rt' % rid, bool(real))
