"""Rules over the MIR of the runtime crate `logos` (src/)."""
import re

from mirlib import (bool_edges, cond_of_switch, const_int, fields_of, find_calls, has_raw_deref, loc,
                    mut_uses_of_field, op_place, place_str, stores_to_field, switches, trace, trace_place)

LEXER_FIELDS = ['source', 'is_prefix', 'token_start', 'token_end', 'extras']
PRIVATE_FIELDS = ['source', 'is_prefix', 'token_start', 'token_end']

ARITH_BINOPS = {'Add', 'AddWithOverflow', 'AddUnchecked', 'Sub', 'SubWithOverflow', 'SubUnchecked',
                'Mul', 'MulWithOverflow', 'MulUnchecked', 'Shl', 'Shr', 'BitOr', 'BitAnd', 'BitXor'}
UNCHECKED_ARITH_CALLS = r'(wrapping_|unchecked_|overflowing_|saturating_|strict_)'


def short(name):
    """Stable short name of a function: drop generic parameter lists."""
    return re.sub(r"<'source, Token>|::<'source, Token>", '', name)


def lexer_fn(crate, meth):
    return crate.one(r"^lexer::Lexer::<.*>::%s$" % meth)


def internal_fn(crate, meth):
    return crate.one(r"^<lexer::Lexer<.*> as internal::LexerInternal<.*>>::%s$" % meth)


def is_self_field_store(fn, st):
    """store whose destination is (a field of) *self (local 1) or the return place aggregate"""
    return st['lhs']['local'] == 1 and any(p['k'] == 'field' for p in st['lhs']['proj'])


def lexer_aggregates(fn):
    out = []
    for bi, si, st in fn.stmts():
        rhs = st['rhs']
        if rhs['rv'] == 'agg' and rhs['kind'].get('adt') == 'lexer::Lexer' and bi in fn.live_blocks():
            out.append((bi, si, st))
    return out


# --------------------------------------------------------------------------------------------
# writer sets
# --------------------------------------------------------------------------------------------

def writers_of(crate, field):
    """Functions of the crate that can change Lexer.<field>: direct stores through a place ending in
    the field, &mut borrows of it, and constructions of a Lexer aggregate."""
    out = {}
    for fn in crate.fns.values():
        kinds = set()
        for bi, si, st in stores_to_field(fn, field):
            base_ty = fn.locals[st['lhs']['local']]
            if 'Lexer' in base_ty or 'Self' in base_ty:
                kinds.add('store')
        for bi, si, st in mut_uses_of_field(fn, field):
            base_ty = fn.locals[st['rhs']['place']['local']]
            if 'Lexer' in base_ty:
                kinds.add('mut-borrow')
        if lexer_aggregates(fn):
            kinds.add('construct')
        if kinds:
            out[fn.name] = kinds
    return out


def check_writer_set(rep, rid, crate, field, allowed, cfg):
    """allowed: dict short-name-regex -> reason"""
    ws = writers_of(crate, field)
    for name, kinds in sorted(ws.items()):
        ok = [pat for pat in allowed if re.search(pat, name)]
        rep.inst(rid, '%s:%s:%s' % (cfg, field, short(name)), detail=dict(writer=name, kinds=sorted(kinds)))
        if not ok:
            fn = crate.fns[name]
            rep.viol(rid, '%s:writer:%s' % (field, short(name)),
                     'function %s writes Lexer.%s (%s) but is not in the audited writer set' % (name, field, ','.join(sorted(kinds))),
                     loc(fn))
    for pat in allowed:
        if not any(re.search(pat, n) for n in ws):
            rep.anchor(rid, 'writer %s of %s [%s]' % (pat, field, cfg), False)


# --------------------------------------------------------------------------------------------
# C15: bump
# --------------------------------------------------------------------------------------------

def rule_bump(rep, crate, cfg):
    rid = rep.rule('M-C15a', 'Lexer::bump: every store to a lexer field is dominated by checked_add (no profile dependent arithmetic) and by the true edge of is_boundary(<the stored value>); no store lies on a path to a panic', floor=1)
    fn = lexer_fn(crate, 'bump')
    if not rep.anchor(rid, 'fn Lexer::bump [%s]' % cfg, fn is not None):
        return
    stores = [(bi, si, st) for bi, si, st in fn.stmts() if bi in fn.live_blocks() and is_self_field_store(fn, st)]
    # any &mut borrow of a field handed to a call counts as a store at the call
    for bi, si, st in fn.stmts():
        rhs = st['rhs']
        if rhs['rv'] == 'ref' and rhs.get('mut') and rhs['place']['local'] == 1 and fields_of(rhs['place']):
            stores.append((bi, si, dict(lhs=rhs['place'], rhs=dict(rv='mutref'), line=st['line'])))
    if not rep.anchor(rid, 'store to token_end in bump [%s]' % cfg, any(fields_of(s[2]['lhs'])[-1:] == ['token_end'] for s in stores)):
        return
    # is_boundary guards
    guards = []
    for sb in switches(fn):
        c = cond_of_switch(fn, sb)
        if c and c['root'][0] == 'call' and re.search(r'is_boundary$', fn.callee_name(c['root'][2])):
            guards.append(c)
    n = 0
    for bi, si, st in stores:
        fld = fields_of(st['lhs'])[-1]
        key = '%s:bump:store:%s:%d' % (cfg, fld, n)
        n += 1
        where = loc(fn, st.get('line'))
        rep.inst(rid, key, detail=dict(block=bi, field=fld))
        if st['rhs']['rv'] == 'mutref':
            rep.viol(rid, 'bump:mutref:%s' % fld, 'bump hands out &mut self.%s: the write cannot be ordered after the check' % fld, where)
            continue
        if st['rhs']['rv'] != 'use':
            rep.viol(rid, 'bump:store-shape:%s' % fld, 'store to self.%s is not a plain move of a checked value (%s)' % (fld, st['rhs']['rv']), where)
            continue
        sl = fn.slice(st['rhs']['a'])
        bad_ops = sl.binops & ARITH_BINOPS
        bad_calls = sl.calls_matching(UNCHECKED_ARITH_CALLS)
        chk = [(b, t) for b, t in sl.call_terms if re.search(r'::checked_add$', fn.callee_name(t))]
        if bad_ops or bad_calls:
            rep.viol(rid, 'bump:unchecked-arith:%s' % fld,
                     'value stored to self.%s is computed with %s: its overflow behaviour depends on the build profile or wraps silently' % (fld, sorted(bad_ops) + sorted(bad_calls)), where)
        if not chk:
            rep.viol(rid, 'bump:no-checked-add:%s' % fld, 'value stored to self.%s does not come from usize::checked_add' % fld, where)
            continue
        # the checked_add must combine the old end and n
        for b, t in chk:
            a0 = fn.slice(t['args'][0], through_calls=False)
            a1 = fn.slice(t['args'][1], through_calls=False)
            srcs = (a0.field_names() | a1.field_names(), a0.params | a1.params)
            if 'token_end' not in srcs[0] or 2 not in srcs[1]:
                rep.viol(rid, 'bump:checked-add-operands', 'checked_add in bump does not add the parameter n to self.token_end', loc(fn, t.get('line')))
        # guard: some is_boundary guard whose argument is the same checked value and whose true edge dominates the store
        ok = False
        for g in guards:
            gt = g['root'][2]
            if len(gt['args']) < 2:
                continue
            gs = fn.slice(gt['args'][1])
            same = {b for b, _t in chk} & {b for b, t in gs.call_terms if re.search(r'::checked_add$', fn.callee_name(t))}
            if gs.binops & ARITH_BINOPS or gs.calls_matching(UNCHECKED_ARITH_CALLS):
                continue
            recv = fn.slice(gt['args'][0], through_calls=False)
            if not same or 'source' not in recv.field_names():
                continue
            if fn.edge_dominates((g['bb'], g['t']), bi):
                ok = True
        if not ok:
            rep.viol(rid, 'bump:unguarded-store:%s' % fld,
                     'store to self.%s is not dominated by the true edge of self.source.is_boundary(<stored value>)' % fld, where)
        # nothing diverges after the store
        for d in fn.diverging_blocks():
            if fn.can_reach(bi, d) and d != bi:
                rep.viol(rid, 'bump:store-before-panic:%s' % fld,
                         'a panic is reachable after the store to self.%s: a caught panic leaves the lexer corrupted' % fld, where)
                break
        # the payload of checked_add may only be used on its Some edge
        other_calls = [c for c in sl.calls if not re.search(r'::checked_add$|^core::option::Option::<T>::(unwrap|expect)$|^std::option::Option::<T>::(unwrap|expect)$', c)]
        if other_calls:
            rep.viol(rid, 'bump:unrecognised-idiom:%s' % fld,
                     'value stored to self.%s flows through %s; only checked_add (+ unwrap/expect or a Some pattern) is an audited idiom' % (fld, sorted(other_calls)), where)
        if not sl.calls_matching(r'Option::<T>::(unwrap|expect)$'):
            for b, t in chk:
                some_ok = False
                for sb in switches(fn):
                    term = fn.blocks[sb]['term']
                    r = trace(fn, term['discr'])
                    if r[0] == 'discr' and r[2]['rhs']['place']['local'] == t['dest']['local']:
                        tg = {v: x for v, x in term['targets']}
                        some_t = tg['1'] if '1' in tg else (tg['otherwise'] if '0' in tg else None)
                        if some_t is not None and fn.edge_dominates((sb, some_t), bi):
                            some_ok = True
                if not some_ok:
                    rep.viol(rid, 'bump:none-reaches-store:%s' % fld, 'the store to self.%s is not dominated by the Some edge of checked_add: on overflow a garbage value would be committed' % fld, where)


def rule_is_boundary(rep, crate, cfg):
    rid = rep.rule('M-C15b', 'Source::is_boundary: [u8] is `index <= len`, str is str::is_char_boundary(index), Deref wrapper forwards', floor=3)
    # [u8]
    fn = crate.one(r'^<\[u8\] as source::Source>::is_boundary$')
    if rep.anchor(rid, '<[u8] as Source>::is_boundary [%s]' % cfg, fn is not None):
        rep.inst(rid, cfg + ':[u8]::is_boundary')
        ok = False
        for rb in fn.return_blocks():
            pass
        r = ret_root(fn)
        if r and r[0] == 'bin':
            rhs = r[2]['rhs']
            a, b = trace(fn, rhs['a']), trace(fn, rhs['b'])
            def is_idx(x): return x[0] == 'param' and x[1] == 2
            def is_len(x): return x[0] == 'call' and re.search(r'(::len$|slice::<impl \[T\]>::len)', fn.callee_name(x[2])) or (x[0] == 'un' and x[2]['rhs'].get('uop') == 'PtrMetadata')
            if rhs['bop'] == 'Le' and is_idx(a) and is_len(b):
                ok = True
            if rhs['bop'] == 'Ge' and is_len(a) and is_idx(b):
                ok = True
        if not ok:
            rep.viol(rid, '[u8]::is_boundary:shape', '<[u8] as Source>::is_boundary does not return `index <= self.len()`', loc(fn))
    fn = crate.one(r'^<str as source::Source>::is_boundary$')
    if rep.anchor(rid, '<str as Source>::is_boundary [%s]' % cfg, fn is not None):
        rep.inst(rid, cfg + ':str::is_boundary')
        r = ret_root(fn)
        ok = r and r[0] == 'call' and re.search(r'is_char_boundary$', fn.callee_name(r[2])) and \
            trace(fn, r[2]['args'][1])[:2] == ('param', 2) and trace(fn, r[2]['args'][0])[:2] == ('param', 1)
        if not ok:
            rep.viol(rid, 'str::is_boundary:shape', '<str as Source>::is_boundary does not return self.is_char_boundary(index)', loc(fn))
    fn = crate.one(r'^<T as source::Source>::is_boundary$')
    if rep.anchor(rid, '<T as Source>::is_boundary [%s]' % cfg, fn is not None):
        rep.inst(rid, cfg + ':T::is_boundary')
        r = ret_root(fn)
        ok = r and r[0] == 'call' and re.search(r'Source::is_boundary$', fn.callee_name(r[2])) and \
            trace(fn, r[2]['args'][1])[:2] == ('param', 2)
        if not ok:
            rep.viol(rid, 'T::is_boundary:shape', 'Deref wrapper is_boundary does not forward its index', loc(fn))


def ret_root(fn):
    """trace of the value assigned to the return place, when it is assigned exactly once (or by one call)."""
    ds = [d for d in fn.defs().get(0, []) if d[1] in fn.live_blocks()]
    if len(ds) != 1:
        return None
    kind, bi, si, x = ds[0]
    if kind == 'call':
        return ('call', bi, x)
    rhs = x['rhs']
    if rhs['rv'] == 'use':
        return trace(fn, rhs['a'])
    if rhs['rv'] == 'bin':
        return ('bin', bi, x)
    if rhs['rv'] == 'agg':
        return ('agg', bi, x)
    if rhs['rv'] == 'un':
        return ('un', bi, x)
    return ('other', rhs)


TOKEN_END_WRITERS = {
    r'^lexer::Lexer::<.*>::with_extras$': 'constructor: 0',
    r'^lexer::Lexer::<.*>::partial_with_extras$': 'constructor: 0',
    r'^lexer::Lexer::<.*>::morph$': 'copies the field',
    r'^<lexer::Lexer<.*> as std::clone::Clone>::clone$': 'copies the field',
    r'^lexer::Lexer::<.*>::bump$': 'checked (M-C15a)',
    r'^<lexer::Lexer<.*> as internal::LexerInternal<.*>>::end$': 'trusted entry for generated code',
    r'^<lexer::Lexer<.*> as internal::LexerInternal<.*>>::end_to_boundary$': 'stores find_boundary(x) (M-C02a)',
}


def rule_token_end_writers(rep, crate, cfg):
    rid = rep.rule('M-C04c', 'closed writer set of Lexer.token_end: {with_extras, partial_with_extras, morph, clone, bump, end, end_to_boundary}', floor=7)
    check_writer_set(rep, rid, crate, 'token_end', TOKEN_END_WRITERS, cfg)
    # fields are private (the set is closed for code outside the crate)
    fields = dict((n, v) for n, v in crate.adts.get('lexer::Lexer', []))
    if rep.anchor(rid, 'struct lexer::Lexer [%s]' % cfg, bool(fields)):
        for f in PRIVATE_FIELDS:
            rep.inst(rid, '%s:private:%s' % (cfg, f), trivial=True)
            if not fields.get(f, '').startswith('Restricted'):
                rep.viol(rid, 'field-visibility:%s' % f, 'Lexer.%s is not private (%s): the writer set is not closed' % (f, fields.get(f)), 'src/lexer.rs')
