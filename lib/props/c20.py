"""C20 No backtracking: a match attempt reads the source left to right."""
from props import gen, rt

ENGINE = 'genscan+mirfacts'
EXPLANATION = ('On every generated lexer of the corpus (both code generators): along every path of every state the symbolic offsets of successive reads never decrease, every offset mutation is += c with c >= 0 '
               'except the bracket of the tail-call jump table (no read in between) and the reset `offset = lex.offset()` directly after lex.trivia() in the Skip arm; transitions hand over the live offset + 1; '
               'outside the fast loop a state performs exactly one dispatch read, inside it each byte is read at most by one chunk read and one byte read: reads <= 3 x bytes examined + 3. '
               'On MIR: LexerInternal::read forwards to Source::read with the given offset and touches no state, and the runtime\'s own rounding (find_boundary) only uses is_char_boundary on the same source.'
               ' Since the E5 engine (G20, kind overrun): no graph state continues reading when the reference automaton is dead, i.e. no byte is read that cannot belong to any match.')


def run(ctx, rep):
    lg = ctx.mir('ws-default')['logos']
    rt.rule_read_bounds(rep, lg, 'ws-default')
    rt.rule_frames(rep, lg, 'ws-default')
    rid = rep.rule('M-C20a', 'the runtime reads the source only in Source::read (called by LexerInternal::read): no other function of crate logos reachable from generated code calls read or indexes the source', floor=1)
    import re
    n = 0
    for fn in lg.fns.values():
        for bi, t in fn.calls():
            name = fn.callee_name(t)
            if re.search(r'source::Source::read$|Source>::read$', name):
                n += 1
                rep.inst(rid, 'read-call:%s' % rt.short(fn.name))
                if not re.search(r'LexerInternal<.*>>::read$|^<T as source::Source>::read$|^<str as source::Source>::read$', fn.name):
                    rep.viol(rid, 'extra-read:%s' % rt.short(fn.name), '%s reads the source (calls %s): reads outside the generated left-to-right walk' % (fn.name, name), rt.loc(fn, t['line']))
    for m in ('end_to_boundary', 'end', 'trivia', 'offset', 'is_prefix'):
        fn = rt.internal_fn(lg, m)
        if fn is not None:
            for bi, t in fn.calls():
                if re.search(r'::read$|as_bytes$|::get$|get_unchecked$|Index', fn.callee_name(t)):
                    rep.viol(rid, 'internal-reads:%s' % m, 'LexerInternal::%s reads the source (%s)' % (m, fn.callee_name(t)), rt.loc(fn, t['line']))
    gen.rules_c20(ctx, rep)
    rep.trusted += ['rustc nightly MIR', 'rustc macro expansion', 'syn', 'engines/genscan', 'lib/genlib.py']
