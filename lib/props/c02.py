"""C02 Error items follow the documented span rule and lexing recovers."""
from props import cg, rt

ENGINE = 'genscan+mirfacts'
EXPLANATION = ('Clause claim. On generated code (every corpus definition, both back ends): the error arm of _get_action ends the span at end_to_boundary(max(offset of the fatal byte, start + 1)) and yields '
               'the default error / error callback; every reachable state can still reach a recording state (trim automaton: the walk dies at the first non-viable byte). On MIR: end_to_boundary stores '
               'find_boundary(offset) only, find_boundary for str rounds forward to a char boundary and is the identity for bytes, next() resumes at the previous end; in Graph::new a late accept is cleared only under a predicate universal over the predecessors (M-C02g), so no viable path loses its only recording state before dead-end pruning. Not decided: that the trim automaton\'s viable prefixes are exactly those of the patterns (C01).'
               ' Since the E5 engine: per definition, the graph is compared with the regex-automata DFA it was built from (G20): the walk stops exactly where the reference can no longer reach a match (kinds stop-early / overrun), and the generated code equals that graph (G19).')


def run(ctx, rep):
    cfgs = ['ws-default'] + (['logos-forbid'] if ctx.tier == 'thorough' else [])
    for cfg in cfgs:
        lg = ctx.mir(cfg)['logos']
        rt.rule_rounding(rep, lg, cfg)
        rt.rule_next_resumes(rep, lg, cfg)
        rt.rule_mapping_table(rep, lg, cfg)      # the error value a pattern callback supplies reaches the item unchanged
    # a late accept is dropped only when every predecessor records the leaf early (otherwise viable paths are pruned)
    cg.rule_late_accept_removal(rep, ctx.mir('ws-default')['logos_codegen'])
    cg.cg_controls(rep, ctx, [('M-C02g', cg.rule_late_accept_removal)])
    rep.trusted += ['rustc nightly MIR', 'engines/mirfacts', 'engines/genscan + lib/genlib.py']
    from props import gen
    gen.rules_c02(ctx, rep)
