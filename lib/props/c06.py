"""C06 Tail-call and state-machine code generators behave identically."""
from props import gen

ENGINE = 'genscan'
LEVEL = 'translation_validation'
TECHNIQUE = 'static translation validation: abstract interpretation of both generated lexers to labelled transition systems, compared for equality with each other and (state by state) with the graph the derive prints with its debug feature; acyclic call graph for the stack bound'
EXPLANATION = ('Translation validation on generated source: for every definition of the corpus the labelled transition system extracted (by abstract interpretation over the 256-value byte domain) from the '
               'tail-call lexer is compared for equality with the one extracted from the state-machine lexer: same root, states, self-loop byte sets, records (leaf, early/late), byte->state maps, end-of-input '
               'edges, prefix/root guards and fall-through; the shared items (_get_action, _make_error, LogosLeaf, lookup tables) must be token-identical. Both are interpreted by the same abstract machine, '
               'so equal systems yield equal results, spans and callback invocations. Stack bound: the state-machine lexer declares no state functions, never re-enters lex, and its generated items '
               'have an acyclic call graph, so its stack depth is a constant.'
               " Since the E5 engine: each back end's transition system is additionally compared, state by state, with the graph the derive printed in the same run (G19), and that graph with the reference DFA (G20).")


def run(ctx, rep):
    gen.rules_c06(ctx, rep)
    rep.trusted += ['rustc macro expansion (-Zunpretty=expanded)', 'syn', 'engines/genscan', 'lib/genlib.py (the same extractor is applied to both sides)']
    rep.assumptions += ['definitions outside the corpus are covered only through template-shape coverage']
