"""C13 Callback results map to lexer output as documented; Skip is transparent."""
from props import rt

ENGINE = 'mirfacts+genscan'
EXPLANATION = ('All impls of CallbackRetVal, SkipRetVal and From<SkipResult> are enumerated from the type checker and, for each, the map '
               'input variant -> constructed CallbackResult variant (+ payload: constructor applied / value itself / err.into()) is read off the MIR and '
               'compared with the documented table, exhaustively (unknown impl or missing row is a violation). The generated action dispatch, the '
               'one-callback-call-per-leaf shape and the Skip restart sequence are decided on generated code (genscan rules G9a-c).'
               ' Since the E5 engine: the leaf a state records in the generated code is the leaf of the printed graph (G19), which is the highest-priority pattern of the reference match state (G20).')


def run(ctx, rep):
    cfgs = ['ws-default'] + (['logos-forbid'] if ctx.tier == 'thorough' else [])
    for cfg in cfgs:
        crate = ctx.mir(cfg)['logos']
        rt.rule_mapping_table(rep, crate, cfg)
        rt.rule_bump(rep, crate, cfg)            # bytes bumped inside a callback extend the item: bump accepts every valid position
        rt.rule_is_boundary(rep, crate, cfg)
        rt.rule_frames(rep, crate, cfg)
    rep.analysed['configs'] = cfgs
    # the callback and the variant kind a definition was given reach the generator unchanged
    from props import cg
    cg.rule_leaf_writers(rep, ctx.mir('ws-default')['logos_codegen'])
    cg.rule_sites(rep, ctx.mir('ws-default')['logos_codegen'], want=('C10',))
    cg.rule_leaf_sites_complete(rep, ctx.mir('ws-default')['logos_codegen'])
    rt.rt_controls(rep, ctx, ['M-C13a'])
    rep.trusted += ['rustc nightly MIR construction', 'engines/mirfacts']
    rep.assumptions += ['user callbacks are pure functions of the matched text (the property\'s quantifier)']
    from props import gen
    gen.rules_c13(ctx, rep)
