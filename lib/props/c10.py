"""C10 Literal tokens match verbatim; ignore(case) is regex (?i)."""
from props import cg

ENGINE = 'mirfacts+genscan'
EXPLANATION = ('Sibling cross-check of the three sites in logos_codegen::generate that turn a Definition into a Leaf (skip, token, regex), on type-checked MIR: '
               'each site must consume literal, priority, callback, ignore_flags (and allow_greedy for regex/skip); the ignore_case argument of Pattern::compile '
               'must be the definition\'s own flag; a token without ignore(case) must bypass the regex parser through Pattern::compile_lit (Hir::literal of the raw bytes), '
               'with ignore(case) it is compiled from Literal::escape(true); Pattern::compile hands unicode/ignore_case to the regex parser builder. '
               'IgnoreFlags::ignore_case is written by parse_ident only (M-C10d). Decides that the flag and the literal reach regex-syntax unaltered at every site; not that regex-syntax\'s escaping / case folding denote the claimed languages.'
               ' Added in round 8: ignore(case) leaves the default priority of a token alone (M-C09a: twice the byte length of the literal value, not of its escaped form) and no cache or counter is shared between compilations (M-C16b).')


def run(ctx, rep):
    crate = ctx.mir('ws-default')['logos_codegen']
    cg.rule_sites(rep, crate, want=('C10', 'C09'))      # ignore(case) leaves the priority of a token alone: 2 x byte length of the literal, not of its escaped form
    cg.rule_compile_lit(rep, crate)
    cg.rule_literal_escape(rep, crate)
    # a literal character counts once whether it is a Literal or (under ignore(case)) a class: ignore(case) leaves the default priority alone
    cg.rule_complexity(rep, crate)
    cg.rule_ignore_case_writers(rep, crate)
    # what a definition compiles to depends on that definition alone: no cache or counter shared between compilations (a cache keyed
    # without the ignore(case) flag hands a later definition the case sensitivity of an earlier one)
    from props import c16
    crates = ctx.mir('ws-default')
    c16.rule_entropy(rep, [(cn, crates[cn]) for cn in ('logos_codegen', 'logos_cli', 'logos_derive') if cn in crates])
    # a literal is compared with the source's own bytes in both runtimes (read(offset) is the byte-level sub-slice at offset)
    from props import rt
    rt.rule_read_bounds(rep, ctx.mir('ws-default')['logos'], 'ws-default')
    rt.rule_read_forbid(rep, ctx.mir('logos-forbid')['logos'], 'logos-forbid')
    # a str subpattern spliced into a byte pattern keeps its own Unicode mode, on which the kind of case folding depends
    cg.rule_subpatterns(rep, crate)
    if ctx.tier == 'thorough':
        crate2 = ctx.mir('codegen-sm')['logos_codegen']
        cg.rule_sites(rep, crate2, want=('C10',))
    cg.cg_controls(rep, ctx, [('M-C10c', cg.rule_literal_escape)])
    rep.trusted += ['rustc nightly MIR', 'engines/mirfacts', 'regex-syntax: escape(), (?i) semantics, Hir::literal']
    from props import gen
    gen.rules_c10(ctx, rep)
