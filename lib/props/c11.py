"""C11 Subpattern references behave as scoped textual inclusion."""
from props import cg

ENGINE = 'mirfacts+genscan'
EXPLANATION = ('On type-checked MIR of logos-codegen: (a) every Pattern::compile(false, ..) in generate is given the Some payload of subst_subpatterns applied to the definition\'s own '
               'escaped literal, and Subpatterns::new substitutes each subpattern against the table built so far before inserting it; (b) in subst_subpatterns a lookup miss '
               'records an error and forces None, a hit splices the stored pattern; (c) Subpattern::new stores "(?" flag ":" escaped-literal ")" with flag u/-u selected only by '
               'the literal kind (decoded from the format_args! template constant). (d) the constant regexes that validate a name and recognise a reference accept the same ASCII identifiers (evaluated on the constants, M-C11d). Decides scoping and ordering of the splice for every definition; not that textual splicing equals '
               'structural inclusion for every pattern text.')


def run(ctx, rep):
    crate = ctx.mir('ws-default')['logos_codegen']
    cg.rule_sites(rep, crate, want=('C11',))
    cg.rule_subpatterns(rep, crate)
    cg.rule_subpattern_names(rep, crate)
    rep.rules['M-C11a']['text'] = 'substitution precedes compilation at every regex-bearing site (skip, regex) and inside Subpatterns::new (against the table built so far, before insert)'
    rep.rules['M-C11a']['floor'] = 3
    cg.cg_controls(rep, ctx, [('M-C11c', cg.rule_subpatterns)])
    rep.trusted += ['rustc nightly MIR; encoding of format_args! templates on this nightly (decoder fails closed)', 'engines/mirfacts', 'regex-syntax group and flag semantics']
    from props import gen
    gen.rules_c11(ctx, rep)
    # a spliced reference is treated like the inlined text by the greedy-dot check as well
    cg.rule_greedy_recursion(rep, crate)
    gen.rule_must_reject(ctx, rep, gen.configs(ctx), ['undefined_subpattern', 'greedy_dot_hidden'], floor=8)
