"""C15 bump advances to a valid position or panics without corrupting the lexer."""
from props import rt

ENGINE = 'mirfacts+genscan+witness'

EXPLANATION = ('Static check-before-commit rule on the type-checked MIR of Lexer::bump in three build configurations '
               '(default, release-like arithmetic, forbid_unsafe): every store to a lexer field is dominated by '
               'usize::checked_add and by the true edge of Source::is_boundary applied to the very value stored, and no '
               'panic is reachable after a store; plus the shape of the three is_boundary implementations and the closed '
               'writer set of token_end. Holds for every n, position and source because it is a statement about all paths of the code. '
               'On the generated lexers of the corpus (both back ends): after a callback (which may have bumped) the Skip arm re-reads the lexer\'s own position '
               '(lex.trivia(); offset = lex.offset(); context = None; -> root) and no generated statement outside the callback moves the span, so a successful bump '
               'is never followed by a stale restart offset (start > end).')


def run(ctx, rep):
    cfgs = ['ws-default', 'logos-release', 'logos-forbid'] if ctx.tier == 'thorough' else ['ws-default', 'logos-release']
    for cfg in cfgs:
        crate = ctx.mir(cfg)['logos']
        rt.rule_bump(rep, crate, cfg)
        rt.rule_is_boundary(rep, crate, cfg)
        rt.rule_token_end_writers(rep, crate, cfg)
    rep.analysed['configs'] = cfgs
    if ctx.tier == 'thorough':
        rt.rule_witnesses(rep, ctx)
    rt.rt_controls(rep, ctx, ['M-C15a', 'M-C15b'])
    # after a callback's successful bump the generated code continues from the lexer's own position: the Skip arm is
    # lex.trivia(); offset = lex.offset(); context = None; -> root (a restart offset remembered from before the callback
    # would put token_start behind a stale offset and yield a span whose start exceeds its end), and no generated
    # statement outside the callback moves the span
    from props import gen
    cfgs_g = gen.configs(ctx)
    gen.base_checks(ctx, rep, cfgs_g)
    gen.rule_action_dispatch(ctx, rep, cfgs_g)
    gen.rule_leaf_arms(ctx, rep, cfgs_g)
    gen.controls(ctx, rep, ['G9c'])
    rep.trusted += ['rustc nightly MIR construction', 'engines/mirfacts', 'str::is_char_boundary (std) rejects index > len']
    rep.assumptions += ['LexerInternal::end / end_to_boundary are a trusted (doc(hidden)) interface for generated code; the property speaks of bump']
