"""C12 str mode and byte mode agree on valid UTF-8 input."""
from props import cg, rt

ENGINE = 'mirfacts+genscan'
EXPLANATION = ('Information-flow rule on type-checked MIR: the utf8 flag of a definition reaches only graph::Config.utf8_mode (whose single reader is the argument of thompson::Config::utf8), '
               'Subpatterns::new (where it only controls the UTF-8 gate), the UTF-8 gate of generate and the choice of the Source type tokens; no argument of Pattern::compile, Leaf::priority, '
               'Leaf::callback, subst_subpatterns or Generator::new depends on it by data or control. The find_boundary that applies to [u8] is the identity; patterns that can match invalid UTF-8 '
               'are rejected in str mode (gate rule). Decides the necessary condition "switching modes changes nothing else" for every definition; behavioural equality follows only modulo C01.'
               ' Added in round 8: str::read is the byte-level sub-slice of as_bytes() in both runtimes (M-C05b, M-C05d), so both modes are fed the same bytes.')


def run(ctx, rep):
    crates = ctx.mir('ws-default')
    cg.rule_utf8_flow(rep, crates['logos_codegen'])
    cg.rule_utf8_gate(rep, crates['logos_codegen'])
    rt.rule_rounding(rep, crates['logos'], 'ws-default')
    # both modes are fed the same bytes: str::read is the byte-level sub-slice of as_bytes() in both runtimes
    rt.rule_read_bounds(rep, crates['logos'], 'ws-default')
    rt.rule_read_forbid(rep, ctx.mir('logos-forbid')['logos'], 'logos-forbid')
    rt.rule_is_boundary(rep, crates['logos'], 'ws-default')     # both modes accept exactly the valid positions (incl. the end) in bump
    cg.cg_controls(rep, ctx, [('M-C12a', cg.rule_utf8_flow)])
    rep.trusted += ['rustc nightly MIR', 'engines/mirfacts', 'regex-automata: thompson::Config::utf8 semantics; regex-syntax Properties::is_utf8']
    from props import gen
    gen.rules_c12(ctx, rep)
    gen.rule_must_reject(ctx, rep, gen.configs(ctx), ['non_utf8_in_str_mode'], floor=8)
