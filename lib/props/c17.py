"""C17 logos-cli emits the stripped enum plus the derive's implementation."""
import re

from mirlib import (loop_depth, const_int, cond_of_switch, const_bytes, control_slice, controlling_switches, fields_of, find_calls, loc,
                    op_place, switches, trace)
from props.rt import desc, ret_desc

EXPLANATION = ('Clause claim on type-checked MIR of logos-codegen::strip_attributes and logos-cli: the derive list is rewritten loss-free (the emitted list is the parsed comma separated paths, '
               'filtered only by `last segment != Logos`, with no transformation between parse and re-quote; no token loop abandons its iterator); the stripped attribute set is exactly '
               '{logos, token, regex} at enum, variant and field level; the CLI writes strip_attributes(tokens.clone()) followed by generate(tokens) and nothing else; every file-system modification in main '
               'is dominated by the `!check` edge and depends on the comparison with the existing file, and on the `check` edge success is returned only through the unchanged path. '
               'Not decided: validity of the output as Rust beyond token preservation.')

FS_MODIFY = re.compile(r'(^fs_err::(write|remove_file|remove_dir|remove_dir_all|rename|copy|create_dir|create_dir_all|set_permissions|hard_link)$|^std::fs::(write|remove_file|remove_dir|remove_dir_all|rename|copy|create_dir|create_dir_all|set_permissions|hard_link)$'
                       r'|fs::File::create|File::create_new|OpenOptions::open$|fs_err::File::create|std::io::Write::write_all$|io::Write>::write_all$|io::Write>::write$)')


def rule_derive_list(rep, crate):
    rid = rep.rule('M-C17a', 'derive-list rewriting is loss-free: the emitted list is Punctuated<Path, ,>::parse_terminated of the original tokens filtered by `path.segments.last().ident != "Logos"` and re-quoted unchanged; no loop over a token iterator exits on the shape of a token', floor=3)
    fn = crate.fns.get('strip_attributes')
    if not rep.anchor(rid, 'fn strip_attributes', fn is not None):
        return
    fam = crate.body_family(fn)
    # (i) token loops
    n = 0
    for f in fam:
        for v in token_loop_violations(f):
            rep.viol(rid, 'token-loop:%s' % f.name, v, loc(f))
        n += len([1 for _b, t in f.calls() if re.search(r'token_stream::IntoIter as std::iter::Iterator>::next$', f.callee_name(t))])
    rep.inst(rid, 'strip_attributes:token-loops', detail=n)
    # every attribute / variant / field is visited: the loops of strip_attributes end only when their iterator is exhausted
    from mirlib import early_loop_exits
    ex = early_loop_exits(fn, r'(IterMut<.*> as std::iter::Iterator>::next|Iter<.*> as std::iter::Iterator>::next)$')
    rep.inst(rid, 'strip_attributes:loops-exhaustive', detail=len(ex))
    for h, e in ex:
        rep.viol(rid, 'loop-left-early:strip_attributes', 'a loop of strip_attributes over attributes / variants / fields is left before its iterator is exhausted (break/return): later items are not processed', loc(fn, fn.blocks[e[0]]['term']['line']))
        break
    # (ii) the chain: in strip_attributes itself or in a private helper it hands the derive attribute to
    outer = fn
    qs = find_calls(fn, r'RepIteratorExt::quote_into_iter$|RepAsIteratorExt.*::quote_into_iter$')
    if not qs:
        for b, t in outer.calls():
            g = crate.fns.get(outer.callee_name(t))
            if g is not None and g.kind == 'Fn' and g.vis != 'Public' and g.name not in ('strip_attrs_from_vec', 'is_logos_attr'):
                gq = find_calls(g, r'RepIteratorExt::quote_into_iter$|RepAsIteratorExt.*::quote_into_iter$')
                if gq:
                    fn, qs = g, gq
                    for f2 in crate.body_family(g):
                        for v in token_loop_violations(f2):
                            rep.viol(rid, 'token-loop:%s' % f2.name, v, loc(f2))
    ok = False
    for b, t in qs:
        d = desc(fn, t['args'][0])
        rep.inst(rid, 'strip_attributes:derive-chain', detail=d[:300])
        m = re.fullmatch(r'call:std::iter::Iterator::filter\(call:<syn::punctuated::Punctuated<T, P> as std::iter::IntoIterator>::into_iter\(call:syn::MetaList::parse_args_with\.0\),agg:closure:(.*?)\{\}\)', d)
        if not m:
            rep.viol(rid, 'derive-chain:shape', 'the re-emitted derive list iterates %s, expected the parsed paths only filtered (any map/transform between parse and quote can drop path qualifiers)' % d[:200], loc(fn, t['line']))
            continue
        ok = True
        clo = crate.fns.get(m.group(1))
        cd = ret_desc(clo) if clo else '?'
        mm = re.fullmatch(r'call:std::option::Option::<T>::map_or\(call:syn::punctuated::Punctuated::<T, P>::last\(param2\.segments\),const:1,agg:closure:(.*?)\{\}\)', cd)
        form = 'keep-unless-ne'
        if not mm:
            mm = re.fullmatch(r'Not\(call:std::option::Option::<T>::is_some_and\(call:syn::punctuated::Punctuated::<T, P>::last\(param2\.segments\),agg:closure:(.*?)\{\}\)\)', cd)
            form = 'drop-if-eq'
        if not mm:
            # the predicate as a private helper: filter(|p| !helper(p)), helper = p.segments.last().is_some_and(..)
            mh = re.fullmatch(r'Not\(call:([A-Za-z_0-9:]+)\(param2\)\)', cd)
            h = crate.fns.get(mh.group(1)) if mh else None
            if h is not None and h.kind == 'Fn':
                hd = ret_desc(h)
                mm = re.fullmatch(r'call:std::option::Option::<T>::is_some_and\(call:syn::punctuated::Punctuated::<T, P>::last\(param1\.segments\),agg:closure:(.*?)\{\}\)', hd)
                form = 'drop-if-eq'
                cd = cd + ' with ' + hd
        rep.inst(rid, 'strip_attributes:filter', detail=cd[:200])
        if not mm:
            rep.viol(rid, 'derive-chain:filter', 'the derive filter is %s, expected path.segments.last().map_or(true, |s| s.ident != "Logos") (or !is_some_and(== "Logos"))' % cd[:200], loc(clo or fn))
        else:
            c2 = crate.fns.get(mm.group(1))
            d2 = ret_desc(c2) if c2 else '?'
            consts = set()
            if c2:
                for _b, tt in c2.calls():
                    for a in tt['args']:
                        cb = const_bytes(a)
                        if cb:
                            consts.add(cb.decode('utf8', 'replace'))
                sl_consts = {bytes.fromhex(v).decode('utf8', 'replace') for (ty, v, f) in c2.slice(dict(op='copy', place=dict(local=0, proj=[]))).consts if ty and 'str' in ty and v}
                consts |= sl_consts
            rep.inst(rid, 'strip_attributes:filter-inner', detail=dict(ret=d2[:120], consts=sorted(consts)))
            want = r'call:(<.* as )?std::cmp::PartialEq(<.*>)?>?::%s\(param2\.ident,' % ('ne' if form == 'keep-unless-ne' else 'eq')
            if not re.match(want, d2) or consts != {'Logos'}:
                rep.viol(rid, 'derive-chain:filter-inner', 'the derive filter compares %s (constants %s), expected the last segment\'s ident against "Logos"' % (d2[:120], sorted(consts)), loc(c2 or fn))
    if not qs:
        rep.viol(rid, 'derive-chain:missing', 'strip_attributes no longer re-quotes the derive list', loc(fn))
    # the rewrite happens only for `derive` lists that parsed
    is_ident = [(b, t) for b, t in find_calls(outer, r'syn::Path::is_ident$')] + ([(b, t) for b, t in find_calls(fn, r'syn::Path::is_ident$')] if fn is not outer else [])
    names = set()
    for b, t in is_ident:
        cb = const_bytes(t['args'][1])
        for ff in (outer, fn):
            if cb is None:
                try:
                    r0 = trace(ff, t['args'][1])
                    cb = const_bytes(r0[1]) if r0[0] == 'const' else None
                except Exception:
                    cb = None
        if cb:
            names.add(cb.decode())
    rep.inst(rid, 'strip_attributes:list-name', detail=sorted(names))
    if names != {'derive'}:
        rep.viol(rid, 'derive-chain:list-name', 'the rewritten attribute is selected by %s, expected is_ident("derive")' % sorted(names), loc(fn))
    # tokens are only overwritten on the Ok edge of the parse
    stores = [(bi, st) for bi, si, st in fn.stmts() if fields_of(st['lhs'])[-1:] == ['tokens'] and bi in fn.live_blocks()]
    pa = find_calls(fn, r'syn::MetaList::parse_args_with$')
    if stores and pa:
        pb, pt = pa[0]
        from mirlib import variant_edges
        ok_edges = variant_edges(fn, pt['dest']['local'], 0)
        for bi, st in stores:
            if not any(fn.edge_dominates(e, bi) for e in ok_edges):
                rep.viol(rid, 'derive-chain:overwrite', 'meta.tokens is overwritten outside the Ok edge of the parse: an unparsable derive list would be emptied', loc(fn, st['line']))
    return fam


def token_loop_violations(f):
    """loops that draw from a proc_macro2 token iterator and leave the loop depending on the kind of token drawn"""
    out = []
    for b, t in f.calls():
        if not re.search(r'token_stream::IntoIter as std::iter::Iterator>::next$', f.callee_name(t)):
            continue
        from mirlib import innermost_loop
        lp = innermost_loop(f, b)
        if lp is None:
            continue
        body = lp[1]
        # switches on the payload's discriminant with an edge leaving the loop
        for sb in switches(f):
            if sb not in body:
                continue
            r = trace(f, f.blocks[sb]['term']['discr'])
            if r[0] != 'discr':
                continue
            pl = r[2]['rhs']['place']
            if pl['local'] == t['dest']['local'] and any(p['k'] == 'downcast' and p.get('variant') == 'Some' for p in pl['proj']):
                for s in f.succ(sb):
                    if s not in body and f.blocks[s]['term']['t'] != 'unreachable':
                        out.append('a loop over a token iterator is left when the next token is not of the expected kind: the remaining tokens are dropped')
    return out


def rule_attr_set(rep, crate):
    rid = rep.rule('M-C17b', 'the stripped attribute set is exactly {logos, token, regex}, applied to the enum\'s, every variant\'s and every field\'s attributes; nothing else removes attributes', floor=4)
    f = crate.fns.get('is_logos_attr')
    if rep.anchor(rid, 'fn is_logos_attr', f is not None):
        names = []
        array_form = False
        for b, t in find_calls(f, r'syn::Path::is_ident$'):
            r = trace(f, t['args'][1])
            cb = const_bytes(r[1]) if r[0] == 'const' else None
            names.append(cb.decode() if cb else '?')
        rr = trace(f, dict(op='copy', place=dict(local=0, proj=[])))
        if not names and rr[0] == 'call' and re.search(r'Iterator>?::any$', f.callee_name(rr[2])):
            # [LOGOS_ATTR, TOKEN_ATTR, REGEX_ATTR].into_iter().any(|name| path.is_ident(name))
            src = f.slice(rr[2]['args'][0])
            clo = trace(f, rr[2]['args'][1])
            cf = crate.fns.get(clo[2]['rhs']['kind'].get('closure', '')) if clo[0] == 'agg' else None
            if cf is not None and re.fullmatch(r'call:syn::Path::is_ident\(param1\.0,param2\)', ret_desc(cf)) and not [c for c in src.calls if not re.search(r'IntoIterator.*>::into_iter$|slice::<impl \[T\]>::iter$|Iterator>?::(copied|cloned)$', c)]:
                for ty, v, _fn in src.consts:
                    if ty and 'str' in ty and v:
                        try:
                            names.append(bytes.fromhex(v).decode())
                        except ValueError:
                            names.append('?')
                # `[A, B, C].iter()`: rustc promotes the array; the driver prints it as ["a", "b", "c"]
                for ty, pv in getattr(src, 'pretty', ()):
                    if ty and re.search(r'\[&(\'\w+ )?str; \d+\]', ty):
                        names += re.findall(r'"([^"\\]*)"', pv)
                array_form = True
        rep.inst(rid, 'is_logos_attr:names', detail=sorted(names))
        if sorted(names) != ['logos', 'regex', 'token']:
            rep.viol(rid, 'attr-set:names', 'is_logos_attr compares with %s, expected exactly logos, token, regex' % sorted(names), loc(f))
        # result: true iff any comparison is true (each is_ident true edge leads to `true`)
        for kind, bi, si, x in f.defs().get(0, []):
            pass
        rets = set()
        for sb in switches(f):
            c = cond_of_switch(f, sb)
            if c and c['root'][0] == 'call' and re.search(r'is_ident$', f.callee_name(c['root'][2])):
                # on the true edge the function must return true
                vals = set()
                for kind, bi, si, x in f.defs().get(0, []):
                    if kind == 'stmt' and f.edge_dominates((c['bb'], c['t']), bi):
                        vals.add(desc(f, x['rhs'].get('a')) if x['rhs']['rv'] == 'use' else '?')
                if vals and vals != {'const:1'}:
                    rep.viol(rid, 'attr-set:logic', 'a matching attribute name does not make is_logos_attr true (%s)' % vals, loc(f))
                rets |= vals
        # any non-is_ident influence on the result
        sl = f.slice(dict(op='copy', place=dict(local=0, proj=[])))
        other = [c for c in sl.calls if not re.search(r'is_ident$|Attribute::path$', c) and not (array_form and re.search(r'Iterator>?::any$|IntoIterator.*>::into_iter$|slice::<impl \[T\]>::iter$|Iterator>?::(copied|cloned)$', c))]
        if other:
            rep.viol(rid, 'attr-set:extra', 'is_logos_attr also depends on %s' % other, loc(f))
    g = crate.fns.get('strip_attrs_from_vec')
    if rep.anchor(rid, 'fn strip_attrs_from_vec', g is not None):
        ret = find_calls(g, r'vec::Vec::<T, A>::retain$')
        ok = False
        if len(ret) == 1:
            a = trace(g, ret[0][1]['args'][1])
            if a[0] == 'agg' and 'closure' in a[2]['rhs']['kind']:
                clo = crate.fns.get(a[2]['rhs']['kind']['closure'])
                d = ret_desc(clo) if clo else '?'
                rep.inst(rid, 'strip_attrs_from_vec:predicate', detail=d)
                ok = d == 'Not(call:is_logos_attr(param2))'
            ok = ok and desc(g, ret[0][1]['args'][0]) == 'param1'
        others = [g.callee_name(t) for _b, t in g.calls() if not re.search(r'retain$', g.callee_name(t))]
        if not ok or others:
            rep.viol(rid, 'attr-set:retain', 'strip_attrs_from_vec is not `attrs.retain(|a| !is_logos_attr(a))` (other calls: %s)' % others, loc(g))
    s = crate.fns.get('strip_attributes')
    if rep.anchor(rid, 'fn strip_attributes', s is not None):
        calls = find_calls(s, r'^strip_attrs_from_vec$')
        args = sorted(re.sub(r'call:<[^>]*IterMut[^>]*>::next', 'iter.next', desc(s, t['args'][0])) for _b, t in calls)
        rep.inst(rid, 'strip_attributes:levels', detail=args)
        lv = [a.count('iter.next') for a in args]
        # enum level: item.attrs; variant level: inside one loop; field level: inside the nested loop
        heads = [b for b, t in s.calls() if re.search(r'IterMut<.*> as std::iter::Iterator>::next$', s.callee_name(t))]
        depth = []
        for b, t in calls:
            depth.append(loop_depth(s, b))
        # `variant.fields.iter_mut().for_each(|field| strip_attrs_from_vec(&mut field.attrs))`: the closure body is one more
        # level inside the loop that calls for_each; its source is the receiver of that for_each
        closure_sources = {}
        for b, t in find_calls(s, r'Iterator>?::for_each$'):
            if len(t['args']) != 2:
                continue
            a = trace(s, t['args'][1])
            cname = a[2]['rhs']['kind'].get('closure') if a[0] == 'agg' else None
            clo = crate.fns.get(cname) if cname else None
            if clo is None:
                continue
            inner = find_calls(clo, r'^strip_attrs_from_vec$')
            others = [clo.callee_name(tt) for _b, tt in clo.calls() if not re.search(r'^strip_attrs_from_vec$', clo.callee_name(tt))]
            if len(inner) == 1 and not others and desc(clo, inner[0][1]['args'][0]) == 'param2.attrs':
                calls.append((b, t))
                args.append('for_each-closure(param2.attrs)')
                depth.append(loop_depth(s, b) + 1)
                closure_sources[id(t)] = s.slice(t['args'][0])
        args.sort()
        rep.inst(rid, 'strip_attributes:loop-depths', detail=sorted(depth))
        if len(calls) != 3 or sorted(depth) != [0, 1, 2] or not all(a.endswith('.attrs') or a.endswith('.attrs)') for a in args):
            rep.viol(rid, 'attr-set:levels', 'strip_attrs_from_vec is applied at loop depths %s to %s, expected enum (0), variant (1) and field (2) attributes' % (sorted(depth), args), loc(s))
        # the field level covers the fields of EVERY kind of variant: the innermost loop runs over `variant.fields` as a whole
        # (`&mut Fields` / Fields::iter_mut), not over the payload of one Fields variant (`Fields::Named(f) => f.named`), which
        # would leave helper attributes on tuple fields in the emitted enum
        for (b, t), dp in zip(calls, depth):
            if dp != 2:
                continue
            sl = closure_sources.get(id(t)) or s.slice(t['args'][0])
            whole = [c for c in sl.calls if re.search(r'(mut syn::Fields as std::iter::IntoIterator>::into_iter|syn::Fields::iter_mut)$', c)]
            rep.inst(rid, 'strip_attributes:field-source', detail=sorted(c for c in sl.calls if 'Fields' in c or 'Punctuated' in c))
            if not whole:
                rep.viol(rid, 'attr-set:field-source', 'the field-level strip_attrs_from_vec is not fed by an iteration over the whole `variant.fields` (calls on its argument: %s): fields of some variant kinds keep their logos attributes' % sorted(c for c in sl.calls if 'Fields' in c or 'Punctuated' in c or 'next' in c)[:4], loc(s, t['line']))
        # nothing else removes attributes / variants / fields
        bad = [s.callee_name(t) for _b, t in s.calls() if re.search(r'::(retain|remove|clear|pop|truncate|drain|swap_remove|take)$', s.callee_name(t))]
        if bad:
            rep.viol(rid, 'attr-set:other-removal', 'strip_attributes also calls %s' % bad, loc(s))
        d = ret_desc(s)
        if not re.fullmatch(r'call:quote::ToTokens::to_token_stream\(.*\)', d):
            rep.viol(rid, 'attr-set:return', 'strip_attributes returns %s, expected the whole item re-rendered' % d[:100], loc(s))


ok_values = set()     # side result of bool_reach: bool payloads of `Ok(..)` assigned to the return place


def bool_reach(m, start, known):
    """Calls and `Err` constructions reachable from block `start` when the boolean locals in `known` have the given values;
    the values are propagated through copies/moves and `Not`, and a switch on a known value is followed on its taken
    edge only.  Returns (callee names, number of Err aggregates assigned towards the return place)."""
    calls, errs = set(), 0
    seen = set()
    ok_values.clear()
    work = [(start, tuple(sorted(known.items(), key=str)))]
    while work:
        b, envt = work.pop()
        if (b, envt) in seen or b < 0:
            continue
        seen.add((b, envt))
        env = dict(envt)
        blk = m.blocks[b]
        for st in blk['stmts']:
            lhs = st['lhs']
            rhs = st['rhs']
            tgt = lhs['local'] if not lhs['proj'] else None
            val = None
            pval = None        # value of the Ok / Continue payload carried by the assigned Result-like local
            if rhs['rv'] == 'use':
                p = op_place(rhs['a'])
                if p is not None and not p['proj'] and p['local'] in env:
                    val = env[p['local']]
                elif p is not None and not p['proj'] and ('p', p['local']) in env:
                    pval = env[('p', p['local'])]
                elif p is not None and ('p', p['local']) in env and fields_of(p) == ['0'] and any(q['k'] == 'downcast' and q.get('variant') in ('Ok', 'Continue') for q in p['proj']):
                    val = env[('p', p['local'])]
                elif rhs['a'].get('op') == 'const' and const_int(rhs['a']) in (0, 1) and 'bool' in str(rhs['a'].get('ty')):
                    val = bool(const_int(rhs['a']))
            elif rhs['rv'] == 'agg' and rhs['kind'].get('variant') in ('Ok', 'Continue') and len(rhs['ops']) == 1:
                p = op_place(rhs['ops'][0])
                if p is not None and not p['proj'] and p['local'] in env:
                    pval = env[p['local']]
                elif rhs['ops'][0].get('op') == 'const' and const_int(rhs['ops'][0]) in (0, 1) and 'bool' in str(rhs['ops'][0].get('ty')):
                    pval = bool(const_int(rhs['ops'][0]))
                if tgt == 0 and pval is not None:
                    ok_values.add(pval)
            elif rhs['rv'] == 'un' and rhs.get('uop') == 'Not':
                p = op_place(rhs['a'])
                if p is not None and not p['proj'] and p['local'] in env:
                    val = not env[p['local']]
            elif rhs['rv'] == 'agg' and rhs['kind'].get('variant') == 'Err' and 'Result' in str(rhs['kind'].get('adt')):
                errs += 1
            if tgt is not None:
                if val is None:
                    env.pop(tgt, None)
                else:
                    env[tgt] = val
                if pval is None:
                    env.pop(('p', tgt), None)
                else:
                    env[('p', tgt)] = pval
        t = blk['term']
        nxt = []
        if t['t'] == 'switch':
            p = op_place(t['discr'])
            if p is not None and not p['proj'] and p['local'] in env:
                v = '1' if env[p['local']] else '0'
                tg = {x: y for x, y in t['targets']}
                nxt = [tg[v] if v in tg else tg['otherwise']]
            else:
                nxt = [y for _x, y in t['targets']]
        elif t['t'] == 'call':
            calls.add(m.callee_name(t))
            if t['dest'] and not t['dest']['proj']:
                env.pop(t['dest']['local'], None)
                env.pop(('p', t['dest']['local']), None)
                # `?`: Try::branch keeps the payload
                if re.search(r'ops::Try>::branch$', m.callee_name(t)) and t['args']:
                    p = op_place(t['args'][0])
                    if p is not None and not p['proj'] and ('p', p['local']) in env:
                        env[('p', t['dest']['local'])] = env[('p', p['local'])]
            if t['target'] >= 0:
                nxt = [t['target']]
        else:
            nxt = [x for x in m.succ(b)]
        et = tuple(sorted(env.items(), key=str))
        for n in nxt:
            work.append((n, et))
    return sorted(calls), errs


def rule_cli(rep, crate):
    rid = rep.rule('M-C17c', 'logos_cli::codegen writes strip_attributes(tokens.clone()) and then generate(tokens) of the same parsed input, and nothing else, into the output', floor=1)
    f = crate.fns.get('codegen')
    if rep.anchor(rid, 'fn logos_cli::codegen', f is not None):
        sa = find_calls(f, r'logos_codegen::strip_attributes$')
        ge = find_calls(f, r'logos_codegen::generate$')
        wr = find_calls(f, r'Write::write_fmt$|Write>::write_fmt$')
        rep.inst(rid, 'codegen', detail=dict(strip=len(sa), generate=len(ge), writes=len(wr)))
        ok = len(sa) == 1 and len(ge) == 1 and len(wr) == 2
        if ok:
            d1 = desc(f, sa[0][1]['args'][0])
            d2 = desc(f, ge[0][1]['args'][0])
            ok = d1.startswith('call:<proc_macro2::TokenStream as std::clone::Clone>::clone(') and 'Try>::branch' in d2 and d2.replace('.0', '') in d1.replace('.0', '') or d2.split('(')[0] in d1
            # order: strip's write dominates generate's write
            wblocks = sorted(b for b, _t in wr)
            sls = [f.slice(t['args'][1]) for _b, t in wr]
            first_has_strip = any('strip_attributes' in c for c in sls[0].calls) if wr[0][0] < wr[1][0] else any('strip_attributes' in c for c in sls[1].calls)
            order = f.dominates_block(sa[0][0], ge[0][0])
            ok = ok and order
        if not ok:
            rep.viol(rid, 'cli:composition', 'codegen is not strip_attributes(tokens.clone()) followed by generate(tokens) written in that order', loc(f))
        pushes = [f.callee_name(t) for _b, t in f.calls() if re.search(r'String::(push|push_str|insert|insert_str)$', f.callee_name(t))]
        if pushes:
            rep.viol(rid, 'cli:extra-output', 'codegen adds further text to the output (%s)' % pushes, loc(f))
    rid = rep.rule('M-C17d', '--check never writes and succeeds iff unchanged: every file-system modification in main is dominated by the false edge of args.check and depends on the comparison with the existing file; on the true edge of args.check only an error is returned', floor=2)
    main = crate.fns.get('main')
    if not rep.anchor(rid, 'fn logos_cli::main', main is not None):
        return
    # the function that decides between writing and checking: the one that compares with the existing file (main itself,
    # or a private helper main hands `args.check` to)
    m = main
    check_param = None
    cmp_helper = None
    main_mods = [(b, t) for b, t in main.calls() if FS_MODIFY.search(main.callee_name(t))]
    if not find_calls(main, r'^eq_ignore_newlines$') and main_mods:
        # the comparison alone moved into a private helper `fn changed(path, output) -> Result<bool>`; the decision stays in main
        for f in crate.reachable_fns([main]).values():
            if f.name != 'main' and f.kind == 'Fn' and find_calls(f, r'^eq_ignore_newlines$') and not [1 for _b, t in f.calls() if FS_MODIFY.search(f.callee_name(t))]:
                cmp_helper = f
    if cmp_helper is not None:
        pass
    elif not find_calls(main, r'^eq_ignore_newlines$'):
        for f in crate.reachable_fns([main]).values():
            if f.name != 'main' and find_calls(f, r'^eq_ignore_newlines$'):
                m = f
        for b, t in main.calls():
            if main.callee_name(t) == m.name:
                for i, a in enumerate(t['args']):
                    if desc(main, a).endswith('.check'):
                        check_param = i + 1
    checks = []
    for sb in switches(m):
        c = cond_of_switch(m, sb)
        if not c:
            continue
        if c['root'][0] == 'place' and fields_of(c['root'][1])[-1:] == ['check'] and 'Args' in m.locals[c['root'][1]['local']]:
            checks.append(c)
        elif check_param is not None and c['root'][0] == 'param' and c['root'][1] == check_param:
            checks.append(c)
    mods = [(b, t) for b, t in m.calls() if FS_MODIFY.search(m.callee_name(t))]
    rep.inst(rid, 'main:fs-modifications', detail=[m.callee_name(t) for _b, t in mods])
    if not mods:
        rep.viol(rid, 'cli:no-write', 'main never writes the output file', loc(m))
    # no other function of the CLI touches the file system for writing
    for f in crate.fns.values():
        if f.name == m.name:
            continue
        for b, t in f.calls():
            if re.search(r'^(fs_err|std::fs)::', f.callee_name(t)) and FS_MODIFY.search(f.callee_name(t)):
                rep.viol(rid, 'cli:write-elsewhere:%s' % f.name, '%s modifies the file system (%s) outside the write/check decision' % (f.name, f.callee_name(t)), loc(f, t['line']))
    for b, t in mods:
        if not any(m.edge_dominates((c['bb'], c['f']), b) for c in checks):
            rep.viol(rid, 'cli:write-in-check:%s' % m.callee_name(t).split('::')[-1], '%s is reachable with --check: check mode may modify the file' % m.callee_name(t), loc(m, t['line']))
        deps = set()
        for sb in controlling_switches(m, b):
            locs, calls, _f = control_slice(m, m.blocks[sb]['term']['discr'])
            deps |= calls
        if not any(re.search(r'eq_ignore_newlines$', c) or (cmp_helper is not None and c == cmp_helper.name) for c in deps):
            rep.viol(rid, 'cli:write-unconditional:%s' % m.callee_name(t).split('::')[-1], 'the write does not depend on the comparison with the existing file', loc(m, t['line']))
    # on the check edge: no Ok(()) result, an error is created
    for c in checks:
        region = {b for b in m.live_blocks() if m.edge_dominates((c['bb'], c['t']), b)}
        oks = [x for kind, bi, si, x in m.defs().get(0, []) if kind == 'stmt' and bi in region and x['rhs']['rv'] == 'agg' and x['rhs']['kind'].get('variant') == 'Ok']
        errs = [x for kind, bi, si, x in m.defs().get(0, []) if kind == 'stmt' and bi in region and x['rhs']['rv'] == 'agg' and x['rhs']['kind'].get('variant') == 'Err']
        rep.inst(rid, 'main:check-edge', detail=dict(ok=len(oks), err=len(errs)))
        if oks or not errs:
            rep.viol(rid, 'cli:check-succeeds', 'on the --check edge taken when the file differs, main can return Ok (or never returns an error)', loc(m))
        # and the check edge itself is only reached when changed
        deps = set()
        for sb in controlling_switches(m, c['bb']):
            _l, calls, _f = control_slice(m, m.blocks[sb]['term']['discr'])
            deps |= calls
        if not any(re.search(r'eq_ignore_newlines$', x) or (cmp_helper is not None and x == cmp_helper.name) for x in deps):
            rep.viol(rid, 'cli:check-order', 'args.check is tested without first comparing with the existing file: an up-to-date file could fail --check', loc(m))
    # `changed` is exactly !eq_ignore_newlines(existing, output) or the NotFound arm
    eqs = find_calls(m, r'^eq_ignore_newlines$')
    if cmp_helper is not None:
        h = cmp_helper
        heq = find_calls(h, r'^eq_ignore_newlines$')
        hcalls = [(b, t) for b, t in main.calls() if main.callee_name(t) == h.name]
        rep.inst(rid, 'main:compare-helper', detail=h.name)
        if len(heq) != 1 or len(hcalls) != 1:
            rep.viol(rid, 'cli:compare', 'expected one eq_ignore_newlines call in %s and one call of it in main' % h.name, loc(h))
        else:
            a = [desc(h, x) for x in heq[0][1]['args']]
            hargs = [desc(main, x) for x in hcalls[0][1]['args']]
            rep.inst(rid, 'main:compare', detail=dict(helper=a, call=hargs))
            if 'fs_err::read_to_string' not in a[0] or not re.search(r'param\d', a[1]) or 'output' not in [main.names.get(l) for x in hcalls[0][1]['args'] for l in main.slice(x).locals]:
                rep.viol(rid, 'cli:compare-operands', '%s compares %s, called with %s' % (h.name, a, hargs), loc(h, heq[0][1]['line']))
            summary = {}
            for val in (True, False):
                bool_reach(h, heq[0][1]['target'], {heq[0][1]['dest']['local']: val})
                summary[val] = set(ok_values)
            rep.inst(rid, 'main:compare-helper:summary', detail={str(k): sorted(v) for k, v in summary.items()})
            if len(summary[True]) != 1 or len(summary[False]) != 1 or summary[True] == summary[False]:
                rep.viol(rid, 'cli:compare-polarity', 'the helper %s does not return one boolean for "equal" and the other for "differs" (%s)' % (h.name, summary), loc(h))
            else:
                hb, ht = hcalls[0]
                for val in (True, False):
                    calls, errs = bool_reach(main, ht['target'], {('p', ht['dest']['local']): list(summary[val])[0]})
                    wr = [c for c in calls if FS_MODIFY.search(c)]
                    rep.inst(rid, 'main:polarity:%s' % ('equal' if val else 'differs'), detail=dict(writes=wr, errs=errs))
                    if val and (wr or errs):
                        rep.viol(rid, 'cli:compare-polarity', 'when the output file already holds the generated code main can still %s' % ('write the file' if wr else 'return an error'), loc(main))
                    if not val and not (wr or errs):
                        rep.viol(rid, 'cli:compare-polarity', 'when the output file differs from the generated code main neither writes it nor reports an error', loc(main))
    elif len(eqs) == 1:
        a = [desc(m, x) for x in eqs[0][1]['args']]
        rep.inst(rid, 'main:compare', detail=a)
        if 'fs_err::read_to_string' not in a[0] or 'output' not in [m.names.get(l) for l in m.slice(eqs[0][1]['args'][1], through_calls=True).locals]:
            rep.viol(rid, 'cli:compare-operands', 'eq_ignore_newlines compares %s' % a, loc(m, eqs[0][1]['line']))
        # polarity, decided by propagating the two possible results of the comparison through copies, negations and the
        # switches they control: when the file equals the generated code nothing is written and no error is returned;
        # when it differs a write or the --check error is reachable
        eqb, eqt = eqs[0]
        for val in (True, False):
            calls, errs = bool_reach(m, eqt['target'], {eqt['dest']['local']: val})
            wr = [c for c in calls if FS_MODIFY.search(c)]
            rep.inst(rid, 'main:polarity:%s' % ('equal' if val else 'differs'), detail=dict(writes=wr, errs=errs))
            if val and (wr or errs):
                rep.viol(rid, 'cli:compare-polarity', 'when the output file already holds the generated code main can still %s' % ('write the file' if wr else 'return an error'), loc(m))
            if not val and not (wr or errs):
                rep.viol(rid, 'cli:compare-polarity', 'when the output file differs from the generated code main neither writes it nor reports an error', loc(m))
    else:
        rep.viol(rid, 'cli:compare', 'expected one eq_ignore_newlines call in main', loc(m))
    e = crate.fns.get('eq_ignore_newlines')
    if e is not None:
        d = ret_desc(e)
        rep.inst(rid, 'eq_ignore_newlines', detail=d)
        if d != 'call:std::iter::Iterator::eq(call:core::str::<impl str>::lines(param1),call:core::str::<impl str>::lines(param2))':
            rep.viol(rid, 'cli:eq-shape', 'eq_ignore_newlines is %s' % d, loc(e))


def run(ctx, rep):
    crates = ctx.mir('ws-default')
    rule_derive_list(rep, crates['logos_codegen'])
    rule_attr_set(rep, crates['logos_codegen'])
    rule_cli(rep, crates['logos_cli'])
    try:
        fx = ctx.mir('fixture')['mirfixture']
        crid = rep.rule('M-C17a-control', 'positive control: a token loop that stops at the first unexpected token must be reported')
        f = fx.fns.get('c17::abandons_iterator')
        g = fx.fns.get('c17::drains_iterator')
        rep.inst(crid, 'c17::abandons_iterator')
        rep.control(crid, 'c17::abandons_iterator', f is not None and bool(token_loop_violations(f)))
        if g is not None and token_loop_violations(g):
            rep.viol(crid, 'control-false-alarm:c17::drains_iterator', 'the rule fires on the compliant fixture')
    except KeyError:
        rep.anchor('M-C17a', 'fixture crate facts', False)
    from props import cg
    cg.cg_controls(rep, ctx, [('M-C17a', rule_derive_list)])
    rep.trusted += ['rustc nightly MIR', 'engines/mirfacts', 'syn: Punctuated::parse_terminated consumes the whole list; quote re-renders paths faithfully']
