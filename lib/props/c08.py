"""C08 Equal-priority overlaps are compile errors, never silent choices."""
import re

from mirlib import cond_of_switch, const_int, find_calls, loc, switches, trace
from props.c19 import always_hits
from props.rt import desc, ret_desc

ENGINE = 'mirfacts+genscan'
EXPLANATION = ('Thin clause on type-checked MIR: (a) no detected conflict can be dropped: in Graph::new the Err result of get_state_type always pushes GraphError::Disambiguation with that payload into graph.errors, '
               'the scan runs over dfa_lookup, which is built from get_states (closure of the universal start state under all 256 bytes and end of input), and generate turns every such error '
               'into compile_error diagnostics before the gate; (b) get_state_type returns Err exactly on the edge where more than one leaf remains after filtering the state\'s matches by equality with the '
               'maximum priority, and otherwise accepts the leaf with that maximum. Decides that detected conflicts cannot be lost or silently resolved; NOT the "iff" with language intersection.'
               ' Since the E5 engine (G20, kind reference-tie): in every accepted corpus definition no reachable match state of the reference DFA has two leaves at the top priority, and the graph holds the top-priority leaf.'
               " Added in round 8: the default priority of a token is twice the byte length of the literal value itself (M-C09a) and ignore(case) tokens are compiled with the definition's own flags and the literal kind's Unicode mode (M-C10a, M-C10b): the priorities and languages whose overlap is tested are the documented ones.")


def _len_test(fn, sb, payload):
    """If the switch at sb tests the number of elements of `payload` against a constant: ('gt1', conflict_edge, single_edge) with
    conflict = more than one / not exactly one element.  None otherwise."""
    c = cond_of_switch(fn, sb)
    if not c or c['root'][0] != 'bin':
        return None
    rhs = c['root'][2]['rhs']
    da, db = desc(fn, rhs['a']), desc(fn, rhs['b'])

    def is_len(d):
        return (d == 'call:std::vec::Vec::<T, A>::len(%s)' % payload
                or (payload in d and re.match(r'^(PtrMetadata|Len)\(', d) is not None)
                or (payload in d and re.match(r'^call:core::slice::<impl \[T\]>::len\(', d) is not None))
    op = rhs['bop']
    if is_len(da) and db.startswith('const:'):
        k = int(db[6:])
    elif is_len(db) and da.startswith('const:'):
        k = int(da[6:])
        op = {'Gt': 'Lt', 'Lt': 'Gt', 'Ge': 'Le', 'Le': 'Ge'}.get(op, op)
    else:
        return None
    if (op, k) in (('Gt', 1), ('Ge', 2)):
        return dict(bb=sb, conflict=c['t'], single=c['f'])
    if (op, k) in (('Le', 1), ('Lt', 2)):
        return dict(bb=sb, conflict=c['f'], single=c['t'])
    if (op, k) == ('Eq', 1):
        return dict(bb=sb, conflict=c['f'], single=c['t'])
    if (op, k) == ('Ne', 1):
        return dict(bb=sb, conflict=c['t'], single=c['f'])
    return None


def rule_state_type(rep, crate):
    rid = rep.rule('M-C08b', 'get_state_type: candidates = iter_matches(state) paired with each leaf\'s own priority; top = their maximum priority (max_by_key on the priority, or max of the priorities); Err(all candidates whose priority == top) exactly on the edge where that list does not have a single element, otherwise accept = its single element / the max_by_key winner, early = None', floor=5)
    fn = crate.fns.get('graph::Graph::get_state_type')
    if not rep.anchor(rid, 'fn Graph::get_state_type', fn is not None):
        return
    errs = [(bi, x) for kind, bi, si, x in fn.defs().get(0, []) if kind == 'stmt' and x['rhs']['rv'] == 'agg' and x['rhs']['kind'].get('variant') == 'Err' and bi in fn.live_blocks()]
    oks = [(bi, x) for kind, bi, si, x in fn.defs().get(0, []) if kind == 'stmt' and x['rhs']['rv'] == 'agg' and x['rhs']['kind'].get('variant') == 'Ok' and bi in fn.live_blocks()]
    if len(errs) != 1:
        rep.viol(rid, 'state-type:err-count', 'expected exactly one Err return in get_state_type, found %d' % len(errs), loc(fn))
        return
    eb, ex = errs[0]
    payload = desc(fn, ex['rhs']['ops'][0])
    rep.inst(rid, 'state-type:err-payload', detail=payload[:300])
    m = re.fullmatch(r'call:std::iter::Iterator::collect\(call:std::iter::Iterator::map\(call:std::iter::Iterator::filter\(call:<std::vec::Vec<T, A> as std::iter::IntoIterator>::into_iter\((.*)\),agg:closure:(.*?)\{0=(.*?)\}\),agg:closure:(.*?)\{\}\)\)', payload)
    if not m:
        rep.viol(rid, 'state-type:err-payload', 'the Err payload is %s, expected the matches filtered by priority == max and mapped to leaf ids' % payload[:200], loc(fn, ex['line']))
        return
    matches, filt_clo, captured, map_clo = m.groups()
    # guard: a test of the number of tied leaves
    guard = None
    for sb in switches(fn):
        g = _len_test(fn, sb, payload)
        if g is not None:
            guard = g
    rep.inst(rid, 'state-type:guard', detail=bool(guard))
    if guard is None:
        rep.viol(rid, 'state-type:guard', 'no test of the number of top-priority leaves (len > 1, or a one-element slice pattern) guards the Err return', loc(fn))
        return
    conflict_edge = (guard['bb'], guard['conflict'])
    # the tie test itself must not be conditional on anything but "the state matches at all"
    from mirlib import controlling_switches
    for sb in controlling_switches(fn, guard['bb']):
        r = trace(fn, fn.blocks[sb]['term']['discr'])
        if r[0] in ('bin', 'un') or (r[0] == 'call' and not re.search(r'Iterator::(max_by_key|max)$', fn.callee_name(r[2]))):
            rep.viol(rid, 'state-type:extra-condition', 'the equal-priority test is only evaluated under an additional condition (%s): some ties are resolved silently' % desc(fn, fn.blocks[sb]['term']['discr'])[:120], loc(fn, fn.blocks[sb]['term']['line']))
    if not fn.edge_dominates(conflict_edge, eb):
        rep.viol(rid, 'state-type:err-edge', 'Err is returned outside the `more than one leaf at the top priority` edge', loc(fn, ex['line']))
    for ob, ox in oks:
        if fn.edge_dominates(conflict_edge, ob):
            rep.viol(rid, 'state-type:ok-on-conflict', 'Ok is returned although several leaves share the top priority: the conflict is resolved silently', loc(fn, ox['line']))
    if not always_hits(fn, conflict_edge, [eb]):
        rep.viol(rid, 'state-type:err-not-always', 'the conflict edge does not always return Err', loc(fn))
    # candidates: all matches of the state with their priorities
    mm = re.fullmatch(r'call:std::iter::Iterator::collect\(call:std::iter::Iterator::map\(call:graph::dfa_util::iter_matches\(param1,param3\),agg:closure:(.*?)\{0=param2\}\)\)', matches)
    rep.inst(rid, 'state-type:matches', detail=matches[:200])
    if not mm:
        rep.viol(rid, 'state-type:matches', 'the candidate list is %s, expected iter_matches(state_id, dfa) paired with leaves[id].priority' % matches[:200], loc(fn))
    else:
        c0 = crate.fns.get(mm.group(1))
        d0 = ret_desc(c0) if c0 else '?'
        if not re.fullmatch(r'agg:tuple\{0=param2,1=(local|param1)\.0.*priority\}', d0) and 'priority' not in d0:
            rep.viol(rid, 'state-type:priority-of', 'candidates are paired with %s, expected leaves[leaf_id.0].priority' % d0, loc(fn))
        elif c0 is not None:
            idx_ok = any(st['rhs']['rv'] == 'use' and desc(c0, st['rhs']['a']).startswith('param2.0') for _b, _s, st in c0.stmts())
            if not idx_ok:
                rep.viol(rid, 'state-type:priority-index', 'the priority is not looked up with the leaf\'s own id', loc(c0))
    # top: maximum of the priorities over the same candidates
    rep.inst(rid, 'state-type:max', detail=captured[:200])
    mk = find_calls(fn, r'Iterator::max_by_key$')
    mx = find_calls(fn, r'Iterator::max$')
    top_call = None
    if len(mk) == 1 and not mx:
        mb, mt = mk[0]
        top_call = mt
        if matches not in desc(fn, mt['args'][0]):
            rep.viol(rid, 'state-type:max-domain', 'the maximum is not taken over the same candidate list', loc(fn, mt['line']))
        kc = trace(fn, mt['args'][1])
        kclo = crate.fns.get(kc[2]['rhs']['kind'].get('closure', '')) if kc[0] == 'agg' else None
        kd = ret_desc(kclo) if kclo else '?'
        if not re.search(r'\.1$', kd):
            rep.viol(rid, 'state-type:max-key', 'max_by_key is keyed by %s, expected the priority component' % kd, loc(fn, mt['line']))
    elif len(mx) == 1 and not mk:
        mb, mt = mx[0]
        top_call = mt
        over = desc(fn, mt['args'][0])
        mo = re.fullmatch(r'call:std::iter::Iterator::map\((.*),agg:closure:(.*?)\{\}\)', over)
        if not mo or matches not in mo.group(1):
            rep.viol(rid, 'state-type:max-domain', 'the maximum is not taken over the priorities of the same candidate list (%s)' % over[:160], loc(fn, mt['line']))
        else:
            kclo = crate.fns.get(mo.group(2))
            kd = ret_desc(kclo) if kclo else '?'
            if not re.search(r'\.1$', kd):
                rep.viol(rid, 'state-type:max-key', 'the maximum is taken over %s, expected the priority component' % kd, loc(fn, mt['line']))
    else:
        rep.viol(rid, 'state-type:max', 'expected one max_by_key / max over the candidates', loc(fn))
    fc = crate.fns.get(filt_clo)
    fd = ret_desc(fc) if fc else '?'
    rep.inst(rid, 'state-type:filter', detail=fd)
    if not re.fullmatch(r'Eq\(param2\.1,param1\.0\)|Eq\(param1\.0,param2\.1\)', fd):
        rep.viol(rid, 'state-type:filter', 'the top-priority filter is %s, expected priority == highest_priority' % fd, loc(fc or fn))
    mc = crate.fns.get(map_clo)
    md = ret_desc(mc) if mc else '?'
    if md != 'param2.0':
        rep.viol(rid, 'state-type:map', 'the conflict list maps candidates to %s, expected the leaf id' % md, loc(mc or fn))
    # the value the filter compares with is the maximum found above
    cap_ok = False
    for bi, si, st in fn.stmts():
        if st['rhs']['rv'] == 'agg' and st['rhs']['kind'].get('closure') == filt_clo:
            o = st['rhs']['ops'][0]
            sl = fn.slice(o)
            names = {fn.callee_name(t) for _b, t in sl.call_terms}
            direct = fn.slice(o, through_calls=False)
            if any(re.search(r'Iterator::max_by_key$', n) for n in names):
                cap_ok = any(fl[-1:] == ('1',) for _l, fl in direct.fields)
            elif any(re.search(r'Iterator::max$', n) for n in names):
                cap_ok = not direct.binops and not direct.unops
    if not cap_ok:
        rep.viol(rid, 'state-type:captured', 'the filter does not compare against the maximum priority found over the candidates', loc(fn))
    # accepted leaf: the max_by_key winner or the single element of the tie list; early = None
    acc = None
    acc_op = None
    for ob, ox in oks:
        r = trace(fn, ox['rhs']['ops'][0])
        if r[0] == 'agg' and str(r[2]['rhs']['kind'].get('adt', '')).endswith('graph::StateType'):
            acc = desc(fn, ox['rhs']['ops'][0])
            flds = dict(zip(r[2]['rhs']['fields'], r[2]['rhs']['ops']))
            acc_op = flds
            if not fn.edge_dominates((guard['bb'], guard['single']), ob):
                rep.viol(rid, 'state-type:accept-edge', 'a leaf is accepted outside the edge on which exactly one leaf has the top priority', loc(fn, ox['line']))
    rep.inst(rid, 'state-type:accept', detail=(acc or '')[:300])
    ok_acc = False
    if acc_op is not None:
        a = trace(fn, acc_op.get('accept'))
        e = desc(fn, acc_op.get('early'))
        if a[0] == 'agg' and a[2]['rhs']['kind'].get('variant') == 'Some' and 'Option::None' in e:
            leaf = a[2]['rhs']['ops'][0]
            ld = desc(fn, leaf)
            sl = fn.slice(leaf)
            names = {fn.callee_name(t) for _b, t in sl.call_terms}
            from_winner = re.fullmatch(r'call:std::iter::Iterator::max_by_key\.0\.0', ld) is not None
            from_ties = payload in desc(fn, leaf) or (any(re.search(r'Iterator::collect$', n) for n in names) and any(re.search(r'Iterator::filter$', n) for n in names) and not sl.binops)
            ok_acc = from_winner or from_ties
    if not ok_acc:
        rep.viol(rid, 'state-type:accept', 'the accepted state type is %s, expected accept = the max_by_key winner or the single top-priority leaf, early = None' % (acc or '?')[:200], loc(fn))


def rule_no_conflict_dropped(rep, crate):
    rid = rep.rule('M-C08a', 'no conflict is dropped: the Err of get_state_type always pushes GraphError::Disambiguation(payload) into graph.errors; the scan covers every state of get_states (closure under 256 bytes + end of input from the universal start state)', floor=4)
    fn = crate.fns.get('graph::Graph::new')
    if not rep.anchor(rid, 'fn Graph::new', fn is not None):
        return
    calls = find_calls(fn, r'^graph::Graph::get_state_type$')
    if len(calls) != 1:
        rep.viol(rid, 'scan:call', 'expected one call of get_state_type in Graph::new', loc(fn))
        return
    cb, ct = calls[0]
    err_edge = None
    for sb in switches(fn):
        term = fn.blocks[sb]['term']
        r = trace(fn, term['discr'])
        if r[0] == 'discr' and r[2]['rhs']['place']['local'] == ct['dest']['local']:
            tg = dict((v, x) for v, x in term['targets'])
            err_edge = (sb, tg['1']) if '1' in tg else (sb, tg['otherwise'])
    pushes = []
    for b, t in find_calls(fn, r'vec::Vec::<T, A>::push$'):
        d = desc(fn, t['args'][1])
        if d == 'agg:graph::GraphError::Disambiguation{0=call:graph::Graph::get_state_type.0}' and 'errors' in desc(fn, t['args'][0]):
            pushes.append(b)
    rep.inst(rid, 'scan:err-push', detail=dict(err_edge=err_edge, pushes=len(pushes)))
    if err_edge is None or not pushes:
        rep.viol(rid, 'scan:dropped', 'the Err result of get_state_type is not pushed as GraphError::Disambiguation into graph.errors', loc(fn, ct['line']))
    elif not always_hits(fn, err_edge, pushes):
        rep.viol(rid, 'scan:dropped-sometimes', 'the Err result of get_state_type does not always reach the push into graph.errors', loc(fn, ct['line']))
    # domain of the scan
    a0 = fn.slice(ct['args'][0])
    dom_ok = any(re.search(r'hash_map::Iter<.*> as std::iter::Iterator>::next$', c) for c in a0.calls) and any(re.search(r'dfa_util::get_states$', c) for c in a0.calls)
    rep.inst(rid, 'scan:domain', detail=sorted(c for c in a0.calls if re.search(r'get_states|Iter|universal_start', c)))
    if not dom_ok:
        rep.viol(rid, 'scan:domain', 'get_state_type is not applied to every state of get_states(..)', loc(fn, ct['line']))
    gs = find_calls(fn, r'dfa_util::get_states$')
    if gs and 'universal_start_state' not in desc(fn, gs[0][1]['args'][1]):
        rep.viol(rid, 'scan:root', 'get_states does not start from the universal start state', loc(fn, gs[0][1]['line']))
    # nothing may skip a state before the check: the call is not guarded by any data dependent test inside the loop
    g = crate.fns.get('graph::dfa_util::get_states')
    ic = crate.fns.get('graph::dfa_util::iter_children')
    if rep.anchor(rid, 'fn get_states / iter_children', g is not None and ic is not None):
        fam = crate.body_family(g)       # the function and its closures (insert may sit in a filter closure)
        has = lambda pat: any(find_calls(f, pat) for f in fam)
        ok = has(r'dfa_util::iter_children$') and has(r'(HashSet::<T, S, A>|HashSet::<T, S>|BTreeSet::<T, A>|BTreeSet::<T>)::insert$') and has(r'Vec::<T, A>::push$|Extend<.*>>::extend$|Vec::<T, A>::extend\w*$|::extend_one$')
        d = ret_desc(ic)
        rng = re.search(r'RangeInclusive::<Idx>::new\(const:0,const:255\)', d) is not None
        clo = [c for c in crate.closures_of(ic)]
        ns = any(find_calls(c, r'Automaton>?::next_state$') for c in clo)
        eoi = 'next_eoi_state' in d
        rep.inst(rid, 'scan:closure', detail=dict(worklist=ok, bytes_0_255=rng, next_state=ns, eoi=eoi))
        if not (ok and rng and ns and eoi):
            rep.viol(rid, 'scan:closure', 'get_states / iter_children no longer explore all 256 byte successors plus the end-of-input successor of every state', loc(ic))
    # in generate, Disambiguation errors name every conflicting leaf
    gen = crate.fns.get('generate')
    if rep.anchor(rid, 'fn generate', gen is not None):
        for sb in switches(gen):
            term = gen.blocks[sb]['term']
            r = trace(gen, term['discr'])
            if r[0] == 'discr' and re.match(r'^&?graph::GraphError$', r[2]['rhs'].get('enum', '')):
                names = r[2]['rhs']['variants']
                for v, tgt in term['targets']:
                    if v != 'otherwise' and names[int(v)] == 'Disambiguation':
                        errs = [b for b, _t in find_calls(gen, r'parser::Parser::err$') if gen.edge_dominates((sb, tgt), b)]
                        loops = [b for b, t in gen.calls() if gen.edge_dominates((sb, tgt), b) and re.search(r'Iterator>::next$', gen.callee_name(t))]
                        rep.inst(rid, 'generate:disambiguation-arm', detail=dict(errs=len(errs), loops=len(loops)))
                        if not errs or not loops:
                            rep.viol(rid, 'generate:disambiguation-arm', 'the Disambiguation arm does not report every conflicting leaf', loc(gen, term['line']))


def run(ctx, rep):
    crate = ctx.mir('ws-default')['logos_codegen']
    rule_no_conflict_dropped(rep, crate)
    rule_state_type(rep, crate)
    from props import c19
    c19.rule_gate(rep, crate)
    from props import cg
    # the priorities compared are the documented ones (default priorities included in the property's quantifier)
    cg.rule_complexity(rep, crate)
    cg.rule_sites(rep, crate, want=('C09',))      # token default = 2 x byte length, regex default = Pattern::priority(), explicit overrides
    cg.rule_priority_parse(rep, crate)
    cg.rule_priority_writers(rep, crate)
    # the languages compared are the documented ones: literals are escaped by regex_syntax, subpatterns are spliced as flag-scoped groups
    cg.rule_literal_escape(rep, crate)
    cg.rule_subpatterns(rep, crate)
    cg.rule_sites(rep, crate, want=('C10',))      # ... and ignore(case) tokens are compiled as the definition says (flags, Unicode mode of the literal kind)
    cg.rule_compile_lit(rep, crate)
    cg.cg_controls(rep, ctx, [('M-C08a', rule_no_conflict_dropped)])
    from props import gen
    gen.rule_must_reject(ctx, rep, gen.configs(ctx), ['equal_priority'], floor=8)
    # converse on accepted definitions: no reachable match state of the reference automaton has two leaves at the top priority (kind reference-tie), and the graph holds the top-priority leaf
    gen.rule_automata(ctx, rep, gen.configs(ctx), want=('G20',))
    rep.trusted += ['rustc nightly MIR', 'engines/mirfacts', 'regex-automata: match_pattern enumerates all patterns matching in a state (MatchKind::All)']
    rep.assumptions += ['detection coincides with language intersection only modulo C01 (not claimed)']
