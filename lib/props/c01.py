"""C01 Longest match wins; ties broken by priority (maximal munch)."""
from props import cg, gen

ENGINE = 'genscan+mirfacts'
LEVEL = 'translation_validation'
TECHNIQUE = ('static translation validation: the derive is built with its own `debug` feature, so that while rustc expands the macro it prints, per definition, the leaves with their '
             'priorities, the regex-automata DFA it obtained for the patterns, its own graph and the root; lib/autlib.py parses them and lib/genlib.py extracts the transition system of the generated code '
             '(abstract interpretation of the expanded source). Two comparisons, no lexer is executed: generated code == graph (state by state), graph ~ DFA (exhaustive exploration of the product automaton '
             'over all 256 byte values and end of input). MIR rules pin the automaton configuration and the priority choice.')
EXPLANATION = ('Per generated program, for all inputs: for every accepted definition of the corpus (look-around, loops, forks, twins, permutations, pseudo-random definitions in the thorough tier) and of the '
               'repository\'s tests/examples, under both code generators, (G19) the transition system of the generated lexer is identical to the graph printed by the derive in the same run, and (G20) that graph '
               'is equivalent to the reference automaton: on every reachable pair of (DFA state, graph state) and every byte value / end of input the graph holds the same last match (end position and leaf = '
               'highest-priority pattern of the DFA match state, regex-automata\'s one-transition match delay taken into account), stops exactly when the reference can no longer reach a match and never runs into '
               'a dead reference state. Hence the item a lexer yields at a position is the longest prefix matched by some pattern with the highest-priority pattern of that prefix. On MIR: the DFA is built with '
               'MatchKind::All, anchored, from the leaves\' patterns in leaf order (M-C01a); get_state_type picks the maximum priority and reports ties (M-C08b). Trusted: regex-syntax / regex-automata (the DFA denotes '
               'the patterns\' languages), the Debug/Display printers of the DFA and the graph. "All definitions" is covered by the corpus, not proved.')
LEVEL_NOTE = ('Decides C01 for every analysed definition and every input by automaton comparison; the quantifier over definitions is covered by the corpus (thorough: plus seeded pseudo-random definitions). '
              'Trusted: regex-automata\'s DFA construction and its Debug output, logos\' Display of its graph, rustc macro expansion, syn, lib/genlib.py, lib/autlib.py.')


def run(ctx, rep):
    crate = ctx.mir('ws-default')['logos_codegen']
    cg.rule_dfa_config(rep, crate)
    cg.rule_dfa_heuristics(rep, crate)
    from props import c08
    c08.rule_state_type(rep, crate)
    # both runtimes hand the automaton the source's own bytes: read(offset) is the byte-level sub-slice at offset, None only at the end
    from props import rt
    rt.rule_read_bounds(rep, ctx.mir('ws-default')['logos'], 'ws-default')
    rt.rule_read_forbid(rep, ctx.mir('logos-forbid')['logos'], 'logos-forbid')
    gen.rules_c01(ctx, rep)
    rep.trusted += ['regex-syntax, regex-automata (NFA/DFA construction, Debug output of dense::DFA)', 'logos-codegen Display of Graph/StateData/ByteClass', 'rustc macro expansion (-Zunpretty=expanded)', 'syn', 'engines/genscan', 'lib/genlib.py', 'lib/autlib.py']
    rep.assumptions += ['the debug feature only adds printing (checked: generated code is token-identical with and without it, rule G21 in the thorough tier)']
