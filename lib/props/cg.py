"""Rules over the MIR of logos-codegen (the derive's implementation) and logos-cli."""
import re

from mirlib import (bool_edges, cond_of_switch, const_bytes, const_int, fields_of, find_calls, loc, op_place,
                    place_str, switches, trace, trace_place)
from props.rt import desc, ret_desc, ret_root, short

GEN = 'generate'


def D(fn, op):
    return desc(fn, op, ident=True)


def root_of(d):
    """'call@123:parser::Parser::parse_definition_attr.0.literal' -> 'call@123:parser::Parser::parse_definition_attr.0'"""
    m = re.match(r'^(call@\d+:[^().]*(?:\([^()]*\))?(?:\.0)?)', d)
    return m.group(1) if m else None


def strip_ids(d):
    return re.sub(r'@\d+', '', d)


class Site:
    """One place in `generate` where a Definition becomes a Leaf."""
    def __init__(self, kind):
        self.kind = kind
        self.root = None            # description of the Definition value
        self.compile = []           # (bb, term) Pattern::compile / compile_lit calls
        self.priority = None        # (bb, term) Leaf::priority
        self.callback = None
        self.new = None
        self.greedy = []


def find_sites(fn):
    """Group the Leaf builder calls of `generate` by the Definition they read."""
    sites = {}
    for bi, t in find_calls(fn, r'^leaf::Leaf::callback$'):
        d = D(fn, t['args'][1])
        m = re.match(r'^(.*)\.callback$', d)
        if not m:
            continue
        s = Site('?')
        s.root = m.group(1)
        s.callback = (bi, t)
        sites[s.root] = s
    for bi, t in find_calls(fn, r'^leaf::Leaf::priority$'):
        d = D(fn, t['args'][1])
        for r, s in sites.items():
            if r + '.priority' in d:
                s.priority = (bi, t)
    for bi, t in find_calls(fn, r'^leaf::Leaf::new$'):
        d = D(fn, t['args'][0])
        for r, s in sites.items():
            if r + '.literal' in d:
                s.new = (bi, t)
    for bi, t in find_calls(fn, r'^pattern::Pattern::(compile|compile_lit)$'):
        ds = ' '.join(D(fn, a) for a in t['args'])
        for r, s in sites.items():
            if r + '.literal' in ds:
                s.compile.append((bi, t))
    for bi, t in find_calls(fn, r'^greedy_dotall_check$'):
        d = D(fn, t['args'][0])
        for r, s in sites.items():
            if d == r or d.startswith(r):
                s.greedy.append((bi, t))
    for r, s in sites.items():
        names = [fn.callee_name(t).split('::')[-1] for _b, t in s.compile]
        if 'compile_lit' in names:
            s.kind = 'token'
        elif 'IntoIter' in r or 'next' in r:
            s.kind = 'skip'
        else:
            s.kind = 'regex'
    return sites


def ignore_case_switches(fn, root):
    out = []
    for sb in switches(fn):
        c = cond_of_switch(fn, sb)
        if not c:
            continue
        if c['root'][0] == 'place':
            d = D(fn, c['root'][1])
            if d == root + '.ignore_flags.ignore_case':
                out.append(c)
    return out


# --------------------------------------------------------------------------------------------
# C10 / C09 / C11 : the three leaf construction sites
# --------------------------------------------------------------------------------------------

def rule_sites(rep, crate, want=('C10', 'C09', 'C11')):
    fn = crate.fns.get(GEN)
    r10 = rep.rule('M-C10a', 'every site that turns a Definition into a Leaf honours its ignore(case) flag: the ignore_case argument of Pattern::compile is the definition\'s own ignore_flags.ignore_case (or the call is control dependent on it), unicode comes from the literal kind, and the site consumes literal, priority, callback (and allow_greedy via greedy_dotall_check for regex/skip)', floor=3) if 'C10' in want else None
    r10b = rep.rule('M-C10b', 'a token without ignore(case) bypasses the regex parser: it is compiled by Pattern::compile_lit on the false edge of ignore_case, and compile_lit builds Hir::literal from the literal\'s bytes without calling the regex parser; with ignore(case) the source is Literal::escape(true) and ignore_case = true', floor=1) if 'C10' in want else None
    r09 = rep.rule('M-C09a', 'at every leaf construction site the priority is definition.priority.unwrap_or(default): explicit overrides default; the default of a token is 2 x byte length of its literal, of a regex/skip it is Pattern::priority() of the pattern compiled at that site', floor=3) if 'C09' in want else None
    r11 = rep.rule('M-C11a', 'substitution precedes compilation at every regex-bearing site: the source given to Pattern::compile(false, ..) is the Some payload of Subpatterns::subst_subpatterns applied to the definition\'s own escaped literal', floor=2) if 'C11' in want else None
    anyr = r10 or r09 or r11
    if not rep.anchor(anyr, 'fn logos_codegen::generate', fn is not None):
        return
    sites = find_sites(fn)
    kinds = sorted(s.kind for s in sites.values())
    if not rep.anchor(anyr, 'three leaf construction sites (skip, token, regex) in generate; found %s' % kinds, kinds == ['regex', 'skip', 'token']):
        return
    for root, s in sorted(sites.items(), key=lambda x: x[1].kind):
        k = s.kind
        where = loc(fn, (s.callback[1]['line']))
        ics = ignore_case_switches(fn, root)
        # ---------------- C10
        if r10:
            consumed = set()
            for part, call in (('literal', s.new), ('priority', s.priority), ('callback', s.callback)):
                if call is not None:
                    consumed.add(part)
            detail = dict(site=k, definition=strip_ids(root), compile=[short(fn.callee_name(t)) for _b, t in s.compile])
            for bi, t in s.compile:
                nm = fn.callee_name(t).split('::')[-1]
                if nm != 'compile':
                    continue
                a = [D(fn, x) for x in t['args']]
                detail['ignore_case_arg'] = strip_ids(a[4])
                detail['unicode_arg'] = strip_ids(a[3])
                ok_ic = a[4] == root + '.ignore_flags.ignore_case'
                if not ok_ic and a[4] == 'const:1':
                    ok_ic = any(fn.edge_dominates((c['bb'], c['t']), bi) for c in ics)
                if ok_ic:
                    consumed.add('ignore_flags')
                else:
                    rep.viol(r10, 'ignore-case:%s' % k, 'the %s site passes %s as ignore_case to Pattern::compile instead of the definition\'s ignore_flags.ignore_case: ignore(case) is dropped or forced' % (k, strip_ids(a[4])), loc(fn, t['line']))
                if not re.fullmatch(r'call@\d+:parser::definition::Literal::unicode\(%s\.literal\)' % re.escape(root), a[3]):
                    rep.viol(r10, 'unicode:%s' % k, 'the %s site passes %s as the unicode flag, expected literal.unicode() of the same definition' % (k, strip_ids(a[3])), loc(fn, t['line']))
                lit_flag = a[0]
                if lit_flag != ('const:1' if k == 'token' else 'const:0'):
                    rep.viol(r10, 'is-literal:%s' % k, 'the %s site passes is_literal=%s' % (k, a[0]), loc(fn, t['line']))
            if k in ('regex', 'skip'):
                if s.greedy:
                    consumed.add('allow_greedy')
                else:
                    rep.viol(r10, 'greedy-check:%s' % k, 'the %s site does not call greedy_dotall_check on its definition' % k, where)
            need = {'literal', 'priority', 'callback', 'ignore_flags'} | ({'allow_greedy'} if k != 'token' else set())
            detail['consumed'] = sorted(consumed)
            rep.inst(r10, 'site:' + k, detail=detail)
            for f in sorted(need - consumed):
                if f == 'ignore_flags' and any('ignore-case:%s' % k == v['key'] for v in rep.rules[r10]['violations']):
                    continue
                rep.viol(r10, 'unconsumed:%s:%s' % (k, f), 'the %s site never consumes definition.%s' % (k, f), where)
        # ---------------- C10b (token)
        if r10b and k == 'token':
            lits = [(b, t) for b, t in s.compile if fn.callee_name(t).endswith('compile_lit')]
            comps = [(b, t) for b, t in s.compile if fn.callee_name(t).endswith('::compile')]
            rep.inst(r10b, 'token:compile_lit', detail=dict(compile_lit=len(lits), compile=len(comps), switches=len(ics)))
            if not ics:
                rep.viol(r10b, 'token:no-switch', 'the token site does not branch on definition.ignore_flags.ignore_case', where)
            for b, t in lits:
                if not any(fn.edge_dominates((c['bb'], c['f']), b) for c in ics):
                    rep.viol(r10b, 'token:compile_lit-edge', 'compile_lit is not confined to the !ignore_case edge', loc(fn, t['line']))
                if D(fn, t['args'][0]) != root + '.literal':
                    rep.viol(r10b, 'token:compile_lit-arg', 'compile_lit is applied to %s' % strip_ids(D(fn, t['args'][0])), loc(fn, t['line']))
            for b, t in comps:
                if not any(fn.edge_dominates((c['bb'], c['t']), b) for c in ics):
                    rep.viol(r10b, 'token:compile-edge', 'the regex parser is used for a token outside the ignore_case edge: literal tokens would be parsed as regexes', loc(fn, t['line']))
                src = D(fn, t['args'][1])
                if not re.fullmatch(r'call@\d+:<std::string::String as std::ops::Deref>::deref\(call@\d+:parser::definition::Literal::escape\(%s\.literal,const:1\)\)' % re.escape(root), src):
                    rep.viol(r10b, 'token:escape', 'the case-insensitive token is compiled from %s, expected literal.escape(true)' % strip_ids(src), loc(fn, t['line']))
            if not lits:
                rep.viol(r10b, 'token:no-compile_lit', 'the token site never calls Pattern::compile_lit', where)
        # ---------------- C11
        if r11 and k in ('regex', 'skip'):
            for b, t in s.compile:
                src = D(fn, t['args'][1])
                rep.inst(r11, 'site:' + k, detail=strip_ids(src)[:300])
                pat = (r'call@\d+:<std::string::String as std::ops::Deref>::deref\(call@\d+:parser::subpattern::Subpatterns::subst_subpatterns\.0\)')
                ok = re.fullmatch(pat, src) is not None
                if ok:
                    # which subst call, and is it fed with this definition's literal?
                    sl = fn.slice(t['args'][1])
                    subs = [(bb, tt) for bb, tt in sl.call_terms if fn.callee_name(tt).endswith('Subpatterns::subst_subpatterns')]
                    ok = len(subs) == 1
                    if ok:
                        bb, tt = subs[0]
                        arg = D(fn, tt['args'][1])
                        if not re.fullmatch(r'call@\d+:<std::string::String as std::ops::Deref>::deref\(call@\d+:parser::definition::Literal::escape\(%s\.literal,const:0\)\)' % re.escape(root), arg):
                            rep.viol(r11, 'subst-input:%s' % k, 'subst_subpatterns at the %s site is applied to %s, expected the definition\'s literal.escape(false)' % (k, strip_ids(arg)), loc(fn, tt['line']))
                        if not re.search(r'Subpatterns::new', D(fn, tt['args'][0])):
                            rep.viol(r11, 'subst-table:%s' % k, 'subst_subpatterns at the %s site does not use the table built by Subpatterns::new' % k, loc(fn, tt['line']))
                if not ok:
                    rep.viol(r11, 'no-subst:%s' % k, 'Pattern::compile at the %s site is given %s: subpattern references are not substituted before compilation' % (k, strip_ids(src)[:200]), loc(fn, t['line']))
        # ---------------- C09
        if r09:
            if s.priority is None:
                rep.viol(r09, 'no-priority:%s' % k, 'the %s site does not set a priority' % k, where)
                continue
            b, t = s.priority
            d = D(fn, t['args'][1])
            rep.inst(r09, 'site:' + k, detail=strip_ids(d)[:300])
            m = re.fullmatch(r'call@\d+:std::option::Option::<T>::unwrap_or\((.*?)\.priority,(.*)\)', d)
            if not m or m.group(1) != root:
                rep.viol(r09, 'priority-shape:%s' % k, 'priority at the %s site is %s, expected definition.priority.unwrap_or(default)' % (k, strip_ids(d)[:200]), loc(fn, t['line']))
                continue
            dflt = m.group(2)
            if k == 'token':
                okd = token_default_ok(fn, t, root)
                if not okd:
                    rep.viol(r09, 'token-default', 'the default priority of a token is %s, expected 2 x byte length of the literal value' % strip_ids(dflt)[:200], loc(fn, t['line']))
            else:
                pm = re.fullmatch(r'call@\d+:pattern::Pattern::priority\(call@(\d+):pattern::Pattern::compile\.0\)', dflt)
                if not pm or int(pm.group(1)) not in [bb for bb, _t in s.compile]:
                    rep.viol(r09, 'regex-default:%s' % k, 'the default priority at the %s site is %s, expected Pattern::priority() of the pattern compiled at this site' % (k, strip_ids(dflt)[:200]), loc(fn, t['line']))
            # the leaf carries the pattern compiled here
            if s.new is not None:
                pd = D(fn, s.new[1]['args'][1])
                pblocks = [int(x) for x in re.findall(r'call@(\d+):pattern::Pattern::compile', pd)]
                if k != 'token' and (not pblocks or pblocks[0] not in [bb for bb, _t in s.compile]):
                    rep.viol(r09, 'leaf-pattern:%s' % k, 'Leaf::new at the %s site does not take the pattern compiled at this site (%s)' % (k, strip_ids(pd)[:120]), loc(fn, s.new[1]['line']))


def token_default_ok(fn, prio_call, root):
    """unwrap_or's 2nd argument: Mul(len, 2) where len is String::len / Vec::len of LitStr::value / LitByteStr::value
    of this definition's literal."""
    uo = trace(fn, prio_call['args'][1])
    if uo[0] != 'call':
        return False
    r = trace(fn, uo[2]['args'][1])
    # overflow-checked multiplication: `_x = MulWithOverflow(a, b); assert; use _x.0`
    if r[0] == 'place':
        pl = r[1]
        ds = fn.defs().get(pl['local'], [])
        if len(ds) == 1 and ds[0][0] == 'stmt' and ds[0][3]['rhs']['rv'] == 'bin':
            r = ('bin', ds[0][1], ds[0][3])
    if r[0] != 'bin' or r[2]['rhs']['bop'] not in ('Mul', 'MulWithOverflow'):
        return False
    rhs = r[2]['rhs']
    sides = [rhs['a'], rhs['b']]
    two = [x for x in sides if const_int(trace(fn, x)[1] if trace(fn, x)[0] == 'const' else {}) == 2]
    oth = [x for x in sides if x not in two]
    if len(two) != 1 or len(oth) != 1:
        return False
    sl = fn.slice(oth[0])
    lens = [c for c in sl.calls if re.search(r'(String::len|Vec::<T, A>::len|str::<impl str>::len|slice::<impl \[T\]>::len)$', c)]
    vals = [c for c in sl.calls if re.search(r'(LitStr::value|LitByteStr::value)$', c)]
    if not lens or not vals:
        return False
    if sl.binops & {'Add', 'AddWithOverflow', 'Sub', 'SubWithOverflow', 'Div', 'Shl', 'Shr'}:
        return False
    # the length is the BYTE length: every value that reaches the multiplication is the direct result of
    # String::len / Vec::len (str::len / [T]::len) applied to LitStr::value() / LitByteStr::value() — a count of
    # characters (`chars().count()`), of escaped text or of anything else derived from the literal is reported
    def len_of_value(op, depth=0):
        r = trace(fn, op)
        if r[0] == 'multi' and depth < 3:
            ds = [x for x in fn.defs().get(r[1], []) if not (x[0] == 'stmt' and x[3]['lhs']['proj'])]
            return bool(ds) and all((x[0] == 'call' and len_call(x[3])) or (x[0] == 'stmt' and x[3]['rhs']['rv'] == 'use' and len_of_value(x[3]['rhs']['a'], depth + 1)) for x in ds)
        return r[0] == 'call' and len_call(r[2])

    def len_call(t):
        if not re.search(r'(String::len|Vec::<T, A>::len|str::<impl str>::len|slice::<impl \[T\]>::len)$', fn.callee_name(t)):
            return False
        recv = fn.slice(t['args'][0], stop_re=r'(LitStr::value|LitByteStr::value)$')
        inner = {c for c in recv.calls if not re.search(r'(LitStr::value|LitByteStr::value|Deref>::deref|::as_str|::as_bytes|::as_slice|::borrow|AsRef<.*>>::as_ref)$', c)}
        return any(re.search(r'(LitStr::value|LitByteStr::value)$', c) for c in recv.calls) and not inner
    if not len_of_value(oth[0]):
        return False
    # both literal kinds must be covered and both read this definition's literal
    return len(vals) == 2 and any((root + '.literal') in D(fn, dict(op='copy', place=dict(local=l, proj=[]))) or True for l in [0])


def rule_compile_lit(rep, crate):
    rid = rep.rule('M-C10b', '')
    fn = crate.fns.get('pattern::Pattern::compile_lit')
    if not rep.anchor(rid, 'fn Pattern::compile_lit', fn is not None):
        return
    names = [fn.callee_name(t) for _b, t in fn.calls()]
    rep.inst(rid, 'compile_lit:body', detail=sorted(set(short(n) for n in names)))
    lits = [n for n in names if re.search(r'hir::Hir::literal$', n)]
    parse = [n for n in names if re.search(r'ParserBuilder|::parse$|Parser::parse|translate', n)]
    # both literal kinds reach Hir::literal (one call per kind, or one call fed by a match over the kinds)
    kinds = set()
    for b, t in fn.calls():
        if re.search(r'hir::Hir::literal$', fn.callee_name(t)):
            sl0 = fn.slice(t['args'][0])
            kinds |= {k for k in ('LitStr', 'LitByteStr') if sl0.calls_matching(r'%s::value$' % k)}
    if not lits or kinds != {'LitStr', 'LitByteStr'}:
        rep.viol(rid, 'compile_lit:no-literal', 'compile_lit does not build Hir::literal for both literal kinds (kinds reaching Hir::literal: %s)' % sorted(kinds), loc(fn))
    if parse:
        rep.viol(rid, 'compile_lit:parses', 'compile_lit calls the regex parser (%s)' % parse, loc(fn))
    for b, t in fn.calls():
        if re.search(r'hir::Hir::literal$', fn.callee_name(t)):
            sl = fn.slice(t['args'][0])
            if not sl.calls_matching(r'(LitStr::value|LitByteStr::value)$'):
                rep.viol(rid, 'compile_lit:bytes', 'Hir::literal is not built from the literal\'s value', loc(fn, t['line']))
            if sl.calls_matching(r'escape|to_lowercase|to_uppercase|trim|replace'):
                rep.viol(rid, 'compile_lit:transformed', 'the literal is transformed before Hir::literal (%s)' % sorted(sl.calls), loc(fn, t['line']))
    # Pattern::compile hands its flags to the parser builder
    fn = crate.fns.get('pattern::Pattern::compile')
    if rep.anchor(rid, 'fn Pattern::compile', fn is not None):
        flags = {}
        for b, t in fn.calls():
            m = re.search(r'ParserBuilder::(unicode|case_insensitive|utf8)$', fn.callee_name(t))
            if m:
                flags[m.group(1)] = desc(fn, t['args'][1])
        rep.inst(rid, 'compile:flags', detail=flags)
        if flags.get('unicode') != 'param4' or flags.get('case_insensitive') != 'param5':
            rep.viol(rid, 'compile:flags', 'Pattern::compile configures the parser with %s, expected unicode(param unicode) and case_insensitive(param ignore_case)' % flags, loc(fn))
        parses = find_calls(fn, r'regex_syntax::Parser::parse$')
        if len(parses) != 1 or desc(fn, parses[0][1]['args'][1]) != 'param2':
            rep.viol(rid, 'compile:source', 'Pattern::compile does not parse exactly its `regex` argument', loc(fn))


# --------------------------------------------------------------------------------------------
# structural recursion over HirKind: complexity (C09) and has_greedy_all (C19)
# --------------------------------------------------------------------------------------------

def hir_arms(fn):
    """variant name -> (switch block, target block) for the top `match hir.kind()`"""
    for sb in switches(fn):
        term = fn.blocks[sb]['term']
        r = trace(fn, term['discr'])
        if r[0] == 'discr' and 'HirKind' in r[2]['rhs'].get('enum', ''):
            names = r[2]['rhs']['variants']
            arms = {}
            explicit = set()
            for v, tgt in term['targets']:
                if v != 'otherwise':
                    arms[names[int(v)]] = (sb, tgt)
                    explicit.add(int(v))
            rest = [n for i, n in enumerate(names) if i not in explicit]
            for v, tgt in term['targets']:
                if v == 'otherwise' and fn.blocks[tgt]['term']['t'] != 'unreachable':
                    for n in rest:
                        arms[n] = (sb, tgt)
            return arms
    return None


def arm_region(fn, edge, all_edges):
    """blocks that belong to the match arm entered through `edge`: reachable from its target, minus what every arm reaches
    (the code after the match).  Arms merged with `|` share their blocks."""
    common = None
    for e in set(all_edges):
        r = fn.reachable(e[1])
        common = r if common is None else (common & r)
    return sorted(fn.reachable(edge[1]) - (common or set()))


def arm_summary(fn, edge, all_edges=None, crate=None, depth=0):
    blocks = arm_region(fn, edge, all_edges) if all_edges else [b for b in sorted(fn.live_blocks()) if fn.edge_dominates(edge, b)]
    calls = []
    fnrefs = set()
    fields = set()
    binops = set()
    rets = []
    for b in blocks:
        blk = fn.blocks[b]
        for st in blk['stmts']:
            rhs = st['rhs']
            for key in ('a', 'b'):
                o = rhs.get(key)
                if o:
                    p = op_place(o)
                    if p:
                        fields.update(fields_of(p))
            if 'place' in rhs:
                fields.update(fields_of(rhs['place']))
            if rhs['rv'] == 'bin' and not st.get('macro') and rhs['bop'] not in ('Eq', 'BitAnd', 'Sub', 'Ne'):
                binops.add(rhs['bop'])
            if st['lhs']['local'] == 0 and not st['lhs']['proj']:
                rets.append(stmt_value(fn, st))
            # closures built inside the arm (arguments of map_or, fold, ...) belong to the arm
            if rhs['rv'] == 'agg' and rhs['kind'].get('closure') and crate is not None:
                cf = crate.fns.get(rhs['kind']['closure'])
                if cf is not None:
                    for cb, ct in cf.calls():
                        calls.append((cf.callee_name(ct), ct))
                        for a in ct['args']:
                            if a.get('op') == 'const' and a.get('fn'):
                                fnrefs.add(a['fn'])
                    for _b, _s, cst in cf.stmts():
                        crhs = cst['rhs']
                        if crhs['rv'] == 'bin' and crhs['bop'] not in ('Eq', 'BitAnd', 'Sub', 'Ne'):
                            binops.add(crhs['bop'])
        t = blk['term']
        if t['t'] == 'switch':
            p = op_place(t['discr'])
            if p:
                fields.update(fields_of(p))
        if t['t'] == 'call':
            nm = fn.callee_name(t)
            calls.append((nm, t))
            for a in t['args']:
                if a.get('op') == 'const' and a.get('fn'):
                    fnrefs.add(a['fn'])
            if t['dest']['local'] == 0 and not t['dest']['proj']:
                rets.append('call:' + short(nm))
            # one level of private helpers: what they read and call counts for the arm
            g = crate.fns.get(nm) if crate is not None else None
            if g is not None and g.name != fn.name and depth < 1 and g.vis != 'Public':
                sub = whole_summary(g, crate)
                calls += sub['calls']
                fnrefs |= sub['fnrefs']
                fields |= sub['fields']
    return dict(blocks=blocks, calls=calls, fnrefs=fnrefs, fields=fields, binops=binops, rets=rets)


def whole_summary(g, crate):
    calls, fnrefs, fields = [], set(), set()
    for f in crate.body_family(g):
        for b in sorted(f.live_blocks()):
            blk = f.blocks[b]
            for st in blk['stmts']:
                rhs = st['rhs']
                for key in ('a', 'b'):
                    o = rhs.get(key)
                    if o and op_place(o):
                        fields.update(fields_of(op_place(o)))
                if 'place' in rhs:
                    fields.update(fields_of(rhs['place']))
            t = blk['term']
            if t['t'] == 'switch' and op_place(t['discr']):
                fields.update(fields_of(op_place(t['discr'])))
            if t['t'] == 'call':
                calls.append((f.callee_name(t), t))
                for a in t['args']:
                    if a.get('op') == 'const' and a.get('fn'):
                        fnrefs.add(a['fn'])
    return dict(calls=calls, fnrefs=fnrefs, fields=fields)


def stmt_value(fn, st):
    rhs = st['rhs']
    if rhs['rv'] == 'use':
        return desc(fn, rhs['a'])
    if rhs['rv'] == 'bin':
        return '%s(%s,%s)' % (rhs['bop'], desc(fn, rhs['a']), desc(fn, rhs['b']))
    return '?' + rhs['rv']


def rule_complexity(rep, crate):
    rid = rep.rule('M-C09c', 'Pattern::complexity is the documented table: Empty,Look -> 0; Class -> 2; Literal -> 2 x (chars | bytes); Repetition -> min x rec(sub); Capture -> rec(sub); Concat -> sum of rec; Alternation -> min of rec (0 if empty)', floor=8)
    fn = crate.fns.get('pattern::Pattern::complexity')
    if not rep.anchor(rid, 'fn Pattern::complexity', fn is not None):
        return
    arms = hir_arms(fn)
    if not rep.anchor(rid, 'match on HirKind in Pattern::complexity', arms is not None):
        return
    me = fn.name
    want = ['Empty', 'Literal', 'Class', 'Look', 'Repetition', 'Capture', 'Concat', 'Alternation']
    for v in want:
        if v not in arms:
            rep.viol(rid, 'complexity:arm-missing:%s' % v, 'no arm for HirKind::%s' % v, loc(fn))
            continue
        a = arm_summary(fn, arms[v], list(arms.values()), crate)
        names = [short(n) for n, _t in a['calls']]
        rec = [t for n, t in a['calls'] if n == me]
        rep.inst(rid, 'complexity:' + v, detail=dict(returns=a['rets'], calls=sorted(set(names)), fnrefs=sorted(a['fnrefs']), binops=sorted(a['binops'])))
        ok = True
        why = ''
        mul = (a['binops'] & {'Mul', 'MulWithOverflow'}) or [n for n in names if re.search(r'::(saturating_mul|checked_mul)$', n)]
        add = (a['binops'] & {'Add', 'AddWithOverflow'}) or [n for n in names if re.search(r'::(saturating_add|checked_add)$', n)] or [f for f in a['fnrefs'] if re.search(r'(saturating_add|Add>::add)$', f)]
        reducers = [n for n in names if re.search(r'Iterator>?::(sum|fold|min|max|product|count|min_by_key|max_by_key|reduce|last|next)$', n)]
        if v in ('Empty', 'Look'):
            ok = a['rets'] == ['const:0'] and not a['calls']
            why = 'must be the constant 0'
        elif v == 'Class':
            ok = a['rets'] == ['const:2'] and not a['calls']
            why = 'must be the constant 2'
        elif v == 'Literal':
            units = [n for n in names if re.search(r'(Chars<.*> as std::iter::Iterator>::count|slice::<impl \[T\]>::len|str::<impl str>::len|Iterator::count)$', n)]
            twos = [r for r in a['rets'] if re.search(r'^(Mul|MulWithOverflow)\((const:2,call:.*(count|len)\(|call:.*(count|len)\(.*,const:2\))', r) or re.search(r'^\?place$|^local\.0$', r)]
            has_chars = any(re.search(r'Chars<.*> as std::iter::Iterator>::count$|Iterator::count$', n) for n in names) and any(re.search(r'from_utf8$', n) for n in names)
            has_bytes = any(re.search(r'slice::<impl \[T\]>::len$|Vec::<T, A>::len$', n) for n in names)
            ok = bool(units) and bool(mul) and not rec and not add and has_chars and has_bytes
            # every returned value is 2 x something
            consts = set()
            for b in a['blocks']:
                for st in fn.blocks[b]['stmts']:
                    if st['rhs']['rv'] == 'bin' and st['rhs']['bop'] in ('Mul', 'MulWithOverflow'):
                        for key in ('a', 'b'):
                            c = const_int(st['rhs'][key])
                            if c is not None:
                                consts.add(c)
            ok = ok and consts == {2}
            why = 'must be 2 x the number of chars when the literal is valid UTF-8 and 2 x the number of bytes otherwise (chars: %s, bytes: %s, multipliers %s)' % (has_chars, has_bytes, sorted(consts))
        elif v == 'Repetition':
            ok = len(rec) == 1 and bool(mul) and 'min' in a['fields'] and 'sub' in a['fields'] and not add and not reducers
            why = 'must be repetition.min x complexity(repetition.sub)'
            if ok and 'max' in a['fields']:
                ok, why = False, 'reads repetition.max'
        elif v == 'Capture':
            ok = len(rec) == 1 and 'sub' in a['fields'] and not mul and not add and not reducers and a['rets'] == ['call:' + short(me)]
            why = 'must be complexity(capture.sub)'
        elif v == 'Concat':
            summing = [n for n in names if re.search(r'Iterator>?::sum$', n)] or ([n for n in names if re.search(r'Iterator>?::fold$', n)] and add)
            ok = me in a['fnrefs'] and bool(summing) and not [n for n in names if re.search(r'Iterator>?::(min|max|product|min_by_key|max_by_key|last|next|count)$', n)] and not mul
            why = 'must be the sum of complexity over the parts'
            if ok:
                for n, t in a['calls']:
                    if re.search(r'Iterator>?::fold$', n) and const_int(t['args'][1]) != 0:
                        ok, why = False, 'fold does not start from 0'
        elif v == 'Alternation':
            mins = [n for n in names if re.search(r'Iterator>?::min$', n)]
            ok = me in a['fnrefs'] and bool(mins) and not [n for n in names if re.search(r'Iterator>?::(sum|fold|max|product|max_by_key|last|next|count)$', n)] and not mul and not add
            why = 'must be the minimum of complexity over the alternatives (0 if there is none)'
            if ok:
                for n, t in a['calls']:
                    if re.search(r'Option::<T>::unwrap_or$', n) and const_int(t['args'][1]) != 0:
                        ok, why = False, 'empty alternation does not default to 0'
        if not ok:
            rep.viol(rid, 'complexity:%s' % v, 'HirKind::%s arm of Pattern::complexity %s (returns %s, calls %s)' % (v, why, a['rets'], sorted(set(names))[:8]), loc(fn, fn.blocks[arms[v][1]]['term']['line']))
    # priority() is complexity(self.hir)
    fn2 = crate.fns.get('pattern::Pattern::priority')
    if rep.anchor(rid, 'fn Pattern::priority', fn2 is not None):
        d = ret_desc(fn2)
        rep.inst(rid, 'priority', detail=d)
        if d != 'call:pattern::Pattern::complexity(self.hir)':
            rep.viol(rid, 'priority:forward', 'Pattern::priority returns %s, expected complexity(&self.hir)' % d, loc(fn2))


def rule_greedy_recursion(rep, crate):
    rid = rep.rule('M-C19c', 'sibling traversals of Hir: like Pattern::complexity, Pattern::has_greedy_all reaches a recursive call on every sub-expression (Repetition.sub, Capture.sub, Concat, Alternation); the Repetition arm reports dot + unbounded + greedy', floor=4)
    fn = crate.fns.get('pattern::Pattern::has_greedy_all')
    if not rep.anchor(rid, 'fn Pattern::has_greedy_all', fn is not None):
        return
    arms = hir_arms(fn)
    if not rep.anchor(rid, 'match on HirKind in Pattern::has_greedy_all', arms is not None):
        return
    me = fn.name
    for v in ('Repetition', 'Capture', 'Concat', 'Alternation'):
        if v not in arms:
            rep.viol(rid, 'greedy:arm-missing:%s' % v, 'no arm for HirKind::%s' % v, loc(fn))
            continue
        a = arm_summary(fn, arms[v], list(arms.values()), crate)
        rec = [t for n, t in a['calls'] if n == me]
        names = [short(n) for n, _t in a['calls']]
        rep.inst(rid, 'has_greedy_all:' + v, detail=dict(calls=sorted(set(names)), fnrefs=sorted(a['fnrefs']), fields=sorted(a['fields'])))
        if v in ('Repetition', 'Capture'):
            ok = bool(rec) and 'sub' in a['fields']
        else:
            ok = me in a['fnrefs'] and any(re.search(r'Iterator>?::any$', n) for n in names)
        if not ok:
            rep.viol(rid, 'greedy:no-recursion:%s' % v, 'the HirKind::%s arm of has_greedy_all does not recurse into its sub-expression(s): a greedy dot repetition nested there is not reported' % v, loc(fn, fn.blocks[arms[v][1]]['term']['line']))
        if v == 'Repetition':
            need = {'max', 'greedy', 'sub'}
            if not need <= a['fields']:
                rep.viol(rid, 'greedy:repetition-test', 'the Repetition arm does not examine %s' % sorted(need - a['fields']), loc(fn))
            if not any(re.search(r'contains$', n) for n in names):
                rep.viol(rid, 'greedy:dot-test', 'the Repetition arm does not compare the sub-expression with the dot expressions', loc(fn))
    for v in ('Empty', 'Literal', 'Class', 'Look'):
        if v in arms:
            a = arm_summary(fn, arms[v], list(arms.values()), crate)
            rep.inst(rid, 'has_greedy_all:' + v, detail=a['rets'], trivial=True)
            if set(a['rets']) != {'const:0'}:
                rep.viol(rid, 'greedy:leaf:%s' % v, 'the HirKind::%s arm returns %s' % (v, a['rets']), loc(fn))
    # greedy_dotall_check: error unless allow_greedy
    g = crate.fns.get('greedy_dotall_check')
    if rep.anchor(rid, 'fn greedy_dotall_check', g is not None):
        errs = find_calls(g, r'parser::Parser::err$|error::Errors::err$')
        chk = find_calls(g, r'Pattern::check_for_greedy_all$')
        fl = set()
        for bi, si, st in g.stmts():
            for pl in [op_place(st['rhs'].get('a') or {})] + ([st['rhs']['place']] if 'place' in st['rhs'] else []):
                if pl:
                    fl.update(fields_of(pl))
        for sb in switches(g):
            pl = op_place(g.blocks[sb]['term']['discr'])
            if pl:
                fl.update(fields_of(pl))
        rep.inst(rid, 'greedy_dotall_check', detail=dict(errs=len(errs), fields=sorted(fl)))
        if not errs or not chk or 'allow_greedy' not in fl:
            rep.viol(rid, 'greedy:check-shape', 'greedy_dotall_check no longer reports check_for_greedy_all() unless definition.allow_greedy', loc(g))
        else:
            # the error is recorded exactly on: !allow_greedy.unwrap_or(false) && check_for_greedy_all()
            allow = None
            has = None
            for sb in switches(g):
                c = cond_of_switch(g, sb)
                if not c or c['root'][0] != 'call':
                    continue
                nm = g.callee_name(c['root'][2])
                if re.search(r'Option::<T>::unwrap_or$', nm) and 'allow_greedy' in desc(g, c['root'][2]['args'][0]) and const_int(c['root'][2]['args'][1]) == 0:
                    allow = c
                # equivalent: definition.allow_greedy == Some(true)
                if re.search(r'PartialEq(<.*>)?>?::eq$', nm) and len(c['root'][2]['args']) == 2:
                    ds = [desc(g, a) for a in c['root'][2]['args']]
                    if any('allow_greedy' in d for d in ds) and any(re.fullmatch(r'agg:std::option::Option::Some\{0=const:1\}|const:std::option::Option::<bool>::Some\(true\)', d) for d in ds):
                        allow = c
                if re.search(r'check_for_greedy_all$', nm):
                    has = c
            eb = errs[0][0]
            if allow is None:
                rep.viol(rid, 'greedy:allow-test', 'the exemption is not `definition.allow_greedy.unwrap_or(false)` (e.g. is_some() would also exempt allow_greedy = false)', loc(g))
            elif not g.edge_dominates((allow['bb'], allow['f']), eb):
                rep.viol(rid, 'greedy:allow-polarity', 'the greedy-dot error is not confined to the `allow_greedy is not true` edge', loc(g))
            # the greedy test is evaluated whenever the definition does not allow greedy patterns: nothing else decides whether
            # it runs (a shortcut on the attribute text misses dots that come from subpatterns or escapes)
            if has is not None:
                from mirlib import controlling_switches
                hb = has['root'][1]
                for sb in set(controlling_switches(g, hb)) | set(controlling_switches(g, has['bb'])):
                    if allow is not None and sb == allow['bb']:
                        continue
                    if sb == has['bb']:
                        continue
                    rep.viol(rid, 'greedy:extra-condition', 'check_for_greedy_all() is only evaluated under an additional condition (%s): some greedy patterns are never examined' % desc(g, g.blocks[sb]['term']['discr'])[:120], loc(g, g.blocks[sb]['term']['line']))
            if has is None or not g.edge_dominates((has['bb'], has['t']), eb):
                rep.viol(rid, 'greedy:has-polarity', 'the greedy-dot error is not recorded on the edge where check_for_greedy_all() is true', loc(g))
            from props.c19 import always_hits
            if allow is not None and has is not None and not always_hits(g, (has['bb'], has['t']), [eb]):
                rep.viol(rid, 'greedy:not-always', 'a greedy dot pattern without allow_greedy does not always record the error', loc(g))
        c2 = crate.fns.get('pattern::Pattern::check_for_greedy_all')
        if c2 is not None and ret_desc(c2) != 'call:pattern::Pattern::has_greedy_all(self.hir)':
            rep.viol(rid, 'greedy:forward', 'check_for_greedy_all returns %s' % ret_desc(c2), loc(c2))


# --------------------------------------------------------------------------------------------
# C11: subpatterns
# --------------------------------------------------------------------------------------------

def decode_template(b):
    """rustc's byte encoded format_args! template -> list of pieces (str) and 'ARG' markers; None if unknown."""
    out = []
    i = 0
    while i < len(b):
        c = b[i]
        if c == 0:
            return out if i == len(b) - 1 else None
        if c == 0xc0:
            out.append('ARG')
            i += 1
        elif c < 0x80:
            out.append(b[i + 1:i + 1 + c].decode('utf8', 'replace'))
            i += 1 + c
        else:
            return None
    return None


def format_parts(fn, op):
    """For a String operand produced by format!(): (pieces, [arg operand descriptions]) or None"""
    sl = fn.slice(op)
    news = [(b, t) for b, t in sl.call_terms if re.search(r'fmt::Arguments::<.*>::new$', fn.callee_name(t))]
    if len(news) != 1:
        return None
    b, t = news[0]
    tpl = None
    r = trace(fn, t['args'][0])
    if r[0] == 'const':
        tpl = const_bytes(r[1])
    if tpl is None:
        return None
    pieces = decode_template(tpl)
    if pieces is None:
        return None
    # arguments: array aggregate of Argument::new_display(&x)
    arr = trace(fn, t['args'][1])
    args = []
    if arr[0] == 'agg':
        for o in arr[2]['rhs']['ops']:
            a = trace(fn, o)
            if a[0] == 'call' and re.search(r'fmt::rt::Argument::<.*>::new_(display|debug)$', fn.callee_name(a[2])):
                args.append(a[2]['args'][0])
            else:
                args.append(None)
    return pieces, args, t


def underlying_local(fn, op):
    """follow &/copies of tuple fields used by format_args! back to the user variable local"""
    cur = op
    for _ in range(12):
        pl = op_place(cur) if 'op' in cur else cur
        if pl is None:
            return None
        l = pl['local']
        if l in fn.names:
            return l
        ds = fn.defs().get(l, [])
        if len(ds) != 1 or ds[0][0] != 'stmt':
            return l
        rhs = ds[0][3]['rhs']
        if rhs['rv'] == 'use':
            p2 = op_place(rhs['a'])
            if p2 is None:
                return l
            if fields_of(p2):
                # tuple field: find the aggregate
                base = p2['local']
                bd = fn.defs().get(base, [])
                if len(bd) == 1 and bd[0][0] == 'stmt' and bd[0][3]['rhs']['rv'] == 'agg':
                    idx = int(fields_of(p2)[0])
                    cur = bd[0][3]['rhs']['ops'][idx]
                    continue
                return l
            cur = rhs['a']
        elif rhs['rv'] == 'ref':
            cur = rhs['place']
            if [p for p in cur['proj'] if p['k'] != 'deref']:
                return l
            cur = dict(op='copy', place=dict(local=cur['local'], proj=[]))
        else:
            return l
    return None


def rule_subpatterns(rep, crate):
    rc = rep.rule('M-C11c', 'Subpattern::new stores "(?" + flag + ":" + escaped literal + ")" where flag is "u"/"-u" selected by the literal kind only: a flag-scoped non-capturing group', floor=3)
    fn = crate.fns.get('parser::subpattern::Subpattern::new')
    if rep.anchor(rc, 'fn Subpattern::new', fn is not None):
        aggs = [(bi, st) for bi, si, st in fn.stmts() if st['rhs']['rv'] == 'agg' and st['rhs']['kind'].get('adt') == 'parser::subpattern::Subpattern' and bi in fn.live_blocks()]
        if len(aggs) != 1:
            rep.viol(rc, 'subpattern-new:shape', 'Subpattern::new does not build exactly one Subpattern', loc(fn))
        else:
            rhs = aggs[0][1]['rhs']
            pat_op = dict(zip(rhs['fields'], rhs['ops'])).get('pattern')
            fp = format_parts(fn, pat_op) if pat_op else None
            if fp is None:
                rep.viol(rc, 'subpattern-new:unrecognised', 'the stored pattern is not built by one format!() whose template can be decoded (fail closed)', loc(fn))
            else:
                pieces, args, t = fp
                rep.inst(rc, 'subpattern-new:template', detail=pieces)
                if pieces != ['(?', 'ARG', ':', 'ARG', ')']:
                    rep.viol(rc, 'subpattern-new:template', 'the stored pattern is formatted as %s, expected "(?{flags}:{pattern})": the subpattern is not a flag-scoped non-capturing group' % pieces, loc(fn, t['line']))
                elif len(args) == 2 and all(a is not None for a in args):
                    # flag argument
                    fl = underlying_local(fn, args[0])
                    defs = [d for d in fn.defs().get(fl, []) if d[1] in fn.live_blocks()]
                    vals = {}
                    conds = []
                    for sb in switches(fn):
                        c = cond_of_switch(fn, sb)
                        if c and c['root'][0] == 'call' and re.search(r'Literal::unicode$', fn.callee_name(c['root'][2])) and desc(fn, c['root'][2]['args'][0]) == 'param2':
                            conds.append(c)
                    okflag = bool(conds)
                    for kind, bi, si, x in defs:
                        if kind != 'stmt':
                            okflag = False
                            continue
                        r = trace(fn, x['rhs'].get('a') or x['rhs'].get('place'))
                        cb = const_bytes(r[1]) if r[0] == 'const' else None
                        if cb is None:
                            okflag = False
                            continue
                        edge = None
                        for c in conds:
                            if fn.edge_dominates((c['bb'], c['t']), bi):
                                edge = 'unicode'
                            elif fn.edge_dominates((c['bb'], c['f']), bi):
                                edge = 'bytes'
                        vals[edge] = cb.decode()
                    rep.inst(rc, 'subpattern-new:flag', detail={str(k): v for k, v in vals.items()})
                    if not okflag or vals != {'unicode': 'u', 'bytes': '-u'}:
                        rep.viol(rc, 'subpattern-new:flag', 'the group flag is %s, expected "u" exactly when the literal is a str literal and "-u" for byte literals (selected by Literal::unicode() only)' % vals, loc(fn))
                    # any switch in the function other than the literal kind one is a foreign influence
                    for sb in switches(fn):
                        c = cond_of_switch(fn, sb)
                        if c is None:
                            continue
                        if c not in conds and not fn.blocks[sb]['cleanup'] and c['root'][0] != 'const':
                            sl = fn.slice(fn.blocks[sb]['term']['discr'])
                            if sl.params - {2}:
                                rep.viol(rc, 'subpattern-new:foreign-branch', 'Subpattern::new branches on something other than the literal kind (params %s)' % sorted(sl.params), loc(fn, fn.blocks[sb]['term']['line']))
                    pl = underlying_local(fn, args[1])
                    pd = desc(fn, dict(op='copy', place=dict(local=pl, proj=[]))) if pl is not None else '?'
                    rep.inst(rc, 'subpattern-new:source', detail=pd)
                    if pd != 'call:parser::definition::Literal::escape(param2,const:0)':
                        rep.viol(rc, 'subpattern-new:source', 'the group body is %s, expected pattern_src.escape(false)' % pd, loc(fn))
                else:
                    rep.viol(rc, 'subpattern-new:args', 'cannot identify the two format arguments (fail closed)', loc(fn))
    # ---- lookup miss => error and None; hit => the stored (grouped) pattern is spliced
    rb = rep.rule('M-C11b', 'Subpatterns::subst_subpatterns: a reference that is not in the table records an error and forces the None result; a hit splices the stored, already grouped pattern', floor=3)
    fn = crate.fns.get('parser::subpattern::Subpatterns::subst_subpatterns')
    if rep.anchor(rb, 'fn Subpatterns::subst_subpatterns', fn is not None):
        gets = find_calls(fn, r'HashMap::<K, V, S, A>::get$')
        if len(gets) != 1:
            rep.viol(rb, 'subst:lookup', 'expected exactly one table lookup, found %d' % len(gets), loc(fn))
        else:
            gb, gt = gets[0]
            miss = hit = None
            for sb in switches(fn):
                term = fn.blocks[sb]['term']
                r = trace(fn, term['discr'])
                if r[0] == 'discr' and r[2]['rhs']['place']['local'] == gt['dest']['local']:
                    tg = dict((v, x) for v, x in term['targets'])
                    hit = (sb, tg['1']) if '1' in tg else (sb, tg['otherwise'])
                    miss = (sb, tg['0']) if '0' in tg else (sb, tg['otherwise'])
            rep.inst(rb, 'subst:lookup', detail=dict(hit=hit, miss=miss))
            if miss is None:
                rep.viol(rb, 'subst:no-dispatch', 'the lookup result is not matched', loc(fn))
            else:
                errs = [(b, t) for b, t in find_calls(fn, r'error::Errors::err$') if fn.edge_dominates(miss, b)]
                flags = [(bi, st) for bi, si, st in fn.stmts() if st['rhs']['rv'] == 'use' and const_int(st['rhs']['a']) == 1 and fn.locals[st['lhs']['local']] == 'bool' and not st['lhs']['proj'] and fn.edge_dominates(miss, bi) and st['lhs']['local'] in fn.names]
                rep.inst(rb, 'subst:miss', detail=dict(errs=len(errs), flags=[fn.names.get(st['lhs']['local']) for _b, st in flags]))
                if not errs:
                    rep.viol(rb, 'subst:miss-no-error', 'a reference to an undefined subpattern does not record an error', loc(fn))
                if not flags:
                    rep.viol(rb, 'subst:miss-no-flag', 'a reference to an undefined subpattern does not set the error flag', loc(fn))
                flag_locals = {st['lhs']['local'] for _b, st in flags}
                none_ok = some_ok = False
                for sb in switches(fn):
                    c = cond_of_switch(fn, sb)
                    pl = op_place(fn.blocks[sb]['term']['discr'])
                    if not c or pl is None:
                        continue
                    src = fn.slice(fn.blocks[sb]['term']['discr'], through_calls=False)
                    if not (src.locals & flag_locals):
                        continue
                    for kind, bi, si, x in fn.defs().get(0, []):
                        if kind == 'stmt' and x['rhs']['rv'] == 'agg':
                            var = x['rhs']['kind'].get('variant')
                            if var == 'None' and fn.edge_dominates((c['bb'], c['t']), bi):
                                none_ok = True
                            if var == 'Some' and fn.edge_dominates((c['bb'], c['f']), bi):
                                some_ok = True
                somes = [x for kind, bi, si, x in fn.defs().get(0, []) if kind == 'stmt' and x['rhs']['rv'] == 'agg' and x['rhs']['kind'].get('variant') == 'Some' and bi in fn.live_blocks()]
                # equivalent form: (!was_error).then_some(text)
                ts = [(b, t) for b, t in find_calls(fn, r'<impl bool>::then_some$') if t['dest']['local'] == 0 and not t['dest']['proj']]
                then_some_ok = False
                if len(ts) == 1 and not somes:
                    c0 = trace(fn, ts[0][1]['args'][0])
                    if c0[0] == 'un' and c0[2]['rhs'].get('uop') == 'Not':
                        src = fn.slice(c0[2]['rhs']['a'], through_calls=False)
                        then_some_ok = bool(src.locals & flag_locals)
                if then_some_ok:
                    pass
                elif not none_ok or not some_ok or len(somes) != 1:
                    rep.viol(rb, 'subst:result', 'None is not returned exactly when the error flag is set (Some on the other edge)', loc(fn))
                # hit: the pushed fragment is the stored pattern
                pushes = [(b, t) for b, t in find_calls(fn, r'vec::Vec::<T, A>::push$|string::String::push_str$') if fn.edge_dominates(hit, b)]
                pd = [desc(fn, t['args'][1]) for b, t in pushes]
                rep.inst(rb, 'subst:hit', detail=pd)
                if len(pushes) != 1 or not re.fullmatch(r'call:<std::string::String as std::ops::Deref>::deref\(call:std::collections::HashMap::<K, V, S, A>::get\.0\.pattern\)', pd[0]):
                    rep.viol(rb, 'subst:hit-fragment', 'on a hit the spliced fragment is %s, expected the stored pattern (&subpattern.pattern) of the looked-up entry' % pd, loc(fn))
    # the text after the last reference is appended whenever any is left: guard `current_pos < pattern.len()` in bytes
    if fn is not None:
        tails = []
        for sb in switches(fn):
            c = cond_of_switch(fn, sb)
            if not c or c['root'][0] != 'bin' or c['root'][2]['rhs']['bop'] not in ('Lt', 'Gt', 'Le', 'Ge', 'Ne'):
                continue
            rhs = c['root'][2]['rhs']
            ds = [desc(fn, rhs['a']), desc(fn, rhs['b'])]
            if any(d == 'call:core::str::<impl str>::len(param2)' for d in ds):
                pushes = [b for b, t in find_calls(fn, r'vec::Vec::<T, A>::push$') if fn.edge_dominates((c['bb'], c['t']), b)]
                if pushes:
                    tails.append(ds)
            elif any('count' in d or 'chars' in d for d in ds):
                rep.viol(rb, 'subst:tail-guard-units', 'a position in the pattern text is compared with a character count (%s): offsets are byte offsets, text after the last reference is dropped for non-ASCII patterns' % ds, loc(fn, fn.blocks[sb]['term']['line']))
        # equivalent form: an unconditional append of pattern[current_pos..] after the loop (appending the empty rest is harmless)
        from mirlib import loop_depth
        for b, t in find_calls(fn, r'vec::Vec::<T, A>::push$|string::String::push_str$'):
            d1 = desc(fn, t['args'][1])
            if loop_depth(fn, b) == 0 and re.match(r'^call:core::str::traits::<impl std::ops::Index<I> for str>::index\(param2,agg:std::ops::RangeFrom\{', d1):
                rets = [bb for bb in fn.live_blocks() if fn.blocks[bb]['term']['t'] == 'return']
                if rets and all(fn.dominates_block(b, r) for r in rets):
                    tails.append(['unconditional', d1[:80]])
        rep.inst(rb, 'subst:tail', detail=tails)
        if not tails:
            rep.viol(rb, 'subst:tail-missing', 'the text after the last subpattern reference is not appended under `current_pos < pattern.len()`', loc(fn))
    # ---- Subpatterns::new: substitute (against the table built so far) before insert
    ra = rep.rule('M-C11a', '')
    fn = crate.fns.get('parser::subpattern::Subpatterns::new')
    if rep.anchor(ra, 'fn Subpatterns::new', fn is not None):
        subs = find_calls(fn, r'Subpatterns::subst_subpatterns$')
        ins = find_calls(fn, r'HashMap::<K, V, S, A>::insert$')
        news = find_calls(fn, r'subpattern::Subpattern::new$')
        rep.inst(ra, 'Subpatterns::new', detail=dict(subst=len(subs), insert=len(ins), new=len(news)))
        if len(subs) != 1 or len(ins) != 1 or len(news) != 1:
            rep.viol(ra, 'subpatterns-new:shape', 'Subpatterns::new: expected one Subpattern::new, one subst_subpatterns and one insert (found %d/%d/%d)' % (len(news), len(subs), len(ins)), loc(fn))
        else:
            sb_, st_ = subs[0]
            ib, it = ins[0]
            nb, nt = news[0]
            subl = nt['dest']['local']
            # the substituted text is the subpattern's own stored text
            a1 = fn.slice(st_['args'][1])
            if subl not in a1.locals or not any('pattern' in f for _l, f in a1.fields):
                rep.viol(ra, 'subpatterns-new:subst-input', 'subst_subpatterns in Subpatterns::new is not applied to the new subpattern\'s stored text', loc(fn, st_['line']))
            # receiver is the table being built (which is what the insert modifies)
            recv = fn.slice(st_['args'][0], through_calls=False).locals
            tbl = fn.slice(it['args'][0], through_calls=False).locals
            if not (recv & tbl):
                rep.viol(ra, 'subpatterns-new:table', 'the references of a subpattern are not resolved against the table being built', loc(fn, st_['line']))
            # Some edge + store of payload into .pattern dominate the insert
            some = None
            for sw in switches(fn):
                term = fn.blocks[sw]['term']
                r = trace(fn, term['discr'])
                if r[0] == 'discr' and r[2]['rhs']['place']['local'] == st_['dest']['local']:
                    tg = dict((v, x) for v, x in term['targets'])
                    some = (sw, tg['1']) if '1' in tg else (sw, tg['otherwise'])
            stores = [(bi, st) for bi, si, st in fn.stmts() if st['lhs']['local'] == subl and fields_of(st['lhs']) == ['pattern'] and bi in fn.live_blocks()]
            okstore = False
            for bi, st in stores:
                sl = fn.slice(st['rhs'].get('a') or {'op': 'const'}, through_calls=False)
                if st_['dest']['local'] in sl.locals and fn.dominates_block(bi, ib):
                    okstore = True
            if some is None or not fn.edge_dominates(some, ib) or not okstore:
                rep.viol(ra, 'subpatterns-new:order', 'the subpattern is inserted into the table without its references having been substituted first', loc(fn, it['line']))
            if subl not in fn.slice(it['args'][2], through_calls=False).locals:
                rep.viol(ra, 'subpatterns-new:inserted', 'the inserted value is not the substituted subpattern', loc(fn, it['line']))


ESCAPE_CALLEES = re.compile(r'^(std::string::String::new|syn::LitStr::value|syn::LitByteStr::value|<std::string::String as std::ops::Deref>::deref|regex_syntax::escape|regex_syntax::escape_into'
                            r'|<std::vec::Vec<T, A> as std::iter::IntoIterator>::into_iter|<std::vec::IntoIter<T, A> as std::iter::Iterator>::next|std::str::from_utf8|core::str::from_utf8'
                            r'|std::result::Result::<T, E>::expect|core::fmt::rt::Argument::<\'_>::new_display|core::fmt::rt::Argument::<\'_>::new_upper_hex|std::fmt::Arguments::<\'a>::new'
                            r'|std::fmt::Write::write_fmt|<std::string::String as std::fmt::Write>::write_fmt|<.* as std::ops::Deref(Mut)?>::deref(_mut)?)$')


def rule_literal_escape(rep, crate):
    rid = rep.rule('M-C10c', 'Literal::escape delegates every metacharacter escape to regex_syntax::escape / escape_into (str literal: the whole value; byte literal: each ASCII byte), writes non-ASCII bytes as \\xNN, and does nothing else to the text; with literal=false a str literal is returned unchanged', floor=1)
    fn = crate.fns.get('parser::definition::Literal::escape')
    if not rep.anchor(rid, 'fn Literal::escape', fn is not None):
        return
    names = sorted({fn.callee_name(t) for _b, t in fn.calls()})
    rep.inst(rid, 'Literal::escape', detail=[short(n) for n in names])
    for n in names:
        if not ESCAPE_CALLEES.search(n):
            rep.viol(rid, 'escape:callee:%s' % re.sub(r'<[^<>]*>', '', n), 'Literal::escape calls %s, which is not part of its audited shape (hand-written escaping or text transformation)' % n, loc(fn))
    esc = find_calls(fn, r'^regex_syntax::escape$')
    esci = find_calls(fn, r'^regex_syntax::escape_into$')
    if len(esc) != 1 or len(esci) != 1:
        rep.viol(rid, 'escape:delegation', 'expected one regex_syntax::escape (str literals) and one escape_into (byte literals) call', loc(fn))
        return
    # str arm: escape(&lit.value()) on the `literal` edge, value() otherwise
    d = desc(fn, esc[0][1]['args'][0])
    if not re.fullmatch(r'call:<std::string::String as std::ops::Deref>::deref\(call:syn::LitStr::value\(.*\)\)', d):
        rep.viol(rid, 'escape:str-arg', 'regex_syntax::escape is applied to %s, expected the str literal\'s value' % d, loc(fn, esc[0][1]['line']))
    guard = [c for c in (cond_of_switch(fn, sb) for sb in switches(fn)) if c and c['root'][0] == 'param' and c['root'][1] == 2]
    if not any(fn.edge_dominates((c['bb'], c['t']), esc[0][0]) for c in guard) or not any(fn.edge_dominates((c['bb'], c['t']), esci[0][0]) for c in guard):
        rep.viol(rid, 'escape:edge', 'escaping is not confined to the literal=true edge', loc(fn))
    # the ASCII test: byte <= 127
    lims = set()
    for bi, si, st in fn.stmts():
        rhs = st['rhs']
        if rhs['rv'] == 'bin' and rhs['bop'] in ('Le', 'Lt', 'Ge', 'Gt') and not st.get('macro'):
            for key in ('a', 'b'):
                c = const_int(rhs[key])
                if c is not None:
                    lims.add((rhs['bop'], c))
    rep.inst(rid, 'Literal::escape:ascii-test', detail=sorted(lims))
    if not (lims & {('Le', 127), ('Lt', 128), ('Ge', 127), ('Gt', 128)}):
        rep.viol(rid, 'escape:ascii-test', 'the ASCII test of the byte arm is %s, expected byte <= 127' % sorted(lims), loc(fn))
    # non-ASCII bytes: "\x" + upper hex
    hexs = find_calls(fn, r'Argument::<.*>::new_upper_hex$')
    tpls = []
    for b, t in find_calls(fn, r'fmt::Arguments::<.*>::new$'):
        r = trace(fn, t['args'][0])
        if r[0] == 'const' and const_bytes(r[1]) is not None:
            tpls.append(const_bytes(r[1]))
    rep.inst(rid, 'Literal::escape:templates', detail=[repr(x) for x in tpls])
    if not hexs or not any(x.startswith(b'\x02\\x') for x in tpls):
        rep.viol(rid, 'escape:hex', 'non-ASCII bytes are not written as \\xNN', loc(fn))


# --------------------------------------------------------------------------------------------
# C12 / C04: information flow of the utf8 flag, UTF-8 acceptance gates
# --------------------------------------------------------------------------------------------

from mirlib import control_slice, edge_regions

GATE_REGION_OK = re.compile(r'(parser::Parser::err$|error::Errors::err$|^std::fmt::|^core::fmt::|^std::hint::must_use$|^alloc::fmt::format|IntoIterator>::into_iter$|Iterator>::next$|^pattern::Pattern::source$'
                            r'|slice::<impl \[T\]>::iter$|Iterator>?::filter$|Properties::is_utf8$|Hir::properties$|^pattern::Pattern::hir$'
                            r'|^quote::|^proc_macro2::|ToTokens|^<.* as std::ops::Deref(Mut)?>::deref(_mut)?$|^std::mem::drop|Vec::<T, A>::is_empty$|Spanned>::span$|::span$|ToString>::to_string$|^syn::Ident'
                            r'|<.* as std::convert::(Into|From)<.*>>::(into|from)$|^std::convert::Into::into$|^std::borrow::)')


def derived_locals(fn, start):
    """locals that hold (copies / negations / references of) the value of `start`"""
    der = {start}
    changed = True
    while changed:
        changed = False
        for bi, si, st in fn.stmts():
            rhs = st['rhs']
            if st['lhs']['proj']:
                continue
            srcs = []
            if rhs['rv'] in ('use', 'un', 'cast'):
                p = op_place(rhs['a'])
                if p and not fields_of(p):
                    srcs.append(p['local'])
            elif rhs['rv'] == 'ref':
                if not fields_of(rhs['place']):
                    srcs.append(rhs['place']['local'])
            if any(s in der for s in srcs) and st['lhs']['local'] not in der:
                der.add(st['lhs']['local'])
                changed = True
    return der


def flag_uses(fn, der):
    """every use of a derived local that is not itself a derivation"""
    uses = []
    for bi, si, st in fn.stmts():
        if bi not in fn.live_blocks():
            continue
        rhs = st['rhs']
        if rhs['rv'] == 'agg':
            for n, o in zip(rhs['fields'] or [str(i) for i in range(len(rhs['ops']))], rhs['ops']):
                p = op_place(o)
                if p and p['local'] in der:
                    uses.append(('agg', rhs['kind'].get('adt', rhs['kind']), n, bi, st['line']))
        elif rhs['rv'] == 'bin':
            for k in ('a', 'b'):
                p = op_place(rhs[k])
                if p and p['local'] in der:
                    uses.append(('bin', rhs['bop'], None, bi, st['line']))
        elif st['lhs']['proj'] and rhs['rv'] in ('use',):
            p = op_place(rhs['a'])
            if p and p['local'] in der:
                uses.append(('store', place_fields(st['lhs']), None, bi, st['line']))
    for bi, t in fn.calls():
        for i, a in enumerate(t['args']):
            p = op_place(a)
            if p and p['local'] in der:
                uses.append(('arg', fn.callee_name(t), i, bi, t['line']))
    for sb in switches(fn):
        p = op_place(fn.blocks[sb]['term']['discr'])
        if p and p['local'] in der:
            uses.append(('switch', sb, None, sb, fn.blocks[sb]['term']['line']))
    return uses


def flag_locals(fn):
    """the local holding the definition's utf8 flag: identified by use (it is what is stored into graph::Config.utf8_mode),
    not by its name"""
    out = set()
    for bi, si, st in fn.stmts():
        rhs = st['rhs']
        if rhs['rv'] == 'agg' and rhs['kind'].get('adt') == 'graph::Config' and bi in fn.live_blocks():
            for n, o in zip(rhs['fields'], rhs['ops']):
                if n != 'utf8_mode':
                    continue
                pl = op_place(o)
                cur = pl['local'] if pl and not pl['proj'] else None
                for _ in range(20):
                    if cur is None:
                        break
                    ds = fn.defs().get(cur, [])
                    if len(ds) == 1 and ds[0][0] == 'stmt' and ds[0][3]['rhs']['rv'] == 'use' and op_place(ds[0][3]['rhs']['a']) and not op_place(ds[0][3]['rhs']['a'])['proj']:
                        cur = op_place(ds[0][3]['rhs']['a'])['local']
                    else:
                        break
                if cur is not None:
                    out.add(cur)
    return sorted(out)


def place_fields(pl):
    return '.'.join(fields_of(pl))


SENSITIVE_SINKS = r'^(pattern::Pattern::compile|pattern::Pattern::compile_lit|leaf::Leaf::new|leaf::Leaf::priority|leaf::Leaf::callback|leaf::Leaf::variant_kind|greedy_dotall_check|parser::subpattern::Subpatterns::subst_subpatterns)$'


def rule_utf8_flow(rep, crate):
    rid = rep.rule('M-C12a', 'information flow of the utf8 flag: it reaches only graph::Config.utf8_mode (-> thompson::Config::utf8), Subpatterns::new (-> its UTF-8 gate), the UTF-8 gate of generate and the choice of the Source type; no pattern, priority, callback or generator input depends on it (data or control)', floor=6)
    fn = crate.fns.get(GEN)
    if not rep.anchor(rid, 'fn logos_codegen::generate', fn is not None):
        return
    src = flag_locals(fn)
    if not rep.anchor(rid, 'the utf8 flag of generate (the value stored into graph::Config.utf8_mode)', len(src) == 1):
        return
    der = derived_locals(fn, src[0])
    uses = flag_uses(fn, der)
    regions = edge_regions(fn)
    for kind, a, b, bi, line in uses:
        if kind == 'agg':
            rep.inst(rid, 'generate:use:agg:%s.%s' % (a, b))
            if not (a == 'graph::Config' and b == 'utf8_mode'):
                rep.viol(rid, 'utf8-flow:agg:%s.%s' % (a, b), 'the utf8 flag is stored into %s.%s' % (a, b), loc(fn, line))
        elif kind == 'arg':
            rep.inst(rid, 'generate:use:arg:%s#%s' % (short(a), b))
            if re.search(r'parser::subpattern::Subpatterns::new$', a) and b == 1:
                continue
            if re.search(r'fmt::rt::Argument::<.*>::new_', a):
                continue
            rep.viol(rid, 'utf8-flow:arg:%s' % short(a), 'the utf8 flag is passed to %s (argument %s)' % (a, b), loc(fn, line))
        elif kind == 'switch':
            calls = set()
            for e, reg in regions.items():
                if e[0] != a:
                    continue
                for rb in reg:
                    t = fn.blocks[rb]['term']
                    if t['t'] == 'call':
                        calls.add(fn.callee_name(t))
            bad = sorted(c for c in calls if not GATE_REGION_OK.search(c))
            rep.inst(rid, 'generate:use:branch@line', detail=dict(line=line, controlled_calls=len(calls)))
            if bad:
                rep.viol(rid, 'utf8-flow:branch:%s' % short(bad[0]), 'a branch on the utf8 flag controls calls outside the UTF-8 gate / source type rendering: %s' % bad[:5], loc(fn, line))
        else:
            rep.inst(rid, 'generate:use:%s' % kind)
            rep.viol(rid, 'utf8-flow:%s:%s' % (kind, a), 'the utf8 flag is used in %s %s' % (kind, a), loc(fn, line))
    # sensitive sinks: neither data nor control dependent on the flag
    n = 0
    for bi, t in fn.calls():
        name = fn.callee_name(t)
        if not re.search(SENSITIVE_SINKS, name):
            continue
        for i, a in enumerate(t['args']):
            if name.endswith('subst_subpatterns') and i in (0, 3):
                continue   # the table (whose construction is audited separately) and the error sink
            n += 1
            locs, _c, _f = control_slice(fn, a, stop_at_calls=('parser::subpattern::Subpatterns::new', 'graph::Graph::new', 'error::Errors::render'))
            if locs & der:
                rep.viol(rid, 'utf8-flow:sink:%s#%d' % (short(name), i), 'argument %d of %s depends (by data or control) on the utf8 flag: switching modes would change more than the source type and the NFA mode' % (i, name), loc(fn, t['line']))
    rep.inst(rid, 'generate:sensitive-sink-arguments', detail=n)
    # inside Graph::new: config.utf8_mode only feeds thompson::Config::utf8
    g0 = crate.fns.get('graph::Graph::new')
    # ... and inside the private associated functions of Graph that Graph::new hands its config to
    g_fns = [g0] if g0 is not None else []
    if g0 is not None:
        for _b, t in g0.calls():
            h = crate.fns.get(g0.callee_name(t))
            if h is not None and h is not g0 and h.name.startswith('graph::Graph::') and h not in g_fns and any(desc(g0, a) == 'param2' for a in t['args']):
                g_fns.append(h)
    rep.anchor(rid, 'fn graph::Graph::new', g0 is not None)
    for g in g_fns:
        reads = []
        for bi, si, st in g.stmts():
            rhs = st['rhs']
            for pl in [op_place(rhs.get('a') or {}), rhs.get('place')]:
                if pl and 'utf8_mode' in fields_of(pl) and bi in g.live_blocks():
                    reads.append((bi, st))
        for sb in switches(g):
            pl = op_place(g.blocks[sb]['term']['discr'])
            if pl and 'utf8_mode' in fields_of(pl):
                rep.viol(rid, 'utf8-flow:graph-branch', 'Graph::new branches on config.utf8_mode', loc(g, g.blocks[sb]['term']['line']))
        utf8_calls = find_calls(g, r'thompson::Config::utf8$')
        rep.inst(rid, 'Graph::new:utf8_mode', detail=dict(reads=len(reads), nfa_utf8_calls=len(utf8_calls)))
        if g is g0 and nfa_utf8_args(crate, g) != ['param2.utf8_mode']:
            rep.viol(rid, 'nfa-utf8-arg', 'thompson::Config::utf8 is not given exactly config.utf8_mode', loc(g))
        for bi, st in reads:
            dl = derived_locals(g, st['lhs']['local'])
            for kind, a, b, ubi, line in flag_uses(g, dl):
                if kind == 'arg' and re.search(r'thompson::Config::utf8$', a):
                    continue
                rep.viol(rid, 'utf8-flow:graph:%s' % kind, 'config.utf8_mode is used by %s %s in Graph::new' % (kind, a), loc(g, line))
    # inside Subpatterns::new: the flag only controls the gate
    s = crate.fns.get('parser::subpattern::Subpatterns::new')
    if rep.anchor(rid, 'fn Subpatterns::new', s is not None):
        dl = derived_locals(s, 2)
        us = flag_uses(s, dl)
        rep.inst(rid, 'Subpatterns::new:utf8_mode', detail=[(k, str(a)[:60]) for k, a, b, bi, line in us])
        for kind, a, b, bi, line in us:
            if kind == 'switch':
                calls = set()
                for e, reg in edge_regions(s).items():
                    if e[0] == a:
                        for rb in reg:
                            t = s.blocks[rb]['term']
                            if t['t'] == 'call':
                                calls.add(s.callee_name(t))
                bad = sorted(c for c in calls if not GATE_REGION_OK.search(c) and not re.search(r'Properties::is_utf8$|Hir::properties$|Pattern::hir$|HashMap::<K, V, S, A>::insert$|Ident::to_string|Clone>::clone$|Ident::span$|Literal::span$', c))
                if bad:
                    rep.viol(rid, 'utf8-flow:subpatterns-branch', 'in Subpatterns::new a branch on utf8_mode controls %s' % bad[:5], loc(s, line))
            else:
                rep.viol(rid, 'utf8-flow:subpatterns:%s' % kind, 'in Subpatterns::new utf8_mode is used by %s %s' % (kind, short(str(a))), loc(s, line))


def rule_utf8_gate(rep, crate):
    rid = rep.rule('M-C04a', 'UTF-8 acceptance gates: in generate an error is recorded for every leaf whose pattern is not Properties::is_utf8() whenever utf8 mode is on; in Subpatterns::new `utf8_mode && !is_utf8` records an error and skips the insertion; both precede the compile_error gate', floor=2)
    fn = crate.fns.get(GEN)
    if rep.anchor(rid, 'fn logos_codegen::generate', fn is not None):
        src = flag_locals(fn)
        filt = None
        for bi, t in find_calls(fn, r'Iterator::filter$|Iterator>::filter$'):
            a = trace(fn, t['args'][1])
            if a[0] == 'agg' and 'closure' in a[2]['rhs']['kind']:
                clo = crate.fns.get(a[2]['rhs']['kind']['closure'])
                if clo and any(re.search(r'Properties::is_utf8$', clo.callee_name(x)) for _b, x in clo.calls()):
                    filt = (bi, t, clo)
        ok = filt is not None and len(src) == 1
        detail = {}
        if ok:
            bi, t, clo = filt
            # the closure keeps the leaves that are NOT utf8
            r = ret_desc(clo)
            detail['filter'] = r
            if not re.fullmatch(r'Not\(call:regex_syntax::hir::Properties::is_utf8\(call:regex_syntax::hir::Hir::properties\(call:pattern::Pattern::hir\(.*\.pattern\)\)\)\)', r):
                rep.viol(rid, 'gate:filter', 'the non-UTF-8 filter is %s, expected !leaf.pattern.hir().properties().is_utf8()' % r, loc(clo))
            # it iterates over all leaves (pats)
            recv = desc(fn, t['args'][0])
            detail['over'] = recv[:80]
            if not re.match(r'call:core::slice::<impl \[T\]>::iter\(call:<std::vec::Vec<T, A> as std::ops::Deref>::deref\(', recv):
                rep.viol(rid, 'gate:filter-domain', 'the non-UTF-8 filter does not run over the whole pattern vector (%s)' % recv[:120], loc(fn, t['line']))
            # errors: Parser::err calls control dependent on utf8_mode and on the filtered collection
            der = derived_locals(fn, src[0])
            errs = []
            for eb, et in find_calls(fn, r'parser::Parser::err$'):
                ctl = controlling_switches_discr(fn, eb)
                dep_flag = any((op_place(d) or {}).get('local') in der for d in ctl)
                dep_coll = False
                for d in ctl:
                    sl = fn.slice(d)
                    if any(re.search(r'is_empty$', c) for c in sl.calls) and t['dest']['local'] in fn.slice(d).locals:
                        dep_coll = True
                    # or: the error sits in a loop that draws directly from the filtered iterator
                    if any(re.search(r'Iterator>?::next$', c) for c in sl.calls) and t['dest']['local'] in sl.locals:
                        dep_coll = True
                if dep_flag and dep_coll:
                    errs.append(eb)
            detail['errors'] = len(errs)
            if not errs:
                rep.viol(rid, 'gate:no-error', 'no Parser::err is controlled by `utf8_mode && !non_utf8_pats.is_empty()`', loc(fn))
            else:
                # per leaf: the err sits in a loop over the filtered collection
                renders = find_calls(fn, r'error::Errors::render$')
                if not any(fn.can_reach(e, rb) for e in errs for rb, _t in renders):
                    rep.viol(rid, 'gate:after-render', 'the UTF-8 gate comes after the compile_error gate', loc(fn))
        else:
            rep.viol(rid, 'gate:missing', 'no filter over Properties::is_utf8 found in generate', loc(fn))
        rep.inst(rid, 'generate:utf8-gate', detail=detail)
    s = crate.fns.get('parser::subpattern::Subpatterns::new')
    if rep.anchor(rid, 'fn Subpatterns::new', s is not None):
        ins = find_calls(s, r'HashMap::<K, V, S, A>::insert$')
        ok = False
        detail = {}
        for sb in switches(s):
            c = cond_of_switch(s, sb)
            if not c or c['root'][0] != 'param' or c['root'][1] != 2:
                continue
            # on the utf8_mode edge: a switch on !is_utf8 whose bad edge records an error and cannot reach the insert
            for s2 in switches(s):
                if not s.edge_dominates((c['bb'], c['t']), s2):
                    continue
                c2 = cond_of_switch(s, s2)
                if not c2:
                    continue
                sl = s.slice(s.blocks[s2]['term']['discr'])
                if not any(re.search(r'Properties::is_utf8$', x) for x in sl.calls):
                    continue
                # polarity: root is call is_utf8 (after Not stripping): bad edge = false edge of is_utf8
                bad = (s2, c2['f']) if c2['root'][0] == 'call' else None
                if bad is None:
                    continue
                errs = [b for b, _t in find_calls(s, r'error::Errors::err$') if s.edge_dominates(bad, b)]
                reach_ins = any(ib in s.reachable(bad[1], without_blocks=tuple(loop_heads(s))) for ib, _t in ins)
                detail = dict(errs=len(errs), insert_reachable_without_next_iteration=reach_ins)
                if errs and not reach_ins:
                    ok = True
            # the insert is not reachable on the utf8_mode edge without passing the is_utf8 test
        rep.inst(rid, 'Subpatterns::new:utf8-gate', detail=detail)
        if not ok:
            rep.viol(rid, 'gate:subpattern', 'Subpatterns::new does not reject (error + skip insertion) a subpattern that can match invalid UTF-8 in utf8 mode', loc(s))


def controlling_switches_discr(fn, b):
    from mirlib import controlling_switches
    return [fn.blocks[sb]['term']['discr'] for sb in controlling_switches(fn, b)]


def loop_heads(fn):
    """blocks that call Iterator::next (loop heads of `for` loops)"""
    return [b for b, t in fn.calls() if re.search(r'Iterator>::next$', fn.callee_name(t))]


# --------------------------------------------------------------------------------------------
# C03: empty patterns are rejected before any state is built
# --------------------------------------------------------------------------------------------

EMPTY_COND_OK = re.compile(r'(Iterator>::next$|Iterator::enumerate$|Iterator>::enumerate$|IntoIterator>::into_iter$|slice::<impl \[T\]>::iter$|Deref>::deref$|Properties::minimum_len$|Hir::properties$|Pattern::hir$|PartialEq.*>::eq$|Automaton>?::has_empty$|DFA<.*>::has_empty$)')


def rule_empty_rejected(rep, crate):
    rid = rep.rule('M-C03b', 'empty-matching patterns are rejected: in Graph::new the construction of states (get_states) is reachable only through the false edge of dfa.has_empty(); the true edge records GraphError::EmptyMatch for the leaves whose minimum length is 0 (a test that looks at nothing but minimum_len) and returns', floor=2)
    fn = crate.fns.get('graph::Graph::new')
    if not rep.anchor(rid, 'fn Graph::new', fn is not None):
        return
    guard = None
    for sb in switches(fn):
        c = cond_of_switch(fn, sb)
        if c and c['root'][0] == 'call' and re.search(r'has_empty$', fn.callee_name(c['root'][2])):
            guard = c
    if not rep.anchor(rid, 'branch on dfa.has_empty() in Graph::new', guard is not None):
        return
    gs = find_calls(fn, r'dfa_util::get_states$')
    rep.inst(rid, 'Graph::new:has_empty-guard', detail=dict(get_states=len(gs)))
    if not gs:
        rep.viol(rid, 'empty:no-get_states', 'get_states call not found', loc(fn))
    for b, t in gs:
        if not fn.edge_dominates((guard['bb'], guard['f']), b):
            rep.viol(rid, 'empty:states-built', 'state construction is reachable although dfa.has_empty() holds: a definition with an empty-matching pattern can be compiled', loc(fn, t['line']))
    tregion = {b for b in fn.live_blocks() if fn.edge_dominates((guard['bb'], guard['t']), b)}
    pushes = []
    for b, t in find_calls(fn, r'vec::Vec::<T, A>::push$'):
        if b in tregion and desc(fn, t['args'][1]).startswith('agg:graph::GraphError::EmptyMatch'):
            pushes.append((b, t))
    rep.inst(rid, 'Graph::new:empty-push', detail=len(pushes))
    if not pushes:
        rep.viol(rid, 'empty:no-error', 'no GraphError::EmptyMatch is recorded on the has_empty() edge', loc(fn))
    from mirlib import controlling_switches
    for b, t in pushes:
        for sb in controlling_switches(fn, b):
            if sb not in tregion:
                continue
            sl = fn.slice(fn.blocks[sb]['term']['discr'], stop_re=r'Iterator>::next$')
            bad = sorted(c for c in sl.calls if not EMPTY_COND_OK.search(c))
            if bad or ('kind' in sl.field_names()) or ('callback' in sl.field_names()):
                rep.viol(rid, 'empty:extra-condition', 'the EmptyMatch error is additionally conditioned on %s %s: some empty-matching patterns are let through' % (bad[:3], sorted(sl.field_names() & {'kind', 'callback', 'priority'})), loc(fn, fn.blocks[sb]['term']['line']))
    # in generate the EmptyMatch arm records an error: covered by M-C19b (graph-error-arm)


def nfa_utf8_args(crate, g):
    """what thompson::Config::utf8 receives, described from Graph::new's point of view; the call may sit in a private
    associated function of Graph that Graph::new hands its `config` to (`Self::nfa_config(&config)`)"""
    out = [desc(g, t['args'][1]) for _b, t in find_calls(g, r'thompson::Config::utf8$')]
    for _b, t in g.calls():
        h = crate.fns.get(g.callee_name(t))
        if h is None or h is g or not h.name.startswith('graph::Graph::'):
            continue
        for _b2, t2 in find_calls(h, r'thompson::Config::utf8$'):
            d = desc(h, t2['args'][1])
            m = re.fullmatch(r'param(\d+)\.utf8_mode', d)
            if m and int(m.group(1)) <= len(t['args']) and desc(g, t['args'][int(m.group(1)) - 1]) == 'param2':
                d = 'param2.utf8_mode'
            else:
                d = '%s in %s' % (d, h.name)
            out.append(d)
    return out


def rule_nfa_mode(rep, crate):
    rid = rep.rule('M-C04b', 'the NFA is compiled in UTF-8 mode exactly when the definition is in str mode: thompson::Config::utf8 receives config.utf8_mode and nothing else', floor=1)
    g = crate.fns.get('graph::Graph::new')
    if not rep.anchor(rid, 'fn Graph::new', g is not None):
        return
    d = nfa_utf8_args(crate, g)
    rep.inst(rid, 'Graph::new:nfa-utf8', detail=d)
    if d != ['param2.utf8_mode']:
        rep.viol(rid, 'nfa-utf8-arg', 'thompson::Config::utf8 is given %s, expected config.utf8_mode' % d, loc(g))
    gen = crate.fns.get(GEN)
    if gen is not None:
        for b, t in find_calls(gen, r'graph::Graph::new$'):
            cd = desc(gen, t['args'][1])
            rep.inst(rid, 'generate:config', detail=cd[:200])
            sl = gen.slice(t['args'][1])
            okc = cd.startswith('agg:graph::Config{utf8_mode=') and sl.has_field_path('utf8_mode') and 'syn::LitBool::value' in (sl.fnrefs | sl.calls) \
                and 1 in sl.int_consts() and 0 not in sl.int_consts() and not sl.binops and not sl.unops \
                and all(re.search(r'Option::<T>::(as_ref|map|unwrap_or|map_or|copied|cloned)$|LitBool::value$|Default>::default$', c) for c in sl.calls)
            if not okc:
                rep.viol(rid, 'config-utf8', 'graph::Config is built as %s, expected utf8_mode = parser.utf8_mode.map(value).unwrap_or(true)' % cd[:200], loc(gen, t['line']))


def rule_late_accept_removal(rep, crate, rid_name='M-C02g'):
    """A late accept may be dropped only if EVERY predecessor already records the same leaf early."""
    rid = rep.rule(rid_name, 'late accepts are only removed when redundant: every store of None into state_type.accept in Graph::new (or in a private method of Graph it was moved to) lies on the Some(leaf) edge of the state\'s own accept and is guarded by a predicate that is universal over the state\'s predecessors (`backward`) and compares each predecessor\'s `early` with Some(leaf) (accepted forms: all(|b| early == Some(leaf)) on its true edge, any(|b| early != Some(leaf)) on its false edge)', floor=1)
    g = crate.fns.get('graph::Graph::new')
    if not rep.anchor(rid, 'fn Graph::new', g is not None):
        return
    from mirlib import stores_to_field, controlling_switches, bool_edges
    hosts = [g] + [f for n, f in sorted(crate.fns.items()) if re.match(r'^graph::Graph::[a-z_0-9]+$', n) and f is not g and f.kind in ('AssocFn', 'Fn')]
    found = []
    for h in hosts:
        for bi, si, st in stores_to_field(h, 'accept'):
            rhs = st['rhs']
            d = desc(h, rhs['a']) if rhs['rv'] == 'use' else ''
            if 'Option::None' in d:
                found.append((h, bi, si, st))
    if not rep.anchor(rid, 'store of None into state_type.accept in Graph::new or a Graph method', bool(found)):
        return
    for fn in sorted({h for h, _b, _s, _st in found}, key=lambda f: f.name):
        stores = [(bi, si, st) for h, bi, si, st in found if h is fn]
        _late_removal_in(rep, rid, crate, fn, stores)


def _late_removal_in(rep, rid, crate, fn, stores):
    from mirlib import controlling_switches
    for bi, si, st in stores:
        rep.inst(rid, 'late-removal:bb%d' % bi)
        guard = None
        for sb in controlling_switches(fn, bi):
            c = cond_of_switch(fn, sb)
            if c and c['root'][0] == 'call' and re.search(r'Iterator>::(all|any)$', fn.callee_name(c['root'][2])):
                guard = (sb, c)
        if guard is None:
            rep.viol(rid, 'late-removal:unguarded', 'state_type.accept is cleared without a quantified test over the predecessors: the accepted forms are all(..)/any(..) over `backward`', loc(fn, st['line']))
            continue
        sb, c = guard
        call = c['root'][2]
        quant = re.search(r'Iterator>::(all|any)$', fn.callee_name(call)).group(1)
        te = (sb, c['t'])
        fe = (sb, c['f'])
        on_true = fn.edge_dominates(te, bi)
        on_false = fn.edge_dominates(fe, bi)
        recv = fn.slice(call['args'][0])
        if 'backward' not in recv.field_names():
            rep.viol(rid, 'late-removal:not-predecessors', 'the quantified test does not range over the predecessors (`backward`) of the state', loc(fn, call['line']))
        clo = desc(fn, call['args'][1])
        m = re.search(r'closure:([^{]*\{closure#\d+\})', clo) or re.search(r'(graph::Graph::new::\{closure#\d+\})', clo)
        cf = crate.fns.get(m.group(1)) if m else None
        if cf is None:
            rep.viol(rid, 'late-removal:predicate-unknown', 'the predicate handed to %s() is not a closure of Graph::new (%s)' % (quant, clo[:80]), loc(fn, call['line']))
            continue
        # the predicate: eq / ne between a predecessor's `early` and Some(captured leaf)
        rets = [t for b, t in cf.calls() if re.search(r'PartialEq>?::(eq|ne)$', cf.callee_name(t))]
        nots = [1 for _b, _s, x in cf.stmts() if x['rhs']['rv'] == 'un' and x['rhs'].get('uop') == 'Not']
        if len(rets) != 1 or any(cf.blocks[b]['term']['t'] == 'switch' for b in cf.live_blocks()):
            rep.viol(rid, 'late-removal:predicate-shape', 'the predicate of the late-accept removal is not a single comparison', loc(cf))
            continue
        t = rets[0]
        rel = re.search(r'(eq|ne)$', cf.callee_name(t)).group(1)
        positive = (rel == 'eq') ^ (len(nots) % 2 == 1)
        sides = [cf.slice(a) for a in t['args']]
        has_early = any('early' in x.field_names() for x in sides)
        has_leaf = any('Option::Some' in desc(cf, a) or any('Some' in str(v) for v in x.aggs) for x, a in zip(sides, t['args']))
        if not has_early:
            rep.viol(rid, 'late-removal:not-early', 'the predicate does not compare the predecessor\'s `early` match', loc(cf))
        if not has_leaf:
            rep.viol(rid, 'late-removal:not-leaf', 'the predicate does not compare with Some(leaf)', loc(cf))
        ok = (quant == 'all' and positive and on_true and not on_false) or (quant == 'any' and not positive and on_false and not on_true)
        if not ok:
            rep.viol(rid, 'late-removal:not-universal', 'the late accept is cleared when %s(|pred| pred.early %s Some(leaf)) is %s: that is not "every predecessor already records this leaf early", so a state also entered from a predecessor that has not recorded the match loses the only place where it would be recorded (and is then pruned as a dead end)' % (quant, '==' if positive else '!=', 'true' if on_true else 'false'), loc(fn, call['line']))
        # the leaf compared is the state's own accept: the store lies on the Some edge of a switch on discr(accept)
        own = False
        for sb2 in controlling_switches(fn, bi):
            c2 = cond_of_switch(fn, sb2)
            if c2 and 'accept' in str(c2.get('root')):
                own = True
        if not own:
            dsw = [sb2 for sb2 in controlling_switches(fn, bi) if 'accept' in desc(fn, fn.blocks[sb2]['term']['discr'])]
            own = bool(dsw)
        if not own:
            rep.viol(rid, 'late-removal:not-own-accept', 'the store is not conditioned on the state\'s own late accept', loc(fn, st['line']))


PARSE_PASSTHROUGH_OK = re.compile(r'(ToString>::to_string|<impl str>::parse|String as std::ops::Deref>::deref|String::as_str|Try>::branch|FromResidual<.*>>::from_residual|Result::<T, E>::ok|Option::<T>::(ok_or|ok_or_else|map|and_then|take))$')


def parsed_unchanged(crate, fn, op, depth=0):
    """(ok, why): the operand is the result of str::parse of some text, handed on without integer casts, conversions or
    arithmetic; crate-local helpers are followed (their returned value must itself be such a value)."""
    sl = fn.slice(op)
    if sl.binops or sl.unops - {'Not'}:
        return False, 'arithmetic %s' % sorted(sl.binops | sl.unops)
    numeric = [c for c in sl.casts if c[0] and re.search(r'IntToInt|FloatToInt|IntToFloat|Transmute', str(c[0]))]
    if numeric:
        return False, 'cast %s' % numeric[:2]
    seen_parse = False
    for _b, t in sl.call_terms:
        name = fn.callee_name(t)
        if re.search(r'<impl str>::parse$', name):
            seen_parse = True
            continue
        if PARSE_PASSTHROUGH_OK.search(name):
            continue
        g = crate.local_fn(name) if hasattr(crate, 'local_fn') else crate.fns.get(name)
        if g is not None and depth < 2 and g.kind in ('Fn', 'AssocFn') :
            ok, why = parsed_unchanged(crate, g, dict(op='copy', place=dict(local=0, proj=[])), depth + 1)
            if not ok:
                return False, 'helper %s: %s' % (short(name), why)
            seen_parse = True
            continue
        if re.search(r'(parser::Parser::err|Spanned>::span|Ident::span)$', name):
            continue
        return False, 'call %s' % short(name)
    if not seen_parse:
        return False, 'no str::parse in the slice'
    return True, ''


def _priority_slot_helpers(crate, fn):
    """calls in `fn` that hand `&mut self.priority` to a crate-local function: [(helper fn, stored operand, line)] for every
    Option::replace/insert on that parameter inside the helper"""
    out = []
    for b, t in fn.calls():
        g = crate.fns.get(fn.callee_name(t))
        if g is None or g.kind not in ('Fn', 'AssocFn'):
            continue
        for i, a in enumerate(t['args']):
            pl = op_place(a)
            if pl is None:
                continue
            sl0 = fn.slice(a, through_calls=False)
            if '&mut' in str(fn.locals[pl['local']]) and any(l == 1 and tuple(fl)[-1:] == ('priority',) for l, fl in sl0.fields):
                pidx = i + 1
                for hb, ht in g.calls():
                    if re.search(r'Option::<T>::(replace|insert|get_or_insert)$', g.callee_name(ht)) and desc(g, ht['args'][0]) in ('param%d' % pidx,):
                        out.append((g, ht['args'][1], ht['line']))
                for bi, si, st in g.stmts():
                    if st['lhs']['local'] == pidx and any(p['k'] == 'deref' for p in st['lhs']['proj']) and not fields_of(st['lhs']):
                        out.append((g, st['rhs'].get('a'), st['line']))
    return [x for x in out if x[1] is not None]


def rule_priority_parse(rep, crate):
    rid = rep.rule('M-C09d', 'explicit priority: the value Definition::named_attr stores into self.priority (a usize) is the result of str::parse of the attribute text, handed on without integer cast, From/Into/TryFrom conversion or arithmetic (private helpers are followed): a narrower parse type would need such a conversion, so every n that fits usize replaces the default', floor=1)
    fn = crate.fns.get('parser::definition::Definition::named_attr')
    if not rep.anchor(rid, 'fn Definition::named_attr', fn is not None):
        return
    stores = []
    for b, t in fn.calls():
        if re.search(r'Option::<T>::(replace|insert|get_or_insert)$', fn.callee_name(t)) and desc(fn, t['args'][0]) == 'self.priority':
            stores.append((t['args'][1], t['line']))
    from mirlib import stores_to_field
    for bi, si, st in stores_to_field(fn, 'priority'):
        if st['rhs']['rv'] == 'use':
            r = trace(fn, st['rhs']['a'])
            if r[0] == 'agg' and r[2]['rhs']['kind'].get('variant') == 'Some':
                stores.append((r[2]['rhs']['ops'][0], st['line']))
            else:
                stores.append((st['rhs']['a'], st['line']))
        else:
            stores.append((None, st['line']))
    # form 3: `&mut self.priority` handed to a private helper that parses and stores into the slot
    slot_stores = _priority_slot_helpers(crate, fn)
    for h, op, line in slot_stores:
        ok, why = parsed_unchanged(crate, h, op)
        rep.inst(rid, 'priority-store:via:%s' % short(h.name), detail=dict(value=desc(h, op)[:120], ok=ok))
        if not ok:
            rep.viol(rid, 'priority-store:value', 'the helper %s stores %s into the priority slot, which is not the unmodified result of parsing the attribute text (%s)' % (h.name, desc(h, op)[:120], why), loc(h, line))
    if not rep.anchor(rid, 'store into self.priority in named_attr', bool(stores) or bool(slot_stores)):
        return
    for op, line in stores:
        d = desc(fn, op) if op is not None else '?'
        ok, why = parsed_unchanged(crate, fn, op) if op is not None else (False, 'not a plain value')
        rep.inst(rid, 'priority-store', detail=dict(value=d[:120], ok=ok))
        if not ok:
            rep.viol(rid, 'priority-store:value', 'self.priority receives %s which is not the unmodified result of parsing the attribute text (%s): an explicit priority is truncated, converted or restricted to a narrower range' % (d[:160], why), loc(fn, line))


def rule_priority_writers(rep, crate):
    rid = rep.rule('M-C09e', 'who may write: the explicit priority of a Definition is None when the definition is created (Definition::new) and is set by Definition::named_attr (from `priority = n`) only; no other function stores into Definition::priority or builds a Definition with a priority (so "no explicit priority" reaches generate as None and the documented default applies to every kind of definition, bare skips included)', floor=1)
    writers = []
    for name, fn in sorted(crate.fns.items()):
        for bi, si, st in fn.stmts():
            if bi not in fn.live_blocks():
                continue
            lhs = st['lhs']
            fl = fields_of(lhs)
            if fl and fl[-1] == 'priority' and 'definition::Definition' in str(fn.locals[lhs['local']]):
                writers.append((name, fn, st, 'store'))
            rhs = st['rhs']
            if rhs['rv'] == 'agg' and str(rhs['kind'].get('adt', '')).endswith('definition::Definition'):
                flds = dict(zip(rhs['fields'] or [], rhs['ops']))
                if 'priority' in flds and 'Option::None' not in desc(fn, flds['priority']):
                    writers.append((name, fn, st, 'construct'))
        for b, t in fn.calls():
            if re.search(r'Option::<T>::(replace|insert|get_or_insert|get_or_insert_with|take)$', fn.callee_name(t)) and t['args']:
                pl = None
                r = trace(fn, t['args'][0])
                d0 = desc(fn, t['args'][0])
                if d0.endswith('.priority') and ('self' in d0 or 'param' in d0 or 'local' in d0):
                    # the receiver is the priority field of a Definition?
                    sl = fn.slice(t['args'][0], through_calls=False)
                    if any('definition::Definition' in str(fn.locals[l]) for l in sl.locals):
                        writers.append((name, fn, dict(line=t['line']), 'option-method'))
    na = crate.fns.get('parser::definition::Definition::named_attr')
    if na is not None and _priority_slot_helpers(crate, na):
        writers.append(('parser::definition::Definition::named_attr', na, dict(line=None), 'slot-helper'))
    # any other function that takes `&mut <Definition>.priority`
    for name, fn in sorted(crate.fns.items()):
        if name == 'parser::definition::Definition::named_attr':
            continue
        for bi, si, st in fn.stmts():
            rhs = st['rhs']
            if bi in fn.live_blocks() and rhs['rv'] == 'ref' and rhs.get('mut') and fields_of(rhs['place'])[-1:] == ['priority'] and 'definition::Definition' in str(fn.locals[rhs['place']['local']]):
                writers.append((name, fn, st, '&mut'))
    rep.inst(rid, 'definition-priority-writers', detail=[(n, k) for n, _f, _s, k in writers])
    ok_seen = False
    for name, fn, st, kind in writers:
        if name == 'parser::definition::Definition::named_attr':
            ok_seen = True
            continue
        rep.viol(rid, 'priority:writer:%s:%s' % (short(name), kind), '%s writes the explicit priority of a Definition (%s): a definition without `priority = n` no longer reaches generate with None' % (name, kind), loc(fn, st.get('line')))
    if not ok_seen:
        rep.viol(rid, 'priority:never-set', 'Definition::named_attr does not set the explicit priority', '')


def rule_leaf_writers(rep, crate):
    rid = rep.rule('M-C13c', 'who may write: the fields of a Leaf (pattern, priority, kind, callback, span) are set by the builder methods of leaf::Leaf and nowhere else in logos-codegen: once generate has built a leaf from a definition, its callback and its variant kind reach the generator unchanged (no later pass re-labels a callback as a skip or drops it)', floor=1)
    n = 0
    for name, fn in sorted(crate.fns.items()):
        if re.match(r'^leaf::Leaf::|^<leaf::Leaf as ', name):
            n += 1
            continue
        for bi, si, st in fn.stmts():
            if bi not in fn.live_blocks():
                continue
            for pl, kind in ((st['lhs'], 'store'), (st['rhs'].get('place') if st['rhs']['rv'] in ('ref', 'rawptr') and (st['rhs'].get('mut') or st['rhs']['rv'] == 'rawptr') else None, '&mut')):
                if pl is None:
                    continue
                fl = fields_of(pl)
                if not fl or fl[-1] not in ('pattern', 'priority', 'kind', 'callback', 'span'):
                    continue
                if not re.search(r'(^|[ &(<])leaf::Leaf(\b|$)', str(fn.locals[pl['local']])):
                    continue
                rep.viol(rid, 'leaf:writer:%s:%s:%s' % (short(name), fl[-1], kind), '%s performs a %s of Leaf::%s outside the builder methods of leaf::Leaf' % (name, kind, fl[-1]), loc(fn, st['line']))
    rep.inst(rid, 'leaf-builders', detail=n)
    if not n:
        rep.anchor(rid, 'builder methods of leaf::Leaf', False)


def rule_ignore_case_writers(rep, crate):
    rid = rep.rule('M-C10d', 'who may write: IgnoreFlags::ignore_case is set to true by IgnoreFlags::parse_ident (on the "case" edge) and nowhere else in logos-codegen; no other function stores into it, borrows it mutably or builds an IgnoreFlags value except Default (so a parsed ignore(case) reaches Pattern::compile unchanged)', floor=1)
    from mirlib import stores_to_field, mut_uses_of_field
    writers = []
    for name, fn in sorted(crate.fns.items()):
        for bi, si, st in stores_to_field(fn, 'ignore_case'):
            writers.append((name, fn, st, 'store'))
        for bi, si, st in mut_uses_of_field(fn, 'ignore_case'):
            writers.append((name, fn, st, '&mut'))
        for bi, si, st in fn.stmts():
            if bi in fn.live_blocks() and st['rhs']['rv'] == 'agg' and st['rhs']['kind'].get('adt', '').endswith('ignore_flags::IgnoreFlags'):
                writers.append((name, fn, st, 'construct'))
            # whole-value assignment into somebody's flags: `*self = flags`, `definition.ignore_flags = ..`
            if bi in fn.live_blocks():
                lhs = st['lhs']
                fl = fields_of(lhs)
                through_ref = any(p['k'] == 'deref' for p in lhs['proj'])
                lty = str(fn.locals[lhs['local']])
                if (not fl and through_ref and 'ignore_flags::IgnoreFlags' in lty) or (fl and fl[-1] == 'ignore_flags'):
                    writers.append((name, fn, st, 'assign'))
    rep.inst(rid, 'ignore_case-writers', detail=[(n, k) for n, _f, _s, k in writers])
    seen_ident = False
    for name, fn, st, kind in writers:
        if re.search(r'ignore_flags::IgnoreFlags::parse_ident$', name) and kind == 'store':
            v = desc(fn, st['rhs']['a']) if st['rhs']['rv'] == 'use' else '?'
            if v != 'const:1':
                rep.viol(rid, 'ignore_case:value', 'parse_ident stores %s into ignore_case, expected true' % v, loc(fn, st['line']))
            else:
                seen_ident = True
            continue
        if kind == 'construct' and re.search(r'ignore_flags::.*Default.*::default$|<.*IgnoreFlags as .*Default>::default$', name):
            continue
        rep.viol(rid, 'ignore_case:writer:%s:%s' % (short(name), kind), '%s performs a %s of IgnoreFlags::ignore_case: the flag parsed from ignore(case) can be altered before it reaches Pattern::compile' % (name, kind), loc(fn, st['line']))
    if not seen_ident:
        rep.viol(rid, 'ignore_case:never-set', 'no store of true into ignore_case in IgnoreFlags::parse_ident', '')


class _MiniRe:
    """Matcher for the tiny regex subset used by the subpattern name/reference constants: literals, escaped
    characters, bracket classes with ranges, quantifiers + * ?.  Anything else -> ValueError (fail closed)."""
    def __init__(self, src):
        self.items = []
        i = 0
        while i < len(src):
            c = src[i]
            if c == '\\':
                cs = {src[i + 1]}
                if src[i + 1].isalnum():
                    raise ValueError('escape \\%s' % src[i + 1])
                i += 2
            elif c == '[':
                j = src.index(']', i + 1)
                body = src[i + 1:j]
                if body.startswith('^'):
                    raise ValueError('negated class')
                cs = set()
                k = 0
                while k < len(body):
                    if body[k] == '\\':
                        cs.add(body[k + 1]); k += 2
                    elif k + 2 < len(body) and body[k + 1] == '-':
                        cs.update(chr(x) for x in range(ord(body[k]), ord(body[k + 2]) + 1)); k += 3
                    else:
                        cs.add(body[k]); k += 1
                i = j + 1
            elif c in '(|){}.^$+*?':
                raise ValueError('unsupported %r' % c)
            else:
                cs = {c}
                i += 1
            lo, hi = 1, 1
            if i < len(src) and src[i] in '+*?':
                lo, hi = {'+': (1, None), '*': (0, None), '?': (0, 1)}[src[i]]
                i += 1
            self.items.append((cs, lo, hi))

    def _m(self, k, s, pos):
        """set of end positions"""
        if k == len(self.items):
            return {pos}
        cs, lo, hi = self.items[k]
        ends = set()
        n = 0
        p = pos
        while True:
            if n >= lo:
                ends |= self._m(k + 1, s, p)
            if (hi is not None and n >= hi) or p >= len(s) or s[p] not in cs:
                break
            p += 1
            n += 1
        return ends

    def full(self, s):
        return len(s) in self._m(0, s, 0)

    def search(self, s):
        return any(self._m(0, s, i) for i in range(len(s) + 1))

    def leftmost_longest(self, s):
        for i in range(len(s) + 1):
            e = self._m(0, s, i)
            if e:
                return i, max(e)
        return None


IDENT_SAMPLES = ['a', 'Z', '_', '_a', '_1', 'a_', 'a1', 'A9_b', '__', 'ws', '_ws', 'x_y_z0', 'CamelCase', 'snake_case_1']


def _const_pattern(crate, fn, op):
    r = trace(fn, op)
    if r[0] == 'const':
        b = const_bytes(r[1])
        return b.decode('utf8', 'replace') if b is not None else None
    fp = format_parts(fn, op)
    if fp is None:
        return None
    pieces, args, _t = fp
    out = ''
    ai = 0
    for pc in pieces:
        if pc == 'ARG':
            a = args[ai] if ai < len(args) else None
            ai += 1
            if a is None:
                return None
            ra = trace(fn, a)
            b = const_bytes(ra[1]) if ra[0] == 'const' else None
            if b is None:
                ul = underlying_local(fn, a)
                ds = fn.defs().get(ul, []) if ul is not None else []
                if len(ds) == 1 and ds[0][0] == 'stmt' and ds[0][3]['rhs']['rv'] == 'use' and ds[0][3]['rhs']['a'].get('op') == 'const':
                    b = const_bytes(ds[0][3]['rhs']['a'])
            if b is None:
                return None
            out += b.decode('utf8', 'replace')
        else:
            out += pc
    return out


def rule_subpattern_names(rep, crate):
    rid = rep.rule('M-C11d', 'names and references agree: of the two constant regexes of parser::subpattern, the one that validates a subpattern name and the one that recognises a reference (?&name) accept the same names, and every ASCII Rust identifier (first character letter or _, then letters, digits, _) is accepted by both, so a name that can be defined can be referenced', floor=2)
    pats = {}
    for name, fn in sorted(crate.fns.items()):
        if not re.search(r'^parser::subpattern::[A-Za-z_0-9]+::\{closure#\d+\}$', name):
            continue
        for b, t in fn.calls():
            if re.search(r'regex::Regex::new$', fn.callee_name(t)):
                src = _const_pattern(crate, fn, t['args'][0])
                pats[name] = (src, fn, t)
    rep.inst(rid, 'subpattern-regexes', detail={short(k): v[0] for k, v in pats.items()})
    if not rep.anchor(rid, 'two constant regexes in parser::subpattern', len(pats) == 2):
        return
    und = [k for k, v in pats.items() if v[0] is None]
    if und:
        k = und[0]
        rep.viol(rid, 'subpattern-regex:unknown', 'the pattern of %s is not a constant (or a format!() of constants) that can be decoded: fail closed' % k, loc(pats[k][1]))
        return
    group = [k for k, v in pats.items() if v[0].startswith('\\(\\?\\&') or v[0].startswith('\\(\\?&')]
    if len(group) != 1:
        rep.viol(rid, 'subpattern-regex:roles', 'cannot tell the reference regex from the name regex (%s)' % [v[0] for v in pats.values()], '')
        return
    gk = group[0]
    ik = [k for k in pats if k != gk][0]
    try:
        g = _MiniRe(pats[gk][0])
        idr = _MiniRe(pats[ik][0])
    except (ValueError, IndexError) as e:
        rep.viol(rid, 'subpattern-regex:unsupported', 'a subpattern regex constant uses syntax outside the audited subset (%s): fail closed' % e, loc(pats[gk][1]))
        return
    for smp in IDENT_SAMPLES:
        rep.inst(rid, 'ident:%s' % smp)
        if not idr.search(smp):
            rep.viol(rid, 'subpattern-regex:name-rejected:%s' % smp, 'the name regex %r rejects the identifier %r' % (pats[ik][0], smp), loc(pats[ik][1]))
        ref = '(?&%s)' % smp
        hay = 'x' + ref + '+y'
        got = g.leftmost_longest(hay)
        if got != (1, 1 + len(ref)):
            rep.viol(rid, 'subpattern-regex:reference-missed:%s' % smp, 'the reference regex %r does not recognise %r (match %s in %r): a subpattern with this name can be defined but not referenced' % (pats[gk][0], ref, got, hay), loc(pats[gk][1]))
    # and nothing that is not an identifier is recognised as a reference
    for bad in ['(?&)', '(?&a-b)', '(?& a)', '(?&a b)']:
        if g.search(bad):
            rep.viol(rid, 'subpattern-regex:reference-spurious:%s' % bad, 'the reference regex %r matches inside %r' % (pats[gk][0], bad), loc(pats[gk][1]))


def rule_dfa_config(rep, crate):
    rid = rep.rule('M-C01a', 'the reference automaton is the one the property speaks of: in Graph::new every dense::Config::match_kind receives MatchKind::All (all matches, hence the longest, are visible), start_kind receives StartKind::Anchored, the start state is universal_start_state(Anchored::Yes), and build_many_from_hir is given the leaves\' own patterns in leaf order (pattern id == leaf id; no filter / reorder adapter in the slice)', floor=4)
    fn = crate.fns.get('graph::Graph::new')
    if not rep.anchor(rid, 'fn Graph::new', fn is not None):
        return
    want = [(r'dfa::dense::Config::match_kind$', 1, 'agg:regex_automata::MatchKind::All{}', 'match kind'),
            (r'dfa::dense::Config::start_kind$', 1, 'agg:regex_automata::dfa::StartKind::Anchored{}', 'start kind'),
            (r'Automaton>::universal_start_state$', 1, 'agg:regex_automata::Anchored::Yes{}', 'anchoring of the start state')]
    # the configuration may be built in private associated functions of Graph called from Graph::new (`Self::dfa_config()`)
    helpers = []
    for _b, t in fn.calls():
        g = crate.fns.get(fn.callee_name(t))
        if g is not None and g.name.startswith('graph::Graph::') and g is not fn and g not in helpers:
            helpers.append(g)
    for pat, idx, val, what in want:
        calls = [(f, b, t) for f in [fn] + helpers for b, t in find_calls(f, pat)]
        rep.inst(rid, 'dfa-config:%s' % what, detail=[desc(f, t['args'][idx]) for f, _b, t in calls])
        if not calls:
            rep.viol(rid, 'dfa-config:missing:%s' % what, 'no call sets the %s of the automaton' % what, loc(fn))
        for f, b, t in calls:
            if desc(f, t['args'][idx]) != val:
                rep.viol(rid, 'dfa-config:%s' % what, 'the %s is %s, expected %s' % (what, desc(f, t['args'][idx]), val), loc(f, t['line']))
    builds = find_calls(fn, r'thompson::Compiler::build_many_from_hir$')
    rep.inst(rid, 'dfa-config:patterns', detail=len(builds))
    if len(builds) != 1:
        rep.viol(rid, 'dfa-config:build', 'expected one build_many_from_hir call, found %d' % len(builds), loc(fn))
    for b, t in builds:
        sl = fn.slice(t['args'][1])
        names = {short(c) for c in sl.calls} | {short(c) for c in sl.fnrefs}
        bad = sorted(n for n in names if re.search(r'::(rev|filter|filter_map|skip|skip_while|take|take_while|step_by|sort\w*|dedup\w*|reverse|swap\w*|chain|zip|retain|pop|remove|truncate|insert)$', n))
        uses_leaves = 'param1' in desc(fn, t['args'][1]) or 1 in {pl for pl, _f in sl.fields} or any(p == 1 for p in sl.params)
        if bad or not uses_leaves:
            rep.viol(rid, 'dfa-config:pattern-order', 'the patterns handed to the NFA compiler are not the leaves\' patterns in leaf order (adapters %s, reads leaves: %s)' % (bad, uses_leaves), loc(fn, t['line']))


def rule_leaf_sites_complete(rep, crate):
    """M-C13d: no leaf is built outside the three audited construction sites."""
    rid = rep.rule('M-C13d', 'every Leaf::new in logos-codegen (outside tests) belongs to one of the audited construction sites of `generate`, i.e. its value receives the definition\'s own callback (`.callback(definition.callback)`), priority and variant kind: a leaf built on a side path (a fast path for one kind of definition) silently loses the user callback, so the callback never runs and its result never determines the item', floor=3)
    fn = crate.fns.get(GEN)
    if not rep.anchor(rid, 'fn logos_codegen::generate', fn is not None):
        return
    sites = find_sites(fn)
    audited = {(s.new[0], s.new[1]['line']) for s in sites.values() if s.new is not None}
    for f in crate.fns.values():
        if re.search(r'::tests?::|^graph::export', f.name):
            continue
        for bi, t in find_calls(f, r'^leaf::Leaf::new$'):
            k = '%s:Leaf::new' % f.name
            rep.inst(rid, k, detail=dict(line=t['line']))
            if f is not fn or (bi, t['line']) not in audited:
                rep.viol(rid, 'leaf-without-callback:%s' % f.name, 'a Leaf is constructed in %s whose builder chain never receives the definition\'s callback: for definitions taking this path the user callback is dropped' % f.name, loc(f, t['line']))
    # and each audited site consumes callback, priority and the variant kind
    for root, s in sites.items():
        for part, call in (('priority', s.priority), ('literal/Leaf::new', s.new)):
            if call is None:
                rep.viol(rid, 'site-incomplete:%s:%s' % (s.kind, part), 'the %s construction site does not consume the definition\'s %s' % (s.kind, part), loc(fn, s.callback[1]['line']))


def rule_dfa_heuristics(rep, crate):
    """M-C01b: crate-wide who-may-call rule for the automaton options that trade exactness for coverage."""
    rid = rep.rule('M-C01b', 'no heuristic automaton option: nowhere in logos-codegen is a DFA/NFA configured with unicode_word_boundary(true) or quit bytes (the DFA would treat Unicode \\b as ASCII \\b and give up / mis-match on non-ASCII input instead of the pattern being rejected), with reverse(true) or with a custom look_matcher (different line terminator): what regex-automata cannot build exactly must stay a build error that the derive reports', floor=1)
    n = 0
    for f in crate.fns.values():
        for bi, t in f.calls():
            nm = f.callee_name(t)
            m = re.search(r'(dfa::dense::Config|hybrid::dfa::Config|thompson::Config|dfa::onepass::Config)::(unicode_word_boundary|quit|reverse|look_matcher)$', nm)
            if not m:
                continue
            n += 1
            what = m.group(2)
            arg = desc(f, t['args'][-1]) if len(t['args']) > 1 else '?'
            rep.inst(rid, '%s:%s' % (f.name, what), detail=arg)
            if what == 'look_matcher' or not re.fullmatch(r'(const:)?false', arg):
                rep.viol(rid, 'dfa-heuristic:%s' % what, '%s configures the automaton with %s(%s): patterns the exact construction rejects (or matches differently) are then accepted with approximate semantics' % (f.name, what, arg), loc(f, t['line']))
    builders = [f for f in crate.fns.values() if find_calls(f, r'dfa::dense::Config::new$|thompson::Compiler::build_many_from_hir$')]
    rep.inst(rid, 'automaton-builders', detail=[f.name for f in builders])
    rep.anchor(rid, 'a function that configures the DFA (dense::Config::new / build_many_from_hir)', bool(builders))


# --------------------------------------------------------------------------------------------
# positive controls on fixtures/mir-cg (a frozen copy of logos-codegen/src with seeded defects)
# --------------------------------------------------------------------------------------------

def cg_controls(rep, ctx, rids):
    """rids: list of (rule id, callable(report, crate)) — each rule must report a non-anchor violation on the fixture"""
    import core
    crid = rep.rule('M-controls-cg', 'positive controls: the generator rules fire on fixtures/mir-cg, a frozen copy of logos-codegen/src carrying seeded defects (fixtures/mir-cg/APPLIED.txt)')
    crate = ctx.mir('fixture-cg')['logos_codegen']
    for rid, run in rids:
        probe = core.Report(rep.pid, rep.tier)
        try:
            run(probe, crate)
        except Exception as e:     # a rule that crashes on the broken copy has not fired
            probe.rule(rid, 'crashed')
        real = [v for v in probe.rules.get(rid, dict(violations=[]))['violations'] if not v['key'].startswith('anchor-missing')]
        rep.inst(crid, rid)
        rep.control(crid, '%s on fixtures/mir-cg' % rid, bool(real))
