"""C09 Default priorities follow the documented specificity rule."""
from props import cg

EXPLANATION = ('On type-checked MIR of logos-codegen: at all three leaf construction sites the priority is definition.priority.unwrap_or(default) for the same definition '
               '(explicit overrides default); the token default is 2 x the byte length of the literal value, the regex/skip default is Pattern::priority() of the pattern compiled at that site; '
               'Pattern::complexity is a match on HirKind whose per-variant arms are summarised and compared with the documented table (Empty/Look 0, Class 2, Literal 2 x chars|bytes, '
               'Repetition min x rec, Capture rec, Concat sum, Alternation min). Definition::named_attr stores exactly the Ok value of parse::<usize>() as the explicit priority (M-C09d); get_state_type picks the maximum priority and reports ties (M-C08b). Decides the rule table and its wiring for every pattern; the arithmetic corollary about literal/regex pairs is not decided.')


def run(ctx, rep):
    crate = ctx.mir('ws-default')['logos_codegen']
    cg.rule_sites(rep, crate, want=('C09',))
    cg.rule_complexity(rep, crate)
    cg.rule_priority_parse(rep, crate)
    cg.rule_priority_writers(rep, crate)
    # the pattern whose structure is counted is the documented one: byte literals are escaped byte by byte (a quantifier binds to one byte)
    cg.rule_literal_escape(rep, crate)
    # "it wins or the derive reports an ambiguity": the winner of a state is the leaf with the maximum priority, ties are errors
    from props import c08
    c08.rule_state_type(rep, crate)
    cg.cg_controls(rep, ctx, [('M-C09c', cg.rule_complexity)])
    rep.trusted += ['rustc nightly MIR', 'engines/mirfacts', 'regex-syntax Hir construction (what counts as a literal / class)']
