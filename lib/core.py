"""Rule bookkeeping: instances, floors, anchors, violations, known findings, evidence."""
import hashlib
import json
import os
import sys
import time

VERIF = os.path.dirname(os.path.dirname(os.path.abspath(__file__)))


class Report:
    def __init__(self, pid, tier):
        self.pid = pid
        self.tier = tier
        self.rules = {}          # rule id -> dict(text, instances[], floor, violations[])
        self.order = []
        self.assumptions = []
        self.trusted = []
        self.analysed = {}       # free-form: crates / functions / definitions analysed
        self.extra = {}
        self.t0 = time.time()

    # ---- declaration ----
    def rule(self, rid, text, floor=0):
        if rid not in self.rules:
            self.rules[rid] = dict(text=text, instances=[], floor=floor, violations=[], controls=[])
            self.order.append(rid)
        else:
            self.rules[rid]['floor'] = max(self.rules[rid]['floor'], floor)
        return rid

    def inst(self, rid, key, detail=None, trivial=False):
        """One examined instance (a call site, a function, a state, an obligation)."""
        self.rules[rid]['instances'].append(dict(key=str(key), detail=detail, trivial=trivial))

    def viol(self, rid, key, msg, where=None):
        self.rules[rid]['violations'].append(dict(rule=rid, key=str(key), msg=msg, where=where))

    def anchor(self, rid, what, found):
        """A named anchor of a rule.  Missing anchor = fail closed."""
        if not found:
            self.viol(rid, 'anchor-missing:' + what, 'anchor missing: %s (rule cannot be evaluated; failing closed)' % what)
            return False
        return True

    def control(self, rid, name, fired):
        """Positive control: a deliberately broken fixture must make the rule fire."""
        self.rules[rid]['controls'].append(dict(name=name, fired=bool(fired)))
        if not fired:
            self.viol(rid, 'control-silent:' + name, 'positive control %s did not fire: the rule engine has rotted' % name)

    # ---- results ----
    def all_violations(self):
        out = []
        seen = set()
        for rid in self.order:
            r = self.rules[rid]
            for v in r['violations']:
                if (rid, v['key']) not in seen:     # the same key in several build configurations is one violation
                    seen.add((rid, v['key']))
                    out.append(v)
            n = len(r['instances'])
            if n < r['floor']:
                out.append(dict(rule=rid, key='floor', msg='rule %s examined %d instances, fewer than the %d confirmed by hand on the reference tree (failing closed)' % (rid, n, r['floor']), where=None))
        return out


def load_known():
    p = os.path.join(VERIF, 'known_findings.json')
    if not os.path.exists(p):
        return []
    with open(p) as f:
        return json.load(f).get('findings', [])


def vkey(pid, v):
    return '%s|%s|%s' % (pid, v['rule'], v['key'])


def _plain(x):
    """JSON-safe copy: dictionary keys become strings (a None key would break sort_keys)"""
    if isinstance(x, dict):
        return {str(k): _plain(v) for k, v in x.items()}
    if isinstance(x, (list, tuple, set, frozenset)):
        return [_plain(v) for v in (sorted(x, key=str) if isinstance(x, (set, frozenset)) else x)]
    return x


def finish(rep, level='other', explanation='', seed=0, extra_cov=None):
    """Print verdict lines, write evidence and replay files, return the exit code."""
    pid = rep.pid
    known = [k for k in load_known() if k.get('property') == pid and k.get('status') == 'known']
    known_keys = {k['key']: k for k in known}
    viols = rep.all_violations()
    new = []
    seen_known = set()
    for v in viols:
        k = vkey(pid, v)
        if k in known_keys:
            seen_known.add(k)
        else:
            new.append(v)
    for k in sorted(seen_known):
        print('KNOWN-FINDING: property=%s %s' % (pid, known_keys[k].get('what', k)))
    vdir = os.path.join(VERIF, 'violations') if not os.environ.get('VERIF_NO_EVIDENCE') else os.path.join(VERIF, '.cache', 'scratch-violations')
    per_rule = {}
    CAP = 15
    for v in new:
        per_rule[v['rule']] = per_rule.get(v['rule'], 0) + 1
        if per_rule[v['rule']] > CAP:
            continue            # counted (exit status, evidence), not printed: one rule instance per state can fire thousands of times
        os.makedirs(vdir, exist_ok=True)
        k = vkey(pid, v)
        path = os.path.join(vdir, '%s-%s.json' % (pid, hashlib.sha256(k.encode()).hexdigest()[:12]))
        with open(path, 'w') as f:
            json.dump(dict(property=pid, key=k, rule=v['rule'], message=v['msg'], where=v.get('where'), tier=rep.tier), f, indent=1)
        print('%s: rule=%s key=%s\n    %s%s' % (pid, v['rule'], v['key'], v['msg'], ('\n    at ' + v['where']) if v.get('where') else ''))
        print('VIOLATION property=%s replay=%s' % (pid, path))
    for rule, n in sorted(per_rule.items()):
        if n > CAP:
            print('%s: rule=%s: %d further violations of this rule not listed' % (pid, rule, n - CAP))
    # ---- evidence ----
    evals = 0
    distinct = set()
    per_rule = {}
    samples = []
    obligations = 0
    discharged = 0
    for rid in rep.order:
        r = rep.rules[rid]
        n = len(r['instances'])
        evals += n
        for i in r['instances']:
            if not i['trivial']:
                distinct.add((rid, i['key']))
        bad = {v['key'] for v in r['violations']}
        obligations += n
        discharged += sum(1 for i in r['instances'] if i['key'] not in bad)
        per_rule[rid] = dict(rule=r['text'], instances=n, floor=r['floor'], violations=len(r['violations']),
                             controls=r['controls'])
        for i in r['instances'][:3]:
            samples.append(dict(rule=rid, key=i['key'], detail=i['detail']))
    cov = dict(
        explanation=explanation,
        evaluations=evals,
        distinct_nontrivial=len(distinct),
        rule='an evaluation is one rule instance (call site, store, function, generated state, table row) examined on the facts of the current /repo tree; distinct = distinct (rule, instance key); trivial = anchor-presence-only instances, which are not counted',
        samples=samples,
        obligations=obligations,
        discharged=discharged,
        per_rule=per_rule,
        analysed=rep.analysed,
        trusted_base=rep.trusted,
        exhaustive=False,
    )
    cov.update(rep.extra)
    if extra_cov:
        cov.update(extra_cov)
    ev = dict(property_id=pid, tier=rep.tier, seed=seed, level=level, coverage=cov,
              assumptions=rep.assumptions, wall_s=round(time.time() - rep.t0, 2), violations=len(new))
    edir = os.path.join(VERIF, 'evidence')
    if os.environ.get('VERIF_NO_EVIDENCE'):
        edir = os.path.join(VERIF, '.cache', 'scratch-evidence')
    os.makedirs(edir, exist_ok=True)
    tmp = os.path.join(edir, '.%s.json.tmp%d' % (pid, os.getpid()))
    with open(tmp, 'w') as f:
        json.dump(_plain(ev), f, indent=1, sort_keys=True)
        f.write('\n')
    os.replace(tmp, os.path.join(edir, pid + '.json'))
    total = sum(len(rep.rules[r]['instances']) for r in rep.order)
    print('%s %s: %d rules, %d instances, %d violations (%d known), %.1fs' % (
        pid, rep.tier, len(rep.order), total, len(new), len(seen_known), time.time() - rep.t0))
    for rid in rep.order:
        r = rep.rules[rid]
        print('  %-10s instances=%-4d floor=%-3d viol=%d  %s' % (rid, len(r['instances']), r['floor'], len(r['violations']), r['text'][:90]))
    return 1 if new else 0
