"""MIR fact library: loading, CFG, dominators, slicing, call graph.

Facts are produced by engines/mirfacts (one JSON line per fn/closure body plus
crate level tables).  Everything here is stdlib Python and purely structural:
no code of /repo is executed.
"""
import json
import os
import re
from collections import defaultdict, deque


# ----------------------------------------------------------------------------
# places / operands
# ----------------------------------------------------------------------------

def proj_str(proj):
    out = []
    for p in proj:
        k = p['k']
        if k == 'deref':
            out.append('*')
        elif k == 'field':
            out.append(p['name'])
        elif k == 'downcast':
            out.append('as ' + p['variant'])
        elif k == 'index':
            out.append('[_%d]' % p['local'])
        else:
            out.append('?')
    return out


def place_str(pl):
    return '_%d' % pl['local'] + ''.join('.' + x for x in proj_str(pl['proj']))


def fields_of(pl):
    """Field names along a place, ignoring derefs and downcasts."""
    return [p['name'] for p in pl['proj'] if p['k'] == 'field']


def has_raw_deref(pl):
    return any(p['k'] == 'deref' and p.get('raw') for p in pl['proj'])


def op_place(op):
    if op and op.get('op') in ('copy', 'move'):
        return op['place']
    return None


def const_int(op):
    if op and op.get('op') == 'const' and op.get('val') is not None and op.get('fn') is None:
        v = op['val']
        if re.fullmatch(r'\d+', v or ''):
            return int(v)
    return None


def const_bytes(op):
    """String / byte-string constants are exported as hex."""
    if op and op.get('op') == 'const' and op.get('val') is not None:
        ty = op.get('ty', '')
        if ('str' in ty or '[u8' in ty) and re.fullmatch(r'(?:[0-9a-f]{2})*', op['val']):
            return bytes.fromhex(op['val'])
    return None


# ----------------------------------------------------------------------------
# function bodies
# ----------------------------------------------------------------------------

class Fn:
    def __init__(self, d, crate):
        self.d = d
        self.crate = crate
        self.name = d['fn']
        self.kind = d['kind']
        self.file = d.get('file', '')
        self.line = d.get('line', 0)
        self.vis = d.get('vis', '')
        self.is_unsafe = d.get('unsafe', False)
        self.impl_self = d.get('impl_self', '')
        self.impl_trait = d.get('impl_trait', '')
        self.parent = d.get('parent', '')
        self.argc = d['argc']
        self.locals = d['locals']
        self.names = {int(k): v for k, v in d['names'].items()}
        self.blocks = d['blocks']
        self._succ = None
        self._pred = None
        self._dom = None
        self._defs = None

    # ---- CFG ----
    def succ(self, b):
        if self._succ is None:
            self._succ = []
            for blk in self.blocks:
                t = blk['term']
                k = t['t']
                s = []
                if k == 'call':
                    if t['target'] >= 0:
                        s.append(t['target'])
                elif k == 'switch':
                    for _v, tgt in t['targets']:
                        if tgt not in s:
                            s.append(tgt)
                elif k in ('goto', 'drop', 'assert'):
                    s.append(t['target'])
                elif k == 'other':
                    # FalseEdge / FalseUnwind / InlineAsm etc: parse "-> bbN" targets conservatively
                    for m in re.finditer(r'bb(\d+)', t.get('dbg', '')):
                        s.append(int(m.group(1)))
                self._succ.append(s)
        return self._succ[b]

    def pred(self, b):
        if self._pred is None:
            self._pred = [[] for _ in self.blocks]
            for i in range(len(self.blocks)):
                for s in self.succ(i):
                    self._pred[s].append(i)
        return self._pred[b]

    def reachable(self, start=0, without_edges=(), without_blocks=()):
        seen = set()
        if start in without_blocks:
            return seen
        dq = deque([start])
        seen.add(start)
        we = set(without_edges)
        wb = set(without_blocks)
        while dq:
            b = dq.popleft()
            for s in self.succ(b):
                if (b, s) in we or s in wb or s in seen:
                    continue
                seen.add(s)
                dq.append(s)
        return seen

    def live_blocks(self):
        """Blocks reachable from entry (non cleanup paths only, since unwind edges are not exported)."""
        return self.reachable(0)

    def dominates_block(self, a, b):
        """a dominates b: b unreachable from entry once a is removed (or a == b)."""
        if a == b:
            return True
        return b not in self.reachable(0, without_blocks=(a,))

    def edge_dominates(self, edge, b):
        """Every path entry -> b traverses edge (s, t)."""
        s, t = edge
        if b not in self.live_blocks():
            return False
        return b not in self.reachable(0, without_edges=(edge,))

    def edges_dominate(self, edges, b):
        """Every path entry -> b traverses at least one of the edges."""
        if b not in self.live_blocks():
            return False
        return b not in self.reachable(0, without_edges=tuple(edges))

    def can_reach(self, a, b):
        return b in self.reachable(a)

    def return_blocks(self):
        return [i for i, blk in enumerate(self.blocks) if blk['term']['t'] == 'return' and i in self.live_blocks()]

    def diverging_blocks(self):
        """Live blocks that end in a call without target (panic) or unreachable."""
        out = []
        for i in self.live_blocks():
            t = self.blocks[i]['term']
            if (t['t'] == 'call' and t['target'] < 0) or t['t'] == 'unreachable':
                out.append(i)
        return out

    # ---- statements ----
    def stmts(self):
        for bi, blk in enumerate(self.blocks):
            for si, st in enumerate(blk['stmts']):
                yield bi, si, st

    def calls(self, live_only=True):
        live = self.live_blocks() if live_only else None
        for bi, blk in enumerate(self.blocks):
            if live is not None and bi not in live:
                continue
            t = blk['term']
            if t['t'] == 'call':
                yield bi, t

    def callee_name(self, t):
        c = t['callee']
        return c.get('resolved') or c.get('path') or ('dyn:' + c.get('dyn', '?'))

    def defs(self):
        """local -> list of ('stmt', bb, idx, stmt) / ('call', bb, term) whole-local definitions and
        partial (projected) writes."""
        if self._defs is None:
            d = defaultdict(list)
            for bi, si, st in self.stmts():
                # a write through a dereference changes the pointee, not the local
                if any(p['k'] == 'deref' for p in st['lhs']['proj']):
                    continue
                d[st['lhs']['local']].append(('stmt', bi, si, st))
            for bi, t in self.calls(live_only=False):
                d[t['dest']['local']].append(('call', bi, None, t))
            self._defs = d
        return self._defs

    def local_name(self, l):
        return self.names.get(l, '_%d' % l)

    # ---- slicing ----
    def slice(self, op_or_place, through_calls=True, max_nodes=4000, stop_at_calls=(), stop_re=None):
        """Flow-insensitive backward slice.  Returns a Slice with:
        consts: set of (ty, val); params: set of arg locals reached; fields: set of tuples
        (root_local, tuple(field names)) for every place read on the way; calls: set of callee names
        whose result flows in; call_terms: the call terminators; locals: visited locals."""
        sl = Slice()
        work = []

        def push_place(pl):
            fl = tuple(fields_of(pl))
            sl.places.add((pl['local'], tuple(proj_str(pl['proj']))))
            if fl:
                sl.fields.add((pl['local'], fl))
            for p in pl['proj']:
                if p['k'] == 'index':
                    work.append(p['local'])
            work.append(pl['local'])

        def push_op(op):
            if op is None:
                return
            if op.get('op') == 'const':
                sl.consts.add((op.get('ty'), op.get('val'), op.get('fn')))
                if op.get('pretty'):
                    sl.pretty.add((op.get('ty'), op.get('pretty')))
                if op.get('fn'):
                    sl.fnrefs.add(op['fn'])
            else:
                pl = op_place(op)
                if pl is not None:
                    push_place(pl)

        if 'op' in op_or_place:
            push_op(op_or_place)
        else:
            push_place(op_or_place)
        seen = set()
        while work:
            l = work.pop()
            if l in seen:
                continue
            seen.add(l)
            if len(seen) > max_nodes:
                sl.truncated = True
                break
            if 1 <= l <= self.argc:
                sl.params.add(l)
            for kind, bi, si, x in self.defs().get(l, ()):
                if kind == 'stmt':
                    rhs = x['rhs']
                    rv = rhs['rv']
                    if rv in ('use', 'cast', 'un'):
                        push_op(rhs['a'])
                        if rv == 'un':
                            sl.unops.add(rhs.get('uop'))
                        if rv == 'cast':
                            sl.casts.add((rhs.get('kind'), rhs.get('to')))
                    elif rv == 'bin':
                        sl.binops.add(rhs['bop'])
                        push_op(rhs['a'])
                        push_op(rhs['b'])
                    elif rv in ('ref', 'rawptr', 'discr'):
                        push_place(rhs['place'])
                    elif rv == 'agg':
                        k = rhs['kind']
                        if 'adt' in k:
                            sl.aggs.add((k['adt'], k['variant']))
                        if 'closure' in k:
                            sl.closures.add(k['closure'])
                        for o in rhs['ops']:
                            push_op(o)
                    else:
                        sl.other.add(rhs.get('dbg', '?'))
                else:
                    name = self.callee_name(x)
                    sl.calls.add(name)
                    sl.call_terms.append((bi, x))
                    if through_calls and name not in stop_at_calls and not (stop_re is not None and re.search(stop_re, name)):
                        for a in x['args']:
                            push_op(a)
        sl.locals = seen
        return sl

    def __repr__(self):
        return '<Fn %s>' % self.name


class Slice:
    def __init__(self):
        self.consts = set()
        self.pretty = set()       # (type, pretty-printed value) of promoted constants the driver could only print
        self.params = set()
        self.fields = set()
        self.places = set()
        self.calls = set()
        self.call_terms = []
        self.binops = set()
        self.unops = set()
        self.casts = set()
        self.aggs = set()
        self.closures = set()
        self.fnrefs = set()
        self.other = set()
        self.locals = set()
        self.truncated = False

    def field_names(self):
        out = set()
        for _l, fl in self.fields:
            out.update(fl)
        return out

    def has_field_path(self, *names):
        """some place read contains the consecutive field names"""
        n = len(names)
        for _l, fl in self.fields:
            for i in range(len(fl) - n + 1):
                if tuple(fl[i:i + n]) == tuple(names):
                    return True
        return False

    def calls_matching(self, pat):
        return [c for c in self.calls if re.search(pat, c)]

    def int_consts(self):
        out = set()
        for ty, val, fn in self.consts:
            if fn is None and val is not None and re.fullmatch(r'\d+', val) and ty not in ('&str',):
                out.add(int(val))
        return out


# ----------------------------------------------------------------------------
# crates
# ----------------------------------------------------------------------------

def signature(fn):
    """return type + parameter types (as printed by rustc)"""
    return [fn.locals[0]] + [fn.locals[i] for i in range(1, fn.argc + 1)]


_SIGNATURES = None


def reference_signatures():
    global _SIGNATURES
    if _SIGNATURES is None:
        p = os.path.join(os.path.dirname(os.path.abspath(__file__)), 'props', 'signatures.json')
        try:
            with open(p) as f:
                _SIGNATURES = json.load(f)
        except OSError:
            _SIGNATURES = {}
    return _SIGNATURES


def find_renames(lines, crate_name):
    """Functions of the reference tree that are missing, matched with unknown functions of identical signature
    (unique both ways): a rename or a move, not a behavioural change.  Returns {new path: reference path}."""
    ref = reference_signatures().get(crate_name)
    if not ref or os.environ.get('VERIF_NO_ALIAS'):
        return {}
    have = {}
    for d in lines:
        if 'fn' in d and d['kind'] != 'Closure':
            have[d['fn']] = [d['locals'][0]] + [d['locals'][i] for i in range(1, d['argc'] + 1)]
    missing = {n: sig for n, sig in ref.items() if n not in have}
    unknown = {n: sig for n, sig in have.items() if n not in ref}
    out = {}
    for n, sig in unknown.items():
        cands = [m for m, msig in missing.items() if msig == sig]
        back = [u for u, usig in unknown.items() if usig == sig]
        if len(cands) == 1 and len(back) == 1:
            out[n] = cands[0]
    return out


class Crate:
    def __init__(self, path):
        self.path = path
        self.fns = {}
        self.adts = {}
        self.enums = {}
        self.impls = []
        self.meta = {}
        self.renamed = {}
        with open(path) as f:
            raw = f.read()
        parsed = [json.loads(l) for l in raw.split('\n') if l.strip()]
        cname = next((d['crate'] for d in parsed if 'crate' in d), os.path.basename(path).split('.')[0])
        ren = find_renames(parsed, cname)
        if ren:
            # map the new names back to the reference names everywhere (bodies, callees, closures, fn references)
            for new, old in sorted(ren.items(), key=lambda x: -len(x[0])):
                raw = re.sub(r'(?<![A-Za-z0-9_:])%s(?![A-Za-z0-9_])' % re.escape(json.dumps(new)[1:-1]), lambda m, old=old: json.dumps(old)[1:-1], raw)
            self.renamed = ren
        if True:
            for line in raw.split('\n'):
                line = line.strip()
                if not line:
                    continue
                d = json.loads(line)
                if 'fn' in d:
                    self.fns[d['fn']] = Fn(d, self)
                elif 'adt' in d:
                    self.adts[d['adt']] = d['fields']
                elif 'enum' in d:
                    self.enums[d['enum']] = d['variants']
                elif 'impl' in d:
                    self.impls.append(d)
                elif 'crate' in d:
                    self.meta = d
        self.name = self.meta.get('crate', os.path.basename(path).split('.')[0])

    def find(self, pattern):
        """Functions whose def path matches the regex (search)."""
        return [f for n, f in sorted(self.fns.items()) if re.search(pattern, n)]

    def one(self, pattern):
        r = self.find(pattern)
        # prefer non-closure bodies
        r2 = [f for f in r if f.kind != 'Closure']
        if len(r2) == 1:
            return r2[0]
        if len(r) == 1:
            return r[0]
        return None

    def closures_of(self, fn):
        return [f for f in self.fns.values() if f.kind == 'Closure' and f.parent == fn.name]

    def body_family(self, fn):
        """fn plus all closures nested in it."""
        return [fn] + sorted(self.closures_of(fn), key=lambda f: f.name)

    # ---- call graph (crate local) ----
    def callees(self, fn):
        out = set()
        for _bi, t in fn.calls():
            name = fn.callee_name(t)
            out.add(name)
            for a in t['args']:
                if a.get('op') == 'const' and a.get('fn'):
                    out.add(a['fn'])
        for _bi, _si, st in fn.stmts():
            rhs = st['rhs']
            if rhs['rv'] == 'agg' and 'closure' in rhs['kind']:
                out.add(rhs['kind']['closure'])
            for key in ('a', 'b'):
                o = rhs.get(key)
                if o and o.get('op') == 'const' and o.get('fn'):
                    out.add(o['fn'])
            for o in rhs.get('ops', ()):
                if o.get('op') == 'const' and o.get('fn'):
                    out.add(o['fn'])
        return out

    def local_fn(self, callee_name):
        """Resolve a callee path to a body in this crate, if any.  Callee paths of local items are
        printed without the crate prefix, exactly like the body names."""
        if callee_name in self.fns:
            return self.fns[callee_name]
        return None

    def reachable_fns(self, roots, exclude=()):
        seen = {}
        work = list(roots)
        while work:
            f = work.pop()
            if f.name in seen:
                continue
            if any(re.search(p, f.name) for p in exclude):
                continue
            seen[f.name] = f
            for c in self.callees(f):
                g = self.local_fn(c)
                if g is not None and g.name not in seen:
                    work.append(g)
                # trait-method calls that could not be resolved: add all local impls of that method
                if g is None and c.startswith(tuple(self.local_trait_prefixes())):
                    meth = c.rsplit('::', 1)[-1]
                    for h in self.fns.values():
                        if h.impl_trait and h.name.rsplit('::', 1)[-1] == meth and h.name not in seen:
                            work.append(h)
        return seen

    def local_trait_prefixes(self):
        return ['<']  # conservative: only "<T as Trait>::m" style unresolved paths


def load_dir(d):
    """Load all fact files of a directory: crate name -> Crate (if a crate was compiled twice, for
    host and target, the files are identical; keep one)."""
    out = {}
    for fn in sorted(os.listdir(d)):
        if fn.endswith('.jsonl'):
            name = fn.split('.')[0]
            if name in out:
                continue
            out[name] = Crate(os.path.join(d, fn))
    return out


# ----------------------------------------------------------------------------
# helpers used by many rules
# ----------------------------------------------------------------------------

def switch_targets(term):
    """value(str)->target, plus 'otherwise'."""
    return {v: t for v, t in term['targets']}


def bool_edges(fn, bi):
    """For a SwitchInt on a bool at block bi: (true_target, false_target)."""
    t = fn.blocks[bi]['term']
    if t['t'] != 'switch':
        return None
    tg = switch_targets(t)
    if set(tg) == {'0', 'otherwise'}:
        return tg['otherwise'], tg['0']
    if set(tg) == {'1', 'otherwise'}:
        return tg['1'], tg['otherwise']
    if set(tg) == {'0', '1', 'otherwise'}:
        return tg['1'], tg['0']
    return None


def stores_to_field(fn, field, live_only=True):
    """Assignments whose destination place's last field projection is `field`."""
    live = fn.live_blocks()
    out = []
    for bi, si, st in fn.stmts():
        if live_only and bi not in live:
            continue
        fl = fields_of(st['lhs'])
        if fl and fl[-1] == field:
            out.append((bi, si, st))
    return out


def mut_uses_of_field(fn, field):
    """&mut borrows of a place ending in field (could be written through later)."""
    out = []
    for bi, si, st in fn.stmts():
        rhs = st['rhs']
        if rhs['rv'] in ('ref', 'rawptr') and (rhs.get('mut') or rhs['rv'] == 'rawptr'):
            fl = fields_of(rhs['place'])
            if fl and fl[-1] == field:
                out.append((bi, si, st))
    return out


def find_calls(fn, pattern):
    return [(bi, t) for bi, t in fn.calls() if re.search(pattern, fn.callee_name(t))]


def loc(fn, line=None):
    return '%s:%s' % (fn.file, line if line is not None else fn.line)


# ----------------------------------------------------------------------------
# value tracing (single-definition copy chains)
# ----------------------------------------------------------------------------

def trace(fn, op, depth=0):
    """Follow copies/moves/refs-of-locals back to the defining construct.
    Returns a tuple:
      ('const', op) | ('param', n, proj) | ('call', bb, term) | ('bin', bb, stmt) | ('un', bb, stmt)
      | ('place', place)  (a read through a projection: field of something)
      | ('agg', bb, stmt) | ('cast', bb, stmt) | ('discr', bb, stmt) | ('multi', local) | ('other', x)
    """
    if depth > 60:
        return ('other', 'depth')
    if op.get('op') == 'const':
        return ('const', op)
    pl = op_place(op) if 'op' in op else op
    if pl is None:
        return ('other', op)
    l = pl['local']
    proj = pl['proj']
    # strip pure derefs of references to locals:  (*_9) where _9 = &_8
    nonderef = [p for p in proj if p['k'] != 'deref']
    if nonderef:
        # projection into something: try to see through `_x = &place` for a leading deref
        return ('place', pl)
    ds = fn.defs().get(l, [])
    if 1 <= l <= fn.argc and not ds:
        return ('param', l, proj)
    if len(ds) != 1:
        if 1 <= l <= fn.argc:
            return ('param', l, proj)
        return ('multi', l)
    kind, bi, si, x = ds[0]
    if kind == 'call':
        return ('call', bi, x)
    if x['lhs']['proj']:
        return ('multi', l)
    rhs = x['rhs']
    rv = rhs['rv']
    if rv == 'use':
        return trace(fn, rhs['a'], depth + 1)
    if rv == 'ref' or rv == 'rawptr':
        return trace(fn, rhs['place'], depth + 1)
    if rv == 'bin':
        return ('bin', bi, x)
    if rv == 'un':
        return ('un', bi, x)
    if rv == 'agg':
        return ('agg', bi, x)
    if rv == 'cast':
        return ('cast', bi, x)
    if rv == 'discr':
        return ('discr', bi, x)
    return ('other', rhs)


def trace_place(fn, op):
    """Like trace, but returns the canonical *place read* as (root, fields) where root is
    ('param', n) / ('call', callee) / ('local', l): follows `_a = &(*_1).f; _b = (*_a).g` chains.
    Returns None when the operand is not a pure place read."""
    fields = []
    cur = op
    for _ in range(60):
        if cur.get('op') == 'const':
            return None
        pl = op_place(cur) if 'op' in cur else cur
        if pl is None:
            return None
        fl = [p for p in pl['proj'] if p['k'] in ('field', 'downcast')]
        fields = [(p['k'], p.get('name', p.get('variant'))) for p in fl] + fields
        l = pl['local']
        ds = fn.defs().get(l, [])
        if 1 <= l <= fn.argc and not ds:
            return (('param', l), tuple(n for k, n in fields if k == 'field'))
        if len(ds) != 1:
            return (('local', l), tuple(n for k, n in fields if k == 'field'))
        kind, bi, si, x = ds[0]
        if kind == 'call':
            return (('call', fn.callee_name(x), bi), tuple(n for k, n in fields if k == 'field'))
        rhs = x['rhs']
        if x['lhs']['proj']:
            return (('local', l), tuple(n for k, n in fields if k == 'field'))
        if rhs['rv'] == 'use':
            cur = rhs['a']
            if cur.get('op') == 'const':
                return None
        elif rhs['rv'] in ('ref', 'rawptr'):
            cur = rhs['place']
        else:
            return (('local', l), tuple(n for k, n in fields if k == 'field'))
    return None


def cond_of_switch(fn, bi):
    """Describe the boolean controlling the SwitchInt at block bi.
    Returns dict(root=trace result with Not stripped, neg=bool, t=true target, f=false target) or
    None if it is not a two-way bool switch."""
    e = bool_edges(fn, bi)
    if e is None:
        return None
    t, f = e
    term = fn.blocks[bi]['term']
    r = trace(fn, term['discr'])
    neg = False
    for _ in range(8):
        if r[0] == 'un' and r[2]['rhs'].get('uop') == 'Not':
            neg = not neg
            r = trace(fn, r[2]['rhs']['a'])
        else:
            break
    if neg:
        t, f = f, t
    return dict(root=r, t=t, f=f, bb=bi)


def switches(fn):
    for bi in sorted(fn.live_blocks()):
        if fn.blocks[bi]['term']['t'] == 'switch':
            yield bi


# ----------------------------------------------------------------------------
# control-aware slicing
# ----------------------------------------------------------------------------

def edge_regions(fn):
    """(switch block, target) -> set of blocks every path to which traverses that edge"""
    if getattr(fn, '_regions', None) is None:
        reg = {}
        live = fn.live_blocks()
        for sb in switches(fn):
            for t in set(fn.succ(sb)):
                without = fn.reachable(0, without_edges=((sb, t),))
                reg[(sb, t)] = live - without
        fn._regions = reg
    return fn._regions


def controlling_switches(fn, b):
    """switch blocks with an outgoing edge that dominates block b"""
    return sorted({e[0] for e, reg in edge_regions(fn).items() if b in reg})


def control_slice(fn, op, stop_at_calls=()):
    """Backward slice that also follows control dependences: when a value is defined in a block that is only
    reachable through some edge of a switch, the switch's discriminant is part of the slice.
    Returns (set of locals, set of call names, set of (local, fields))."""
    locals_, calls, fields = set(), set(), set()
    work = [op]
    seen_sw = set()
    rounds = 0
    while work and rounds < 100000:
        rounds += 1
        o = work.pop()
        sl = fn.slice(o, stop_at_calls=stop_at_calls)
        new = sl.locals - locals_
        locals_ |= sl.locals
        calls |= sl.calls
        fields |= sl.fields
        for l in new:
            for kind, bi, si, x in fn.defs().get(l, ()):
                for sb in controlling_switches(fn, bi):
                    if sb not in seen_sw:
                        seen_sw.add(sb)
                        work.append(fn.blocks[sb]['term']['discr'])
    return locals_, calls, fields


def variant_edges(fn, local, index, n_variants=2):
    """All switch edges taken when the enum held in `local` has discriminant `index` (switches created by drop
    elaboration on the same discriminant are included; use any()/all() over the result)."""
    out = []
    for sb in switches(fn):
        term = fn.blocks[sb]['term']
        r = trace(fn, term['discr'])
        if r[0] == 'discr' and r[2]['rhs']['place']['local'] == local and not [p for p in r[2]['rhs']['place']['proj'] if p['k'] != 'deref']:
            tg = dict((v, x) for v, x in term['targets'])
            if str(index) in tg:
                out.append((sb, tg[str(index)]))
            elif 'otherwise' in tg and fn.blocks[tg['otherwise']]['term']['t'] != 'unreachable':
                out.append((sb, tg['otherwise']))
    return out


def natural_loops(fn):
    """list of (head, body set) for every back edge n->h with h dominating n (bodies of equal heads are merged)"""
    if getattr(fn, '_loops', None) is None:
        live = fn.live_blocks()
        loops = {}
        for n in live:
            for h in fn.succ(n):
                if h in live and fn.dominates_block(h, n):
                    body = {h, n}
                    work = [n]
                    while work:
                        x = work.pop()
                        if x == h:
                            continue
                        for p in fn.pred(x):
                            if p in live and p not in body:
                                body.add(p)
                                work.append(p)
                    loops.setdefault(h, set()).update(body)
        fn._loops = sorted(loops.items())
    return fn._loops


def innermost_loop(fn, b):
    best = None
    for h, body in natural_loops(fn):
        if b in body and (best is None or len(body) < len(best[1])):
            best = (h, body)
    return best


def loop_depth(fn, b):
    return sum(1 for h, body in natural_loops(fn) if b in body)



def early_loop_exits(fn, head_call_pattern=r'Iterator>::next$', allow=None):
    """For every natural loop whose body calls an iterator `next`: the exit edges other than the None edge of that call.
    Returns list of (loop head, (from, to)).  `allow(fn, edge)` may whitelist an exit (e.g. one that follows an error)."""
    out = []
    for h, body in natural_loops(fn):
        nexts = [(b, fn.blocks[b]['term']) for b in body if fn.blocks[b]['term']['t'] == 'call' and re.search(head_call_pattern, fn.callee_name(fn.blocks[b]['term']))]
        # the driving call is the one closest to the head
        nexts = [(b, t) for b, t in nexts if innermost_loop(fn, b) and innermost_loop(fn, b)[0] == h]
        if not nexts:
            continue
        none_edges = set()
        for b, t in nexts:
            none_edges.update(variant_edges(fn, t['dest']['local'], 0))
        for x in body:
            for y in fn.succ(x):
                if y not in body and (x, y) not in none_edges:
                    if fn.blocks[y]['term']['t'] == 'unreachable' and not fn.blocks[y]['stmts']:
                        continue
                    # edges out of a block that only continues the None path (drop elaboration) are fine if reached only via none edges
                    if any(fn.edge_dominates(e, x) for e in none_edges):
                        continue
                    if allow is not None and allow(fn, (x, y)):
                        continue
                    out.append((h, (x, y)))
    return out
