"""Generated-code analyser: abstract interpretation of the lexers emitted by #[derive(Logos)].

Input: the JSON syntax trees written by engines/genscan for `fn lex` of every `impl Logos`.  Nothing is executed:
each state body is walked symbolically over the store
    offset  = (base, k)   base in {'entry', 'loop' (entry + n, n >= 0 after a fast loop), 'start' (lex.offset())}
    context = 'entry' | None | leaf name
    byte    = subset of 0..255 (exact: conditions are evaluated for each of the 256 values)
    flags   = eoi?, prefix?, at_start?
and every path through the body is recorded with its events (reads, record, offset mutations) and its outcome
(transition to a state, `return None`, take-action).  Anything outside the supported subset raises Unsupported,
which the rules report (fail closed)."""
import json
import os
import re

import facts

ALL = frozenset(range(256))


class Unsupported(Exception):
    pass


# ------------------------------------------------------------------------------------------------
# loading
# ------------------------------------------------------------------------------------------------

class Definition:
    def __init__(self, d, backend):
        self.d = d
        self.backend = backend
        self.label = d['label']
        self.module = d['module']
        self.self_ty = d['self_ty'].replace(' ', '')
        self.name = '%s::%s::%s' % (d['label'], d['module'], self.self_ty)
        self.source = d['source'].replace(' ', '')
        self.rejected = d['rejected']
        self.body = d['body']
        self.body_tokens = d['body_tokens']
        self.unsafe_tokens = d['unsafe_tokens']
        self.line = d['line']
        self._model = None
        self.error = None
        self.inv = None
        self.inv_error = 'no debug stream'

    def model(self):
        if self._model is None and self.error is None:
            try:
                self._model = Model(self)
            except Unsupported as e:
                self.error = str(e)
        return self._model


def load(treehash, config):
    """config: a GEN_CONFIGS key.  Returns list of Definition."""
    d = facts.gen_facts(treehash, config)
    backend = 'sm' if config.startswith('sm') else 'tail'
    out = []
    import autlib
    for fn in sorted(os.listdir(d)):
        if not fn.endswith('.jsonl') or fn.startswith('nodebug-'):
            continue
        defs = []
        with open(os.path.join(d, fn)) as f:
            for line in f:
                line = line.strip()
                if line:
                    defs.append(Definition(json.loads(line), backend))
        # the derive's debug stream of the same rustc run: one block per invocation, in expansion order
        dbg = os.path.join(d, fn[:-6] + '.debug.txt')
        invs = None
        why = 'no debug stream captured for this target'
        if os.path.exists(dbg):
            with open(dbg, errors='replace') as f:
                try:
                    invs = autlib.split_invocations(f.read())
                except autlib.ParseError as e:
                    invs, why = None, 'debug stream not parsable: %s' % e
        if invs is not None and len(invs) != len(defs):
            why = '%d derive invocations in the debug stream, %d generated impls' % (len(invs), len(defs))
            invs = None
        for i, df in enumerate(defs):
            df.inv = invs[i] if invs is not None else None
            df.inv_error = None if invs is not None else why
        out.extend(defs)
    return out


def load_nodebug(treehash, config):
    """the corpus expanded WITHOUT the debug feature (full configurations only)"""
    d = facts.gen_facts(treehash, config)
    backend = 'sm' if config.startswith('sm') else 'tail'
    out = []
    p = os.path.join(d, 'nodebug-corpus.jsonl')
    if os.path.exists(p):
        with open(p) as f:
            for line in f:
                if line.strip():
                    out.append(Definition(json.loads(line), backend))
    return out


# ------------------------------------------------------------------------------------------------
# small expression helpers
# ------------------------------------------------------------------------------------------------

def is_path(e, name=None):
    return e is not None and e.get('k') == 'path' and (name is None or e['path'] == name)


def lit_int(e):
    if e is None:
        return None
    if e.get('k') == 'lit' and e['lit'].get('l') == 'int':
        return int(e['lit']['v'])
    if e.get('k') == 'cast':
        return lit_int(e['e'])
    return None


def method(e, name=None, recv=None):
    if e is None or e.get('k') != 'method':
        return False
    if name is not None and e['method'] != name:
        return False
    if recv is not None and not is_path(e['recv'], recv):
        return False
    return True


def src(e):
    """compact rendering for messages"""
    if e is None:
        return 'None'
    k = e.get('k')
    if k == 'path':
        return e['path']
    if k == 'lit':
        return str(e['lit'].get('v'))
    if k == 'method':
        return '%s.%s(%s)' % (src(e['recv']), e['method'], ','.join(src(a) for a in e['args']))
    if k == 'call':
        return '%s(%s)' % (src(e['func']), ','.join(src(a) for a in e['args']))
    if k == 'bin':
        return '(%s %s %s)' % (src(e['l']), e['op'], src(e['r']))
    if k == 'index':
        return '%s[%s]' % (src(e['e']), src(e['idx']))
    if k == 'cast':
        return src(e['e'])
    if k == 'un':
        return e['op'] + src(e['e'])
    return '<%s>' % k


# ------------------------------------------------------------------------------------------------
# byte-level evaluation
# ------------------------------------------------------------------------------------------------

def pat_matches_int(p, v):
    k = p.get('p')
    if k == 'lit':
        return int(p['lit']['v']) == v
    if k == 'range':
        lo = lit_int(p['lo']) if p['lo'] else 0
        hi = lit_int(p['hi']) if p['hi'] else 255
        if lo is None or hi is None:
            raise Unsupported('range pattern bounds')
        return lo <= v <= hi if p['inclusive'] else lo <= v < hi
    if k == 'or':
        return any(pat_matches_int(c, v) for c in p['cases'])
    if k == 'wild':
        return True
    if k == 'ident' and p['sub'] is None:
        return True
    raise Unsupported('pattern %s in byte match' % k)


def eval_byte(e, byte, consts, bytevar='byte'):
    """value of an expression that depends only on `byte`, literals and const tables"""
    k = e.get('k')
    if k == 'lit':
        l = e['lit']
        if l['l'] == 'int':
            return int(l['v'])
        if l['l'] == 'bool':
            return bool(l['v'])
        raise Unsupported('literal ' + l['l'])
    if k == 'path':
        if e['path'] == bytevar:
            return byte
        raise Unsupported('free variable %s in byte condition' % e['path'])
    if k == 'cast':
        return eval_byte(e['e'], byte, consts, bytevar)
    if k == 'un':
        v = eval_byte(e['e'], byte, consts, bytevar)
        if e['op'] == '!':
            return (not v) if isinstance(v, bool) else (~v) & 0xFF
        raise Unsupported('unary ' + e['op'])
    if k == 'bin':
        op = e['op']
        if op == '&&':
            return bool(eval_byte(e['l'], byte, consts, bytevar)) and bool(eval_byte(e['r'], byte, consts, bytevar))
        if op == '||':
            return bool(eval_byte(e['l'], byte, consts, bytevar)) or bool(eval_byte(e['r'], byte, consts, bytevar))
        a = eval_byte(e['l'], byte, consts, bytevar)
        b = eval_byte(e['r'], byte, consts, bytevar)
        if op == '==':
            return a == b
        if op == '!=':
            return a != b
        if op == '<':
            return a < b
        if op == '<=':
            return a <= b
        if op == '>':
            return a > b
        if op == '>=':
            return a >= b
        if op == '&':
            return a & b
        if op == '|':
            return a | b
        if op == '^':
            return a ^ b
        raise Unsupported('binary ' + op)
    if k == 'index':
        if is_path(e['e']) and e['e']['path'] in consts:
            tbl = consts[e['e']['path']]
            i = eval_byte(e['idx'], byte, consts, bytevar)
            if not isinstance(tbl, list) or not (0 <= i < len(tbl)):
                raise Unsupported('table index out of range')
            return tbl[i]
        raise Unsupported('index into ' + src(e['e']))
    if k == 'match':
        v = eval_byte(e['expr'], byte, consts, bytevar)
        for arm in e['arms']:
            if arm['guard'] is not None:
                raise Unsupported('guard in byte match')
            if pat_matches_int(arm['pat'], v):
                return eval_byte(arm['body'], byte, consts, bytevar)
        raise Unsupported('non exhaustive byte match')
    if k == 'block' and len(e['body']) == 1 and e['body'][0].get('s') == 'expr':
        return eval_byte(e['body'][0]['e'], byte, consts, bytevar)
    raise Unsupported('expression %s in byte condition' % k)


def byteset(e, consts, within=ALL, bytevar='byte'):
    return frozenset(b for b in within if bool(eval_byte(e, b, consts, bytevar)))


def has_node(e, pred):
    if isinstance(e, dict):
        if pred(e):
            return True
        return any(has_node(v, pred) for v in e.values())
    if isinstance(e, list):
        return any(has_node(v, pred) for v in e)
    return False


def mentions(e, name):
    if isinstance(e, dict):
        if e.get('k') == 'path' and e.get('path') == name:
            return True
        return any(mentions(v, name) for v in e.values())
    if isinstance(e, list):
        return any(mentions(v, name) for v in e)
    return False


def const_table(expr):
    """[lit, lit, ...] or { use X::*; [ident, ...] } -> python list (ints or names)"""
    e = expr
    if e.get('k') == 'block':
        stmts = [s for s in e['body'] if s.get('s') != 'use']
        if len(stmts) == 1 and stmts[0].get('s') == 'expr':
            e = stmts[0]['e']
    if e.get('k') != 'array':
        return None
    out = []
    for x in e['elems']:
        v = lit_int(x)
        if v is not None:
            out.append(v)
        elif x.get('k') == 'path':
            out.append(x['path'])
        elif x.get('k') == 'call' and is_path(x['func']) and x['func']['path'].endswith('Some') and len(x['args']) == 1 and x['args'][0].get('k') == 'path':
            out.append(x['args'][0]['path'])
        else:
            return None
    return out


# ------------------------------------------------------------------------------------------------
# symbolic offsets
# ------------------------------------------------------------------------------------------------

class Off:
    """offset = base + k.  bases: 'entry' (value on entry of the state), 'loop' (entry + n, n >= 0: after a fast
    loop), 'start' (lex.offset(), the start of the item)"""
    __slots__ = ('base', 'k')

    def __init__(self, base, k=0):
        self.base = base
        self.k = k

    def add(self, c):
        return Off(self.base, self.k + c)

    def __eq__(self, o):
        return isinstance(o, Off) and self.base == o.base and self.k == o.k

    def __hash__(self):
        return hash((self.base, self.k))

    def __repr__(self):
        return '%s%+d' % (self.base, self.k) if self.k else self.base

    def ge(self, o):
        """self >= o provable?"""
        order = {'entry': 0, 'loop': 1}
        if self.base == o.base:
            return self.k >= o.k
        if self.base in order and o.base in order and order[self.base] > order[o.base]:
            return self.k >= o.k
        return False


class St:
    """abstract store along one path"""
    def __init__(self):
        self.offset = Off('entry')
        self.context = 'entry'
        self.bytes = None            # None: no byte bound yet; frozenset otherwise
        self.eoi = None              # True / False / None
        self.prefix = None
        self.at_start = None
        self.env = {}                # let-bound names -> symbolic values
        self.events = []
        self.state_var = None        # state machine back end: pending `state = X`
        self.bytevar = None          # name bound to the dispatch byte

    def copy(self):
        s = St()
        s.offset = self.offset
        s.context = self.context
        s.bytes = self.bytes
        s.eoi = self.eoi
        s.prefix = self.prefix
        s.at_start = self.at_start
        s.env = dict(self.env)
        s.events = list(self.events)
        s.state_var = self.state_var
        s.bytevar = self.bytevar
        return s


class Path:
    def __init__(self, st, outcome):
        self.st = st
        self.outcome = outcome      # ('goto', state, Off, ctx) | ('none',) | ('action', kind, ...) | ('fall',)
        self.events = st.events
        self.bytes = st.bytes
        self.eoi = st.eoi
        self.prefix = st.prefix
        self.at_start = st.at_start

    def __repr__(self):
        return '<Path %s bytes=%s eoi=%s prefix=%s start=%s ev=%s>' % (self.outcome, None if self.bytes is None else len(self.bytes), self.eoi, self.prefix, self.at_start, self.events)


# ------------------------------------------------------------------------------------------------
# the model of one generated lexer
# ------------------------------------------------------------------------------------------------

class Model:
    def __init__(self, defn):
        self.defn = defn
        self.backend = defn.backend
        self.fns = {}
        self.consts = {}
        self.enums = {}
        self.items = []
        self.trailing = []
        self.states = {}          # name -> list of stmts (body)
        self.state_order = []
        self.root = None
        self.unsafe_items = 0
        self.macro_items = 0
        self.lexv = defn.d.get('lex_param') or 'lex'
        self.offv = self.ctxv = self.statev = None
        self.ctx_reset_in_loop = False
        self._split(defn.body)
        self._find_states()
        self.paths = {}
        self.features = {}
        self.state_consts = {}
        self.fastloops = {}
        for name in self.state_order:
            self.paths[name] = self._exec_state(name)

    # ---- structure ----
    def _split(self, body):
        for s in body:
            k = s.get('s')
            if k == 'fn':
                self.fns[s['name']] = s
            elif k == 'const':
                t = const_table(s['expr'])
                self.consts[s['name']] = t if t is not None else s['expr']
            elif k == 'enum':
                self.enums[s['name']] = [v[0] for v in s['variants']]
            elif k in ('use', 'macro_item'):
                if k == 'macro_item':
                    self.macro_items += 1
            elif k == 'impl':
                if s.get('unsafe') and s.get('trait', '').endswith('TrivialClone'):
                    pass    # emitted by #[derive(Clone, Copy)] on this nightly for the fieldless enums
                elif s.get('unsafe'):
                    self.unsafe_items += 1
            else:
                self.trailing.append(s)

    def _find_states(self):
        if self.backend == 'tail':
            for n, f in self.fns.items():
                if re.fullmatch(r'state\d+', n):
                    self.states[n] = f
            self.state_order = sorted(self.states, key=lambda n: int(n[5:]))
            # root: trailing expression `stateN(lex, lex.offset(), _Option::None)`
            tr = [s for s in self.trailing if s.get('s') == 'expr']
            if len(tr) != 1 or tr[0]['e'].get('k') != 'call':
                raise Unsupported('tail-call lexer does not end in a call of its root state')
            c = tr[0]['e']
            if not is_path(c['func']) or c['func']['path'] not in self.states:
                raise Unsupported('root call target')
            a = c['args']
            if len(a) != 3 or not is_path(a[0], self.lexv) or not method(a[1], 'offset', self.lexv) or not (is_path(a[2]) and a[2]['path'].endswith('None')):
                raise Unsupported('root call arguments are not (lex, lex.offset(), None): %s' % [src(x) for x in a])
            self.root = c['func']['path']
            self.entry_ok = True
        else:
            # let mut state = LogosState::X; let mut offset = lex.offset(); let mut context = None; loop { match state { .. } }
            lets = [s for s in self.trailing if s.get('s') == 'let']
            loops = [s for s in self.trailing if s.get('s') == 'expr' and s['e'].get('k') == 'loop']
            self.ctx_reset_in_loop = False
            if len(loops) == 1 and len(lets) == 2 and len(self.trailing) == 3:
                # the context register declared inside the loop: it is re-initialised on every transition
                lb = loops[0]['e']['body']
                if len(lb) == 2 and lb[0].get('s') == 'let' and lb[0]['pat'].get('p') == 'ident' and is_path(lb[0]['init']) and lb[0]['init']['path'].endswith('None'):
                    lets = lets + [lb[0]]
                    loops = [dict(s='expr', e=dict(k='loop', label=None, body=lb[1:]))]
                    self.trailing = self.trailing[:2] + [lb[0]] + loops
                    self.ctx_reset_in_loop = True
            if len(lets) != 3 or len(loops) != 1 or len(self.trailing) != 4:
                raise Unsupported('state machine lexer prologue/loop shape (%d lets, %d loops, %d stmts)' % (len(lets), len(loops), len(self.trailing)))
            names = {}
            for l in lets:
                if l['pat'].get('p') != 'ident':
                    raise Unsupported('prologue pattern')
                names[l['pat']['name']] = l['init']
            # roles by initialiser, not by name
            for n, init in names.items():
                if method(init, 'offset', self.lexv):
                    self.offv = n
                elif is_path(init) and init['path'].endswith('None'):
                    self.ctxv = n
                elif is_path(init) and init['path'].startswith('LogosState::'):
                    self.statev = n
            if None in (self.offv, self.ctxv, self.statev) or len(names) != 3:
                raise Unsupported('prologue does not initialise (state, offset = lex.offset(), context = None): %s' % sorted(names))
            self.root = names[self.statev]['path'].split('::')[-1]
            body = loops[0]['e']['body']
            if len(body) != 1 or body[0].get('s') != 'expr' or body[0]['e'].get('k') != 'match' or not is_path(body[0]['e']['expr'], self.statev):
                raise Unsupported('loop body is not `match state {..}`')
            for arm in body[0]['e']['arms']:
                p = arm['pat']
                if p.get('p') != 'path' or not p['path'].startswith('LogosState::') or arm['guard'] is not None:
                    raise Unsupported('state arm pattern')
                b = arm['body']
                if b.get('k') != 'block':
                    raise Unsupported('state arm body')
                self.states[p['path'].split('::')[-1]] = dict(name=p['path'].split('::')[-1], body=b['body'], params=[])
            self.state_order = sorted(self.states, key=lambda n: int(re.sub(r'\D', '', n) or 0))
            if sorted(self.enums.get('LogosState', [])) != sorted(self.states):
                raise Unsupported('LogosState variants differ from the match arms')

    def state_key(self, name):
        """canonical state id shared by both back ends"""
        return int(re.sub(r'\D', '', name))

    # ---- execution ----
    def _exec_state(self, name):
        st = St()
        f = self.states[name]
        if self.backend == 'tail':
            ps = [p.get('name') for p in f['params']]
            if len(ps) != 3 or None in ps:
                raise Unsupported('state fn parameters %s' % ps)
            roles = tuple(ps)
        else:
            roles = (self.lexv, self.offv, self.ctxv)
        local_consts = dict(self.consts)
        self.state_consts[name] = local_consts
        ctx = ExecCtx(self, name, local_consts, roles)
        res = ctx.block(f['body'], st)
        paths = []
        for s2, out in res:
            if out is None:
                raise Unsupported('state %s: control falls off the end of the state body' % name)
            paths.append(Path(s2, out))
        self.fastloops[name] = ctx.fastloop
        self.features[name] = ctx.features
        return paths


class ExecCtx:
    def __init__(self, model, state, consts, roles):
        self.m = model
        self.state = state
        self.consts = consts
        self.lexv, self.offv, self.ctxv = roles
        self.statev = model.statev
        self.local_enums = {}
        self.local_fns = {}
        self.fastloop = None
        self.features = set()
        self.sm = model.backend == 'sm'

    # returns list of (St, outcome or None)
    def block(self, stmts, st):
        live = [(st, None)]
        for s in stmts:
            nxt = []
            for cur, out in live:
                if out is not None:
                    nxt.append((cur, out))
                    continue
                nxt.extend(self.stmt(s, cur))
            live = nxt
            if len(live) > 3000:
                raise Unsupported('path explosion in state %s' % self.state)
        return live

    def stmt(self, s, st):
        k = s.get('s')
        if k == 'const':
            t = const_table(s['expr'])
            if t is None:
                raise Unsupported('local const %s is not a literal table' % s['name'])
            self.consts[s['name']] = t
            return [(st, None)]
        if k == 'enum':
            self.local_enums[s['name']] = [v[0] for v in s['variants']]
            return [(st, None)]
        if k == 'fn':
            self.local_fns[s['name']] = s
            return [(st, None)]
        if k in ('use', 'impl', 'macro_item'):
            if k == 'impl' and s.get('unsafe') and not s.get('trait', '').endswith('TrivialClone'):
                raise Unsupported('unsafe impl inside a state')
            return [(st, None)]
        if k == 'let':
            return self.let(s, st)
        if k == 'expr':
            return self.expr_stmt(s['e'], st)
        raise Unsupported('statement kind %s in state %s' % (k, self.state))

    def let(self, s, st):
        p = s['pat']
        if p.get('p') != 'ident' or s['else'] is not None:
            raise Unsupported('let pattern')
        name = p['name']
        init = s['init']
        st = st.copy()
        if method(init, 'read', self.lexv):
            off = self.offset_expr(init['args'][0], st) if len(init['args']) == 1 else None
            if off is None:
                raise Unsupported('read argument')
            ty = (init['turbofish'] or '').replace(' ', '')
            st.events.append(('read', ty, off))
            st.env[name] = ('read', ty, off, len(st.events) - 1)
            return [(st, None)]
        if init.get('k') == 'index' and is_path(init['e']) and init['e']['path'] in self.consts and self.is_byte_index(init['idx'], st):
            st.env[name] = ('lookup', init['e']['path'])
            return [(st, None)]
        if init.get('k') == 'call' and is_path(init['func'], '_get_action'):
            a = init['args']
            if len(a) != 3 or not is_path(a[0], self.lexv) or not is_path(a[1], self.offv) or not is_path(a[2], self.ctxv):
                raise Unsupported('_get_action arguments %s' % [src(x) for x in a])
            st.events.append(('get_action', st.offset, st.context))
            st.env[name] = ('action',)
            return [(st, None)]
        raise Unsupported('let %s = %s in state %s' % (name, src(init), self.state))

    def is_byte_index(self, e, st):
        return st.bytevar is not None and e.get('k') == 'cast' and is_path(e['e'], st.bytevar)

    def offset_expr(self, e, st):
        """symbolic value of an expression of usize type built from the offset variable"""
        if is_path(e, self.offv):
            return st.offset
        if method(e, 'offset', self.lexv) and not e['args']:
            return Off('start')
        if e.get('k') == 'bin' and e['op'] in ('+', '-'):
            l = self.offset_expr(e['l'], st)
            c = lit_int(e['r'])
            if l is not None and c is not None:
                return l.add(c if e['op'] == '+' else -c)
        return None

    def expr_stmt(self, e, st):
        k = e.get('k')
        if k == 'bin' and e['op'] in ('+=', '-=') and is_path(e['l'], self.offv):
            c = lit_int(e['r'])
            if c is None:
                raise Unsupported('offset %s %s' % (e['op'], src(e['r'])))
            st = st.copy()
            d = c if e['op'] == '+=' else -c
            st.offset = st.offset.add(d)
            st.events.append(('adv', d, st.offset))
            return [(st, None)]
        if k == 'assign':
            return self.assign(e, st)
        if k == 'method' and is_path(e['recv'], self.lexv):
            return self.lex_call(e, st)
        if k == 'if':
            return self.if_(e, st)
        if k == 'match':
            return self.match(e, st)
        if k == 'block':
            if e['label'] == 'fast_loop':
                return self.fast_loop(e, st)
            if e['label'] is None:
                return self.block(e['body'], st)
            raise Unsupported('labelled block %s' % e['label'])
        if k == 'return':
            return [(st, self.ret(e['expr'], st))]
        if k == 'continue':
            if not self.sm or e['label'] is not None:
                raise Unsupported('continue')
            if st.state_var is None:
                raise Unsupported('continue without a preceding `state = ..`')
            tgt = st.state_var
            st = st.copy()
            st.state_var = None
            return [(st, ('goto', tgt, st.offset, st.context))]
        raise Unsupported('expression statement %s (%s) in state %s' % (k, src(e)[:60], self.state))

    def assign(self, e, st):
        l, r = e['l'], e['r']
        st = st.copy()
        if is_path(l, self.ctxv):
            if is_path(r) and r['path'].endswith('None'):
                st.context = None
            elif r.get('k') == 'call' and is_path(r['func']) and r['func']['path'].endswith('Some') and len(r['args']) == 1 and is_path(r['args'][0]) and r['args'][0]['path'].startswith('LogosLeaf::'):
                st.context = r['args'][0]['path'].split('::')[-1]
            else:
                raise Unsupported('context = %s' % src(r))
            st.events.append(('ctx', st.context))
            return [(st, None)]
        if is_path(l, self.offv):
            v = self.offset_expr(r, st)
            if v is None:
                raise Unsupported('offset = %s' % src(r))
            st.offset = v
            st.events.append(('setoff', v))
            return [(st, None)]
        if self.sm and is_path(l, self.statev):
            if is_path(r) and r['path'].startswith('LogosState::'):
                st.state_var = r['path'].split('::')[-1]
            elif is_path(r) and r['path'] in st.env and st.env[r['path']][0] == 'bound_state':
                st.state_var = st.env[r['path']][1]
            else:
                raise Unsupported('state = %s' % src(r))
            return [(st, None)]
        raise Unsupported('assignment to %s' % src(l))

    def lex_call(self, e, st):
        st = st.copy()
        m = e['method']
        if m == 'end' and len(e['args']) == 1:
            v = self.offset_expr(e['args'][0], st)
            if v is None:
                raise Unsupported('lex.end(%s)' % src(e['args'][0]))
            st.events.append(('end', v, e['args'][0]))
            return [(st, None)]
        if m == 'trivia' and not e['args']:
            st.events.append(('trivia',))
            return [(st, None)]
        raise Unsupported('lex.%s(..) as a statement' % m)

    def ret(self, e, st):
        if e is None:
            raise Unsupported('bare return')
        if is_path(e) and e['path'].endswith('None'):
            return ('none',)
        if e.get('k') == 'call' and is_path(e['func']):
            f = e['func']['path']
            if not self.sm and f in self.m.states:
                a = e['args']
                if len(a) != 3 or not is_path(a[0], self.lexv) or not is_path(a[1], self.offv) or not is_path(a[2], self.ctxv):
                    raise Unsupported('transition arguments %s: a state must be entered with the live (lex, offset, context)' % [src(x) for x in a])
                return ('goto', f, st.offset, st.context)
            if f.endswith('Some') and len(e['args']) == 1:
                inner = e['args'][0]
                if inner.get('k') == 'call' and is_path(inner['func']):
                    g = inner['func']['path']
                    if g.endswith('Ok') and len(inner['args']) == 1 and inner['args'][0].get('k') == 'path':
                        return ('emit', inner['args'][0]['path'])
                    if g.endswith('Err') and len(inner['args']) == 1:
                        a = inner['args'][0]
                        if a.get('k') == 'path':
                            return ('error', a['path'])
                        if a.get('k') == 'call' and is_path(a['func'], '_make_error') and len(a['args']) == 1 and is_path(a['args'][0], self.lexv):
                            return ('default_error',)
        if e.get('k') == 'call' and e['func'].get('k') == 'path' and e['func']['path'].split('::')[-1] == 'lex' and len(e['args']) == 1 and is_path(e['args'][0], self.lexv):
            return ('reenter',)     # recursive call of Logos::lex (reported by the stack / restart rules)
        raise Unsupported('return %s' % src(e))

    # ---- conditionals ----
    def if_(self, e, st):
        cond = e['cond']
        then, els = e['then'], e['else']
        out = []
        for s2, taken in self.split(cond, st):
            if taken:
                out.extend(self.block(then, s2))
            elif els is None:
                out.append((s2, None))
            elif els.get('k') == 'block':
                out.extend(self.block(els['body'], s2))
            elif els.get('k') == 'if':
                out.extend(self.if_(els, s2))
            else:
                raise Unsupported('else branch')
        return out

    def split(self, cond, st):
        """-> list of (St, taken?)"""
        k = cond.get('k')
        if k == 'let':
            p, ex = cond['pat'], cond['expr']
            if p.get('p') == 'tuplestruct' and p['path'].endswith('Some') and len(p['elems']) == 1 and p['elems'][0].get('p') == 'ident':
                var = p['elems'][0]['name']
                val = st.env.get(ex['path']) if is_path(ex) else None
                if val is None and ex.get('k') == 'index' and is_path(ex['e']) and ex['e']['path'] in self.consts and self.is_byte_index(ex['idx'], st):
                    val = ('lookup', ex['e']['path'])       # `if let Some(x) = TABLE[byte as usize]`
                if val is None and method(ex, 'read', self.lexv):
                    raise Unsupported('inline read in if-let')
                if val is None:
                    raise Unsupported('if let Some(%s) = %s' % (var, src(ex)))
                if val[0] == 'read':
                    if val[1] != '::core::primitive::u8':
                        raise Unsupported('dispatch read of type %s bound to %s' % (val[1], var))
                    a = st.copy()
                    a.bytevar = var
                    a.bytes = ALL
                    a.eoi = False
                    a.events.append(('some', val[3]))
                    b = st.copy()
                    b.eoi = True
                    b.events.append(('eoi', val[3]))
                    return [(a, True), (b, False)]
                if val[0] == 'lookup':
                    self.features.add('jump_table')
                    tbl = self.consts[val[1]]
                    if st.bytes is None:
                        raise Unsupported('table lookup without a byte')
                    groups = {}
                    for bt in st.bytes:
                        groups.setdefault(tbl[bt], set()).add(bt)
                    res = []
                    for tgt, bs in sorted(groups.items(), key=lambda x: str(x[0])):
                        s2 = st.copy()
                        s2.bytes = frozenset(bs)
                        if tgt in ('None', '_Option::None') or str(tgt).endswith('None'):
                            res.append((s2, False))
                        else:
                            s2.env[var] = ('bound_state', str(tgt).split('::')[-1])
                            res.append((s2, True))
                    return res
            raise Unsupported('if-let pattern %s' % p.get('p'))
        if method(cond, 'is_prefix', self.lexv):
            a, b = st.copy(), st.copy()
            a.prefix, b.prefix = True, False
            a.events.append(('prefix?', True))
            return [(a, True), (b, False)]
        if cond.get('k') == 'bin' and cond['op'] == '==' and ((method(cond['l'], 'offset', self.lexv) and is_path(cond['r'], self.offv)) or (method(cond['r'], 'offset', self.lexv) and is_path(cond['l'], self.offv))):
            a, b = st.copy(), st.copy()
            a.at_start, b.at_start = True, False
            a.events.append(('at_start?', st.offset))
            return [(a, True), (b, False)]
        if st.bytevar is not None and mentions(cond, st.bytevar):
            if st.bytes is None:
                raise Unsupported('byte condition outside the Some(byte) branch')
            yes = byteset(cond, self.consts, st.bytes, bytevar=st.bytevar)
            self.features.add('if_chain')
            if has_node(cond, lambda x: x.get('k') == 'bin' and x.get('op') == '!=' and (is_path(x.get('l'), st.bytevar) or is_path(x.get('r'), st.bytevar))):
                self.features.add('cmp_exception')
            if has_node(cond, lambda x: x.get('k') == 'index'):
                self.features.add('lut_test')
            res = []
            if yes:
                a = st.copy()
                a.bytes = yes
                res.append((a, True))
            no = st.bytes - yes
            if no:
                b = st.copy()
                b.bytes = no
                res.append((b, False))
            return res
        raise Unsupported('condition %s in state %s' % (src(cond)[:80], self.state))

    def match(self, e, st):
        scrut = e['expr']
        # tail-call jump table: match TABLE[byte as usize] { LogosNextState::X => {..}, LogosNextState::___ => {} }
        if scrut.get('k') == 'index' and is_path(scrut['e']) and scrut['e']['path'] in self.consts and self.is_byte_index(scrut['idx'], st):
            tbl = self.consts[scrut['e']['path']]
            self.features.add('jump_table')
            if st.bytes is None:
                raise Unsupported('jump table outside the Some(byte) branch')
            out = []
            groups = {}
            for bt in st.bytes:
                groups.setdefault(tbl[bt], set()).add(bt)
            arms = {}
            for arm in e['arms']:
                p = arm['pat']
                if p.get('p') != 'path' or arm['guard'] is not None:
                    raise Unsupported('jump table arm')
                arms[p['path'].split('::')[-1]] = arm['body']
            for tgt, bs in sorted(groups.items(), key=lambda x: str(x[0])):
                s2 = st.copy()
                s2.bytes = frozenset(bs)
                body = arms.get(str(tgt).split('::')[-1])
                if body is None:
                    raise Unsupported('jump table value %s without arm' % tgt)
                if body.get('k') == 'block':
                    res = self.block(body['body'], s2)
                else:
                    res = self.expr_stmt(body, s2)
                # the arm named X must go to state X
                for s3, o in res:
                    if o is not None and o[0] == 'goto' and self.m.state_key(o[1]) != self.m.state_key(str(tgt)):
                        raise Unsupported('jump table arm %s transfers to %s' % (tgt, o[1]))
                out.extend(res)
            return out
        # take-action
        if is_path(scrut) and st.env.get(scrut['path'], (None,))[0] == 'action':
            out = []
            seen = set()
            for arm in e['arms']:
                p = arm['pat']
                nm = p.get('path', '').split('::')[-1]
                if arm['guard'] is not None or nm not in ('Emit', 'Skip', 'Error', 'DefaultError'):
                    raise Unsupported('take-action arm %s' % src(arm['pat']))
                seen.add(nm)
                s2 = st.copy()
                s2.events.append(('action_arm', nm))
                s2.env = dict(s2.env)
                if p.get('p') == 'tuplestruct' and len(p['elems']) == 1 and p['elems'][0].get('p') == 'ident':
                    s2.env[p['elems'][0]['name']] = ('payload', nm)
                body = arm['body']
                res = self.block(body['body'], s2) if body.get('k') == 'block' else self.expr_stmt(body, s2)
                for s3, o in res:
                    if o is None:
                        raise Unsupported('take-action arm %s falls through' % nm)
                    out.append((s3, ('action', nm, o)))
            if seen != {'Emit', 'Skip', 'Error', 'DefaultError'}:
                raise Unsupported('take-action does not handle %s' % sorted({'Emit', 'Skip', 'Error', 'DefaultError'} - seen))
            return out
        raise Unsupported('match on %s in state %s' % (src(scrut)[:60], self.state))

    # ---- fast loop ----
    def fast_loop(self, e, st):
        """'fast_loop: { while let Some(arr) = lex.read::<&[u8; N]>(offset) { if test(arr[i]) { offset += i; break 'fast_loop; }.. offset += N; }
                         while let Some(byte) = lex.read::<u8>(offset) { if test(byte) { break 'fast_loop; } offset += 1; } }"""
        body = e['body']
        whiles = [s_['e'] for s_ in body if s_.get('s') == 'expr' and s_['e'].get('k') == 'while']
        if len(whiles) != len(body) or len(whiles) != 2:
            raise Unsupported('fast loop body is not two while loops')
        # the loop test is the local predicate called on the bytes (role by use, not by name)
        tests = set()

        def find_tests(x):
            if isinstance(x, dict):
                if x.get('k') == 'call' and is_path(x['func']) and x['func']['path'] in self.local_fns:
                    tests.add(x['func']['path'])
                for v in x.values():
                    find_tests(v)
            elif isinstance(x, list):
                for v in x:
                    find_tests(v)
        find_tests(whiles)
        if len(tests) != 1:
            raise Unsupported('fast loop without a single local loop test (%s)' % sorted(tests))
        test = list(tests)[0]
        lt = self.local_fns[test]
        if len(lt['params']) != 1 or lt['params'][0].get('name') is None or len(lt['body']) != 1 or lt['body'][0].get('s') != 'expr':
            raise Unsupported('loop test shape')
        tvar = lt['params'][0]['name']
        stop = byteset(lt['body'][0]['e'], self.consts, bytevar=tvar)            # bytes that END the loop
        loopset = ALL - stop
        info = dict(loopset=loopset, reads=[], chunk=None, violations=[])
        # chunk loop
        w = whiles[0]
        c = w['cond']
        if c.get('k') != 'let' or not method(c['expr'], 'read', self.lexv) or len(c['expr']['args']) != 1 or not is_path(c['expr']['args'][0], self.offv):
            raise Unsupported('chunk loop header')
        ty = (c['expr']['turbofish'] or '').replace(' ', '')
        mm = re.fullmatch(r'&\[::core::primitive::u8;(\d+)usize\]', ty)
        if not mm or c['pat'].get('p') != 'tuplestruct' or len(c['pat']['elems']) != 1 or c['pat']['elems'][0].get('name') is None:
            raise Unsupported('chunk read type %s' % ty)
        arr = c['pat']['elems'][0]['name']
        n = int(mm.group(1))
        info['chunk'] = n
        stmts = w['body']
        if len(stmts) != n + 1:
            raise Unsupported('chunk loop has %d statements for a chunk of %d' % (len(stmts), n))
        for i, s in enumerate(stmts[:n]):
            ie = s.get('e') if s.get('s') == 'expr' else None
            ok = ie is not None and ie.get('k') == 'if' and ie['else'] is None
            if ok:
                cc = ie['cond']
                ok = cc.get('k') == 'call' and is_path(cc['func'], test) and len(cc['args']) == 1 and cc['args'][0].get('k') == 'index' and is_path(cc['args'][0]['e'], arr)
                idx = lit_int(cc['args'][0]['idx']) if ok else None
                th = ie['then']
                ok = ok and len(th) == 2 and th[0].get('s') == 'expr' and th[0]['e'].get('k') == 'bin' and th[0]['e']['op'] == '+=' and is_path(th[0]['e']['l'], self.offv) \
                    and th[1].get('s') == 'expr' and th[1]['e'].get('k') == 'break' and th[1]['e']['label'] == 'fast_loop'
                adv = lit_int(th[0]['e']['r']) if ok else None
                if ok:
                    info['reads'].append((idx, adv))
                    if idx is None or not (0 <= idx < n):
                        info['violations'].append('chunk index %s out of range for [u8; %d]' % (idx, n))
                    if adv != idx:
                        info['violations'].append('byte %s of the chunk ends the loop with offset += %s: the offset no longer points at the byte that ended the loop' % (idx, adv))
                    if idx != i:
                        info['violations'].append('chunk bytes are tested out of order (%s at position %d)' % (idx, i))
            if not ok:
                raise Unsupported('chunk loop statement %d' % i)
        last = stmts[n].get('e') if stmts[n].get('s') == 'expr' else None
        if not (last and last.get('k') == 'bin' and last['op'] == '+=' and is_path(last['l'], self.offv)):
            raise Unsupported('chunk loop does not end with offset += N')
        if lit_int(last['r']) != n:
            info['violations'].append('after a chunk of %d looping bytes the offset advances by %s' % (n, lit_int(last['r'])))
        # byte loop
        w = whiles[1]
        c = w['cond']
        if c.get('k') != 'let' or not method(c['expr'], 'read', self.lexv) or not is_path(c['expr']['args'][0], self.offv) or (c['expr']['turbofish'] or '').replace(' ', '') != '::core::primitive::u8' or c['pat']['elems'][0].get('name') is None:
            raise Unsupported('byte loop header')
        bvar = c['pat']['elems'][0]['name']
        stmts = w['body']
        ok = len(stmts) == 2 and stmts[0].get('s') == 'expr' and stmts[0]['e'].get('k') == 'if' and stmts[0]['e']['else'] is None
        if ok:
            ie = stmts[0]['e']
            cc = ie['cond']
            ok = cc.get('k') == 'call' and is_path(cc['func'], test) and len(cc['args']) == 1 and is_path(cc['args'][0], bvar) \
                and len(ie['then']) == 1 and ie['then'][0].get('s') == 'expr' and ie['then'][0]['e'].get('k') == 'break' and ie['then'][0]['e']['label'] == 'fast_loop'
            adv = stmts[1].get('e') if stmts[1].get('s') == 'expr' else None
            ok = ok and adv is not None and adv.get('k') == 'bin' and adv['op'] == '+=' and is_path(adv['l'], self.offv)
            if ok and lit_int(adv['r']) != 1:
                info['violations'].append('the byte loop advances by %s per looping byte' % lit_int(adv['r']))
        if not ok:
            raise Unsupported('byte loop body')
        if st.events:
            info['violations'].append('the fast loop is not the first thing the state does')
        self.fastloop = info
        st = st.copy()
        st.offset = Off('loop')
        st.events.append(('fastloop', loopset))
        return [(st, None)]


# ------------------------------------------------------------------------------------------------
# state summaries (the transition system)
# ------------------------------------------------------------------------------------------------

class StateSummary:
    def __init__(self, model, name):
        self.name = name
        self.key = model.state_key(name)
        paths = model.paths[name]
        fl = model.fastloops[name]
        self.loopset = fl['loopset'] if fl else frozenset()
        self.record = None          # (leaf, 'early'|'late'|'start'|other repr)
        self.records = []
        self.edges = {}             # byte -> state key
        self.eoi_edge = None
        self.prefix_guard = False   # in the eoi branch: if lex.is_prefix() { lex.end(lex.offset()); return None } first
        self.root_guard = False
        self.eoi_paths = [p for p in paths if p.eoi]
        self.byte_paths = [p for p in paths if p.eoi is False]
        self.paths = paths
        for p in paths:
            for ev in p.events:
                if ev[0] == 'end' and not p.eoi:
                    pass
        # record: common prefix events (before the dispatch read)
        recs = set()
        for p in paths:
            ends = []
            ctxs = []
            for ev in p.events:
                if ev[0] == 'read' and ev[1] == '::core::primitive::u8':
                    break
                if ev[0] == 'end':
                    ends.append(ev[1])
                if ev[0] == 'ctx':
                    ctxs.append(ev[1])
            recs.add((tuple(ends), tuple(ctxs)))
        self.pre = recs
        if len(recs) == 1:
            ends, ctxs = list(recs)[0]
            if len(ends) == 1 and len(ctxs) == 1:
                e = ends[0]
                kind = 'early' if e.k == 0 and e.base in ('entry', 'loop') else ('late' if e.k == -1 and e.base in ('entry', 'loop') else repr(e))
                self.record = (ctxs[0], kind)
            elif (len(ends), len(ctxs)) != (0, 0):
                # an end without a context, a context (re)set without an end, or several of them: not a record the graph
                # could describe.  Keep it visible so that the comparisons with the graph (G19) and with the other
                # back end (G8a) report the state instead of treating it as "records nothing".
                self.record = ('?', 'irregular: %d end(s), context set to %s' % (len(ends), list(ctxs)))
        for p in self.byte_paths:
            if p.outcome[0] == 'goto':
                for b in p.bytes:
                    self.edges[b] = model.state_key(p.outcome[1])
        for p in self.eoi_paths:
            if p.outcome[0] == 'goto':
                self.eoi_edge = model.state_key(p.outcome[1])

    def successors(self):
        s = set(self.edges.values())
        if self.eoi_edge is not None:
            s.add(self.eoi_edge)
        return s


def summaries(model):
    return {model.state_key(n): StateSummary(model, n) for n in model.state_order}
