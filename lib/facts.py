"""Fact acquisition: hashes /repo's working tree, runs the engines into a content-addressed cache.

Cache layout: /verif/.cache/<treehash>/<kind>-<config>/...  (small JSON / text files only; scratch
cargo target directories live in a mkdtemp directory that is removed as soon as the engine is done).
"""
import fcntl
import json
import re
import hashlib
import os
import shutil
import subprocess
import sys
import tempfile
import time

VERIF = os.path.dirname(os.path.dirname(os.path.abspath(__file__)))
REPO = os.environ.get('LOGOS_REPO', '/repo')
CACHE = os.path.join(VERIF, '.cache')
MIRFACTS_DIR = os.path.join(VERIF, 'engines', 'mirfacts')
MIRFACTS_BIN = os.path.join(MIRFACTS_DIR, 'target', 'debug', 'mirfacts')
GENSCAN_DIR = os.path.join(VERIF, 'engines', 'genscan')
GENSCAN_BIN = os.path.join(GENSCAN_DIR, 'target', 'release', 'genscan')

BASE_ENV = dict(os.environ)
BASE_ENV['CARGO_NET_OFFLINE'] = 'true'


def log(*a):
    print('[facts]', *a, file=sys.stderr, flush=True)


def _iter_files(root, exts, skip_dirs):
    for dp, dns, fns in os.walk(root):
        dns[:] = sorted(d for d in dns if d not in skip_dirs and not d.startswith('.git'))
        for fn in sorted(fns):
            if fn.endswith(exts) or fn in ('Cargo.toml', 'Cargo.lock'):
                yield os.path.join(dp, fn)


def tree_hash():
    h = hashlib.sha256()
    for p in _iter_files(REPO, ('.rs', '.toml', '.snap', '.stderr'), {'target', 'fuzz', 'book'}):
        h.update(os.path.relpath(p, REPO).encode())
        h.update(b'\0')
        with open(p, 'rb') as f:
            h.update(hashlib.sha256(f.read()).digest())
    # engines and corpus are part of the key: a changed extractor must not reuse old facts
    for sub in ('engines/mirfacts/src', 'engines/genscan/src', 'corpus', 'fixtures', 'witness'):
        d = os.path.join(VERIF, sub)
        if os.path.isdir(d):
            for p in _iter_files(d, ('.rs', '.toml', '.py'), {'target'}):
                h.update(os.path.relpath(p, VERIF).encode())
                with open(p, 'rb') as f:
                    h.update(hashlib.sha256(f.read()).digest())
    return h.hexdigest()[:20]


class Lock:
    def __init__(self, path):
        self.path = path

    def __enter__(self):
        os.makedirs(os.path.dirname(self.path), exist_ok=True)
        self.f = open(self.path, 'w')
        fcntl.flock(self.f, fcntl.LOCK_EX)
        return self

    def __exit__(self, *a):
        fcntl.flock(self.f, fcntl.LOCK_UN)
        self.f.close()


def prune_cache(keep):
    """Keep the three most recently used tree hashes; never delete one used in the last 30 minutes (other checks
    may be running on it concurrently)."""
    if not os.path.isdir(CACHE):
        return
    kp = os.path.join(CACHE, keep)
    if os.path.isdir(kp):
        os.utime(kp, None)
    ents = []
    now = time.time()
    for e in os.listdir(CACHE):
        p = os.path.join(CACHE, e)
        if os.path.isdir(p) and e != keep and re.fullmatch(r'[0-9a-f]{20}', e):
            ents.append((os.path.getmtime(p), p))
    ents.sort(reverse=True)
    for m, p in ents[2:]:
        if now - m > 1800:
            shutil.rmtree(p, ignore_errors=True)


def nightly_sysroot():
    return subprocess.check_output(['rustc', '+nightly', '--print', 'sysroot'], text=True, env=BASE_ENV).strip()


def ensure_engine(dirpath, binpath, release=False):
    """Build an engine if its binary is missing or older than its sources."""
    need = not os.path.exists(binpath)
    if not need:
        bt = os.path.getmtime(binpath)
        for p in _iter_files(dirpath, ('.rs', '.toml'), {'target'}):
            if os.path.getmtime(p) > bt:
                need = True
                break
    if need:
        with Lock(os.path.join(CACHE, 'build-%s.lock' % os.path.basename(dirpath))):
            log('building engine', dirpath)
            cmd = ['cargo', 'build', '--offline'] + (['--release'] if release else [])
            r = subprocess.run(cmd, cwd=dirpath, env=BASE_ENV, stdout=subprocess.PIPE, stderr=subprocess.STDOUT, text=True)
            if r.returncode != 0:
                sys.stderr.write(r.stdout)
                raise RuntimeError('engine build failed: ' + dirpath)


# MIR configurations: name -> (cargo args, extra rustflags, cwd relative to REPO or absolute dir)
MIR_CONFIGS = {
    # the whole workspace with default features (logos default = raw pointer reads), overflow checks on
    'ws-default': (['--workspace'], '', None),
    # runtime crate, release-like arithmetic (overflow checks and debug assertions off)
    'logos-release': (['-p', 'logos'], '-C overflow-checks=off -C debug-assertions=off', None),
    # runtime crate with forbid_unsafe
    'logos-forbid': (['-p', 'logos', '--features', 'forbid_unsafe'], '', None),
    # the generator with the state machine back end selected
    'codegen-sm': (['-p', 'logos-codegen', '--features', 'state_machine_codegen'], '', None),
    # positive-control fixture crate
    'fixture': ([], '', os.path.join(VERIF, 'fixtures', 'mir')),
    # frozen copy of the runtime crate with seeded defects (positive control of the runtime rules)
    'fixture-rt': ([], '', os.path.join(VERIF, 'fixtures', 'mir-rt')),
    # frozen copy of the generator crate with seeded defects (positive control of the generator rules)
    'fixture-cg': ([], '', os.path.join(VERIF, 'fixtures', 'mir-cg')),
}


def mir_facts(treehash, config):
    """Return the directory holding <crate>.jsonl fact files for the configuration."""
    out = os.path.join(CACHE, treehash, 'mir-' + config)
    done = os.path.join(out, '.done')
    if os.path.exists(done):
        return out
    with Lock(os.path.join(CACHE, treehash, 'mir-%s.lock' % config)):
        if os.path.exists(done):
            return out
        ensure_engine(MIRFACTS_DIR, MIRFACTS_BIN)
        args, flags, cwd = MIR_CONFIGS[config]
        cwd = cwd or REPO
        tmp = tempfile.mkdtemp(prefix='logosverif-mir-')
        try:
            if cwd.startswith(os.path.join(VERIF, 'fixtures')):
                # never build inside /verif: work on a scratch copy (with the repository's lock file for crates with dependencies)
                cp = os.path.join(tmp, 'fixture')
                shutil.copytree(cwd, cp, ignore=shutil.ignore_patterns('target', 'Cargo.lock'))
                shutil.copy(os.path.join(REPO, 'Cargo.lock'), os.path.join(cp, 'Cargo.lock'))
                cwd = cp
            raw = os.path.join(tmp, 'raw')
            os.makedirs(raw)
            env = dict(BASE_ENV)
            env['LD_LIBRARY_PATH'] = os.path.join(nightly_sysroot(), 'lib') + ':' + env.get('LD_LIBRARY_PATH', '')
            env['RUSTFLAGS'] = ('-Zmir-opt-level=0 -Awarnings ' + flags).strip()
            env['RUSTC_WORKSPACE_WRAPPER'] = MIRFACTS_BIN
            env['MIRFACTS_OUT'] = raw
            env['CARGO_TARGET_DIR'] = os.path.join(tmp, 'target')
            t0 = time.time()
            r = subprocess.run(['cargo', '+nightly', 'check', '--offline'] + args, cwd=cwd, env=env,
                               stdout=subprocess.PIPE, stderr=subprocess.STDOUT, text=True)
            if r.returncode != 0:
                sys.stderr.write(r.stdout[-6000:])
                raise BuildFailed('cargo check failed for MIR config %s' % config, r.stdout)
            log('mir', config, '%.1fs' % (time.time() - t0))
            if os.path.isdir(out):
                shutil.rmtree(out)
            os.makedirs(out)
            n = 0
            for fn in sorted(os.listdir(raw)):
                crate = fn.split('.')[0]
                dst = os.path.join(out, crate + '.jsonl')
                if not os.path.exists(dst):
                    shutil.copy(os.path.join(raw, fn), dst)
                    n += 1
            if n == 0:
                raise RuntimeError('MIR driver produced no fact file (config %s): wrapper skipped?' % config)
            with open(done, 'w') as f:
                f.write('ok\n')
        finally:
            shutil.rmtree(tmp, ignore_errors=True)
    return out


class BuildFailed(Exception):
    def __init__(self, msg, output=''):
        super().__init__(msg)
        self.output = output


# ------------------------------------------------------------------------------------------------
# generated-code facts (E2)
# ------------------------------------------------------------------------------------------------

CORPUS_DIR = os.path.join(VERIF, 'corpus')
QUICK_TESTS = ['advanced', 'simple', 'edgecase', 'callbacks', 'old_logos_bugs', 'ignore_case', 'partial', 'lexer_modes']

# name -> (cargo feature list, which targets)
GEN_CONFIGS = {
    'tail-quick': ([], 'quick'),
    'sm-quick': (['state_machine_codegen'], 'quick'),
    'tail-full': ([], 'full'),
    'sm-full': (['state_machine_codegen'], 'full'),
    'tail-forbid-full': (['forbid_unsafe'], 'full'),
    'sm-forbid-full': (['state_machine_codegen', 'forbid_unsafe'], 'full'),
    # thorough tier, small scope: the bounded-exhaustive family of corpus/gen_enum.py and nothing else
    'tail-enum': ([], 'enum'),
    'sm-enum': (['state_machine_codegen'], 'enum'),
}


def repo_test_targets():
    d = os.path.join(REPO, 'tests', 'tests')
    return sorted(f[:-3] for f in os.listdir(d) if f.endswith('.rs'))


def repo_examples():
    d = os.path.join(REPO, 'examples')
    return sorted(f[:-3] for f in os.listdir(d) if f.endswith('.rs')) if os.path.isdir(d) else []


def gen_facts(treehash, config):
    """Directory with <label>.jsonl (genscan output) for every captured target of the configuration."""
    seed = int(os.environ.get('VERIF_SEED', '1') or 1)
    full = GEN_CONFIGS[config][1] == 'full'
    out = os.path.join(CACHE, treehash, 'gen-' + config + ('-s%d' % seed if full else ''))
    done = os.path.join(out, '.done')
    if os.path.exists(done):
        return out
    with Lock(os.path.join(CACHE, treehash, 'gen-%s.lock' % config)):
        if os.path.exists(done):
            return out
        ensure_engine(GENSCAN_DIR, GENSCAN_BIN, release=True)
        feats, which = GEN_CONFIGS[config]
        tmp = tempfile.mkdtemp(prefix='logosverif-gen-')
        try:
            env = dict(BASE_ENV)
            env['CARGO_TARGET_DIR'] = os.path.join(tmp, 'target')
            env['RUSTFLAGS'] = '-Awarnings'
            if os.path.isdir(out):
                shutil.rmtree(out)
            os.makedirs(out)
            jobs = []
            # corpus (its own lock file is a copy of the repository's, so that only cached crates are needed)
            corpus = os.path.join(tmp, 'corpus')
            shutil.copytree(CORPUS_DIR, corpus, ignore=shutil.ignore_patterns('target', 'Cargo.lock'))
            with open(os.path.join(corpus, 'Cargo.toml')) as f:
                toml = f.read()
            with open(os.path.join(corpus, 'Cargo.toml'), 'w') as f:
                f.write(toml.replace('path = "/repo"', 'path = "%s"' % REPO))
            shutil.copy(os.path.join(REPO, 'Cargo.lock'), os.path.join(corpus, 'Cargo.lock'))
            if which == 'enum':
                subprocess.run([sys.executable, os.path.join(corpus, 'gen_enum.py'), os.path.join(corpus, 'src', 'enum_defs.rs')], check=True, stderr=subprocess.DEVNULL)
                with open(os.path.join(corpus, 'src', 'lib.rs'), 'w') as f:
                    f.write('#![allow(dead_code, unused)]\npub mod enum_defs;\n')
            if full:
                # thorough tier: a module of pseudo-random definitions (seeded by VERIF_SEED) widens the set of generated programs
                subprocess.run([sys.executable, os.path.join(corpus, 'gen_random.py'), str(seed), '100', os.path.join(corpus, 'src', 'random_defs.rs')], check=True)
                with open(os.path.join(corpus, 'src', 'lib.rs'), 'a') as f:
                    f.write('pub mod random_defs;\n')
            # `debug` makes the derive print leaves, reference automaton, graph and root while it expands (lib/autlib.py)
            feats = list(feats) + ['debug']
            cfeat = ['--features', ','.join(feats)] if feats else []
            jobs.append(('corpus', corpus, ['cargo', '+nightly', 'rustc', '--lib', '--offline'] + cfeat))
            if full:
                # the same corpus without `debug`: rule G21 compares the generated code token by token
                plain = [x for x in feats if x != 'debug']
                jobs.append(('nodebug-corpus', corpus, ['cargo', '+nightly', 'rustc', '--lib', '--offline'] + (['--features', ','.join(plain)] if plain else [])))
            tests = repo_test_targets()
            if which == 'enum':
                tests = []
            if which == 'quick':
                tests = [t for t in tests if t in QUICK_TESTS]
            tfeat = ['--features', ','.join(feats)] if feats else []
            for t in tests:
                jobs.append(('test-' + t, REPO, ['cargo', '+nightly', 'rustc', '-p', 'tests', '--test', t, '--offline'] + tfeat))
            if which == 'full':
                for e in repo_examples():
                    name = e.replace('_', '-') if e in ('json_borrowed', 'json_reader') else e
                    jobs.append(('example-' + e, REPO, ['cargo', '+nightly', 'rustc', '--example', name, '--offline'] + tfeat))
            t0 = time.time()
            index = []
            for label, cwd, cmd in jobs:
                exp = os.path.join(tmp, label + '.rs')
                with open(exp, 'w') as f:
                    r = subprocess.run(cmd + ['--', '-Zunpretty=expanded'], cwd=cwd, env=env, stdout=f, stderr=subprocess.PIPE, text=True)
                failed = r.returncode != 0
                with open(os.path.join(out, label + '.debug.txt'), 'w') as f:
                    f.write(r.stderr)
                if failed:
                    # a definition the derive rejects expands to compile_error!: rustc still prints the expansion and
                    # then fails.  Keep the expansion (rejected definitions are reported by the rules); anything
                    # else (no expansion at all) is an infrastructure failure.
                    with open(os.path.join(out, label + '.stderr'), 'w') as f:
                        f.write(r.stderr[-8000:])
                    if os.path.getsize(exp) == 0:
                        sys.stderr.write(r.stderr[-4000:])
                        raise BuildFailed('expansion of %s failed (%s)' % (label, config), r.stderr)
                with open(os.path.join(out, label + '.jsonl'), 'w') as f:
                    r2 = subprocess.run([GENSCAN_BIN, exp, label], stdout=f, stderr=subprocess.PIPE, text=True)
                if r2.returncode != 0:
                    sys.stderr.write(r2.stderr[-2000:])
                    if failed:
                        sys.stderr.write(r.stderr[-4000:])
                        raise BuildFailed('expansion of %s failed (%s)' % (label, config), r.stderr)
                    raise RuntimeError('genscan failed on %s' % label)
                if label.startswith('nodebug-'):
                    # only the token text is compared (rule G21): drop the syntax trees, they double the cache size
                    pth = os.path.join(out, label + '.jsonl')
                    slim = []
                    with open(pth) as f:
                        for line in f:
                            if line.strip():
                                rec = json.loads(line)
                                rec['body'] = []
                                slim.append(json.dumps(rec))
                    with open(pth, 'w') as f:
                        f.write('\n'.join(slim) + ('\n' if slim else ''))
                    os.remove(os.path.join(out, label + '.debug.txt'))
                index.append(label)
            log('gen', config, '%d targets %.1fs' % (len(jobs), time.time() - t0))
            with open(done, 'w') as f:
                f.write('\n'.join(index) + '\n')
        finally:
            shutil.rmtree(tmp, ignore_errors=True)
    return out


# ------------------------------------------------------------------------------------------------
# compile-fail witnesses (E3)
# ------------------------------------------------------------------------------------------------

WITNESS_DIR = os.path.join(VERIF, 'witness')


def witness_facts(treehash):
    """Runs the doc tests of the witness crate (compile_fail with error codes + compiling no_run twins) and returns
    {test name: 'ok'|'FAILED'}.  Nothing is executed: compile_fail tests only compile, twins are no_run."""
    out = os.path.join(CACHE, treehash, 'witness.json')
    if os.path.exists(out):
        with open(out) as f:
            return json.load(f)
    with Lock(os.path.join(CACHE, treehash, 'witness.lock')):
        if os.path.exists(out):
            with open(out) as f:
                return json.load(f)
        tmp = tempfile.mkdtemp(prefix='logosverif-wit-')
        try:
            w = os.path.join(tmp, 'witness')
            shutil.copytree(WITNESS_DIR, w, ignore=shutil.ignore_patterns('target', 'Cargo.lock'))
            with open(os.path.join(w, 'Cargo.toml')) as f:
                toml = f.read()
            with open(os.path.join(w, 'Cargo.toml'), 'w') as f:
                f.write(toml.replace('path = "/repo"', 'path = "%s"' % REPO))
            shutil.copy(os.path.join(REPO, 'Cargo.lock'), os.path.join(w, 'Cargo.lock'))
            env = dict(BASE_ENV)
            env['CARGO_TARGET_DIR'] = os.path.join(tmp, 'target')
            t0 = time.time()
            r = subprocess.run(['cargo', '+nightly', 'test', '--doc', '--offline'], cwd=w, env=env, stdout=subprocess.PIPE, stderr=subprocess.STDOUT, text=True)
            res = {}
            for line in r.stdout.splitlines():
                m = re.match(r'test (src/lib\.rs - \S+) \(line \d+\)( - compile fail)?( - compile)? \.\.\. (\w+)', line)
                if m:
                    key = m.group(1).split(' - ')[1] + (':compile_fail' if m.group(2) else ':twin')
                    n = sum(1 for k in res if k.startswith(key + '#'))
                    res['%s#%d' % (key, n)] = m.group(4)
            if not res:
                sys.stderr.write(r.stdout[-3000:])
                raise BuildFailed('witness doc tests did not run', r.stdout)
            log('witness %d doc tests %.1fs' % (len(res), time.time() - t0))
            os.makedirs(os.path.dirname(out), exist_ok=True)
            with open(out, 'w') as f:
                json.dump(res, f, indent=1)
            return res
        finally:
            shutil.rmtree(tmp, ignore_errors=True)


def fixture_gen(treehash):
    """genscan output of the hand-broken generated lexers in fixtures/gen (positive controls)"""
    out = os.path.join(CACHE, treehash, 'genfx')
    done = os.path.join(out, '.done')
    if os.path.exists(done):
        return out
    with Lock(os.path.join(CACHE, treehash, 'genfx.lock')):
        if os.path.exists(done):
            return out
        ensure_engine(GENSCAN_DIR, GENSCAN_BIN, release=True)
        os.makedirs(out, exist_ok=True)
        d = os.path.join(VERIF, 'fixtures', 'gen')
        for fn in sorted(os.listdir(d)):
            if fn.endswith('.rs'):
                with open(os.path.join(out, fn[:-3] + '.jsonl'), 'w') as f:
                    r = subprocess.run([GENSCAN_BIN, os.path.join(d, fn), 'fixture-' + fn[:-3]], stdout=f, stderr=subprocess.PIPE, text=True)
                if r.returncode != 0:
                    raise RuntimeError('genscan failed on fixture %s: %s' % (fn, r.stderr[-500:]))
        with open(done, 'w') as f:
            f.write('ok\n')
    return out
