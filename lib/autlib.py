"""Parsers for the artefacts the derive prints with the `debug` feature (leaves, regex-automata DFA, logos Graph, root)
and the comparison of automata.

Nothing here executes a lexer.  The artefacts are produced by the derive while rustc expands the macro (the same
run that produces the generated code the other rules analyse):

    [..lib.rs:54:5] Reading input token streams          <- one block per #[derive(Logos)] invocation, in expansion order
    [..] Generated leaves:\n  0: #[regex("a$")] ::AEnd (priority: 2) ...
    [..] Generated Automaton:\ndense::DFA(\nD 000000: \n ... MATCH(000002): PatternID(1) ...)
    [..] Generated Graph:\n  state0 => StateData(early(1) ) {\n    b..=z => state0\n  }
    [..] Root node: State(2)

DFA semantics (regex-automata dense DFA, anchored start, match states delayed by one transition): running
q0 -b1-> q1 ... -bn-> qn -EOI-> q(n+1); qj a match state means "the first j-1 bytes are a match" for the patterns of qj.
Graph semantics (what the generator renders): a state entered after i bytes records (end=i, leaf) if it is early(leaf),
else (end=i-1, leaf) if it is accept(leaf); the walk stops at the first byte without an edge; the end-of-input edge
counts as one more position.
"""
import re

DEAD = 0


class ParseError(Exception):
    pass


# ------------------------------------------------------------------------------------------------
# splitting the debug stream into invocations
# ------------------------------------------------------------------------------------------------

HDR = re.compile(r'^\[[^\]]*logos-codegen/src/lib\.rs:\d+:\d+\] (.*)$')


class Invocation:
    def __init__(self):
        self.leaves = None       # list of dict(index, text, variant, priority)
        self.dfa_text = None
        self.graph_text = None
        self.root = None
        self.codegen = False     # reached "Generating code from graph"
        self._dfa = None
        self._graph = None

    def dfa(self):
        if self._dfa is None:
            self._dfa = parse_dfa(self.dfa_text)
        return self._dfa

    def graph(self):
        if self._graph is None:
            self._graph = parse_graph(self.graph_text)
        return self._graph


def split_invocations(text):
    """list of Invocation in the order the derive ran"""
    invs = []
    cur = None
    section = None
    buf = []

    def flush():
        nonlocal section, buf
        if cur is None or section is None:
            section, buf = None, []
            return
        body = '\n'.join(buf)
        if section == 'leaves':
            cur.leaves = parse_leaves(body)
        elif section == 'dfa':
            cur.dfa_text = body
        elif section == 'graph':
            cur.graph_text = body
        section, buf = None, []

    for line in text.splitlines():
        m = HDR.match(line)
        if m:
            flush()
            msg = m.group(1)
            if msg.startswith('Reading input token streams'):
                cur = Invocation()
                invs.append(cur)
            elif cur is None:
                continue
            elif msg.startswith('Generated leaves:'):
                section = 'leaves'
            elif msg.startswith('Generated Automaton:'):
                section = 'dfa'
            elif msg.startswith('Generated Graph:'):
                section = 'graph'
            elif msg.startswith('Root node:'):
                mm = re.search(r'State\((\d+)\)', msg)
                cur.root = int(mm.group(1)) if mm else None
            elif msg.startswith('Generating code from graph'):
                cur.codegen = True
            continue
        if section is not None:
            # rustc diagnostics (errors of rejected definitions) end a section
            if line.startswith('error') or line.startswith('warning'):
                flush()
                continue
            buf.append(line)
    flush()
    return invs


LEAF = re.compile(r'^\s*(\d+): (.*) ::(\S+) \(priority: (\d+)\)\s*$')


def parse_leaves(body):
    out = []
    for line in body.splitlines():
        if not line.strip():
            continue
        m = LEAF.match(line)
        if not m:
            raise ParseError('leaf line %r' % line)
        out.append(dict(index=int(m.group(1)), text=m.group(2), variant=m.group(3), priority=int(m.group(4))))
    for i, l in enumerate(out):
        if l['index'] != i:
            raise ParseError('leaf numbering')
    return out


# ------------------------------------------------------------------------------------------------
# regex-automata dense DFA (Debug format)
# ------------------------------------------------------------------------------------------------

class Dfa:
    def __init__(self):
        self.trans = {}      # state -> list of 256 targets
        self.eoi = {}        # state -> target
        self.matches = {}    # state -> [pattern ids]
        self.start = None
        self.flags = ''

    def states(self):
        return self.trans.keys()


def _read_debug_byte(s, i):
    """regex-automata DebugByte at s[i:] -> (value, next index)"""
    if s.startswith("' '", i):
        return 0x20, i + 3
    c = s[i]
    if c == '\\':
        n = s[i + 1]
        if n == 'x':
            return int(s[i + 2:i + 4], 16), i + 4
        table = {'n': 10, 'r': 13, 't': 9, '\\': 92, "'": 39, '"': 34}
        if n not in table:
            raise ParseError('escape \\%s' % n)
        return table[n], i + 2
    return ord(c), i + 1


def _parse_dfa_transitions(s):
    """'\\x00-a => 2, b-z => 3, EOI => 2' -> (list of (lo, hi, target), eoi target or None)"""
    out = []
    eoi = None
    i = 0
    n = len(s)
    while i < n:
        if s[i] == ' ' and not s.startswith("' '", i):
            i += 1
            continue
        if s.startswith('EOI => ', i):
            m = re.match(r'(\d+)', s[i + 7:])
            eoi = int(m.group(1))
            i += 7 + len(m.group(1))
        else:
            lo, i = _read_debug_byte(s, i)
            hi = lo
            if s.startswith('-', i) and not s.startswith(' => ', i):
                hi, i = _read_debug_byte(s, i + 1)
            if not s.startswith(' => ', i):
                raise ParseError('transition syntax at %r' % s[max(0, i - 10):i + 10])
            m = re.match(r'(\d+)', s[i + 4:])
            out.append((lo, hi, int(m.group(1))))
            i += 4 + len(m.group(1))
        if s.startswith(', ', i):
            i += 2
        elif i < n and s[i:].strip():
            raise ParseError('separator at %r' % s[max(0, i - 10):i + 10])
    return out, eoi


STATE_LINE = re.compile(r'^([ A-Z>*]{2})(\d{6}): ?(.*)$')


def parse_dfa(text):
    if text is None:
        raise ParseError('no automaton in the debug stream')
    d = Dfa()
    mode = 'states'
    starts = set()
    star = set()
    npat = None
    for line in text.splitlines():
        if line.startswith('dense::DFA(') or line.strip() in ('', ')'):
            continue
        if line.startswith('START-GROUP(anchored)') or line.startswith('START_GROUP(anchored)'):
            mode = 'anchored'
            continue
        if line.startswith('START-GROUP') or line.startswith('START_GROUP'):
            mode = 'otherstart'
            continue
        m = STATE_LINE.match(line)
        if m and mode == 'states':
            sid = int(m.group(2))
            tr, eoi = _parse_dfa_transitions(m.group(3))
            row = [DEAD] * 256
            for lo, hi, t in tr:
                for b in range(lo, hi + 1):
                    row[b] = t
            d.trans[sid] = row
            d.eoi[sid] = eoi if eoi is not None else DEAD
            if '*' in m.group(1):
                star.add(sid)
            continue
        mm = re.match(r'^\s+\S+ => (\d+)$', line)
        if mm and mode == 'anchored':
            starts.add(int(mm.group(1)))
            continue
        if mm and mode == 'otherstart':
            continue
        mm = re.match(r'^MATCH\((\d+)\): (.*)$', line)
        if mm:
            d.matches[int(mm.group(1))] = [int(x) for x in re.findall(r'PatternID\((\d+)\)', mm.group(2))]
            continue
        if re.match(r'^(state length|pattern length|flags):', line):
            if line.startswith('flags'):
                d.flags = line
            if line.startswith('pattern length'):
                npat = int(line.split(':')[1])
            continue
        if line.startswith('START-GROUP') or line.startswith('  '):
            continue
        raise ParseError('automaton line %r' % line[:80])
    if not d.matches and npat == 1:
        # regex-automata prints the MATCH table only for multi-pattern automata
        d.matches = {q: [0] for q in star}
    if set(q for q, ps in d.matches.items() if ps) != star:
        raise ParseError('match states flagged * (%d) differ from the MATCH table (%d)' % (len(star), len(d.matches)))
    if len(starts) != 1:
        raise ParseError('anchored start states %s (no universal start state)' % sorted(starts))
    d.start = starts.pop()
    if d.start not in d.trans:
        raise ParseError('start state unknown')
    return d


# ------------------------------------------------------------------------------------------------
# logos Graph (Display format)
# ------------------------------------------------------------------------------------------------

class Graph:
    def __init__(self):
        self.states = {}     # index -> dict(accept, early, edges=[256 targets or None], eoi)


def _read_std_escaped(s, i):
    """core::ascii::escape_default output at s[i:] -> (value, next index)"""
    c = s[i]
    if c == '\\':
        n = s[i + 1]
        if n == 'x':
            return int(s[i + 2:i + 4], 16), i + 4
        table = {'n': 10, 'r': 13, 't': 9, '\\': 92, "'": 39, '"': 34}
        if n not in table:
            raise ParseError('escape \\%s' % n)
        return table[n], i + 2
    return ord(c), i + 1


def parse_byte_class(s):
    out = []
    i = 0
    while i < len(s):
        lo, i = _read_std_escaped(s, i)
        hi = lo
        if s.startswith('..=', i):
            hi, i = _read_std_escaped(s, i + 3)
        out.append((lo, hi))
        if i < len(s):
            if s[i] != '|':
                raise ParseError('byte class %r' % s)
            i += 1
            if i == len(s):
                raise ParseError('byte class %r' % s)
    return out


def parse_graph(text):
    if text is None:
        raise ParseError('no graph in the debug stream')
    g = Graph()
    cur = None
    for line in text.splitlines():
        if not line.strip():
            continue
        m = re.match(r'^  state(\d+) => StateData\((.*)\) \{$', line)
        if m:
            cur = dict(accept=None, early=None, edges=[None] * 256, eoi=None)
            g.states[int(m.group(1))] = cur
            a = re.search(r'accept\((\d+)\)', m.group(2))
            e = re.search(r'early\((\d+)\)', m.group(2))
            cur['accept'] = int(a.group(1)) if a else None
            cur['early'] = int(e.group(1)) if e else None
            continue
        if line == '  }':
            cur = None
            continue
        m = re.match(r'^    (.*) => state(\d+)$', line)
        if m and cur is not None:
            tgt = int(m.group(2))
            if m.group(1) == 'EOI':
                cur['eoi'] = tgt
            else:
                for lo, hi in parse_byte_class(m.group(1)):
                    for b in range(lo, hi + 1):
                        if cur['edges'][b] is not None:
                            raise ParseError('overlapping byte classes in the graph dump')
                        cur['edges'][b] = tgt
            continue
        raise ParseError('graph line %r' % line[:80])
    return g


# ------------------------------------------------------------------------------------------------
# DFA (reference) versus Graph
# ------------------------------------------------------------------------------------------------

def best_leaf(dfa, leaves, q):
    """leaf with the highest priority among the patterns of match state q (None if not a match state); ties -> 'TIE'"""
    ps = dfa.matches.get(q)
    if not ps:
        return None
    top = max(leaves[p]['priority'] for p in ps)
    w = [p for p in ps if leaves[p]['priority'] == top]
    return w[0] if len(w) == 1 else 'TIE'


def can_match_later(dfa):
    """set of DFA states from which a match state is reachable by at least one transition (byte or EOI)"""
    pred = {}
    for q, row in dfa.trans.items():
        for t in set(row) | {dfa.eoi[q]}:
            pred.setdefault(t, set()).add(q)
    work = [q for q in dfa.matches if dfa.matches[q]]
    seen = set()
    # states with a transition into a match state
    for m in work:
        for p in pred.get(m, ()):
            seen.add(p)
    stack = list(seen)
    while stack:
        x = stack.pop()
        for p in pred.get(x, ()):
            if p not in seen:
                seen.add(p)
                stack.append(p)
    return seen


def lookahead_free(dfa, leaves):
    """True iff at every state reachable from the start the patterns reported for the text read so far do not depend on
    the next symbol (all 257 successors carry the same match set): the definition's matches do not use look-ahead."""
    seen = {dfa.start}
    stack = [dfa.start]
    while stack:
        q = stack.pop()
        succ = set(dfa.trans[q]) | {dfa.eoi[q]}
        ms = {tuple(sorted(dfa.matches.get(t, ()))) for t in succ}
        if len(ms) > 1:
            return False
        for t in succ:
            if t not in seen and t in dfa.trans:
                seen.add(t)
                stack.append(t)
    return True


def compare_dfa_graph(dfa, leaves, graph, root, limit=200000):
    """Explores the product of the reference DFA and the logos graph.  Returns (stats, list of mismatches); a mismatch is
    dict(kind, path (bytes / 'EOI' that lead there), detail)."""
    later = can_match_later(dfa)
    la_free = lookahead_free(dfa, leaves)
    out = []
    seen = {}
    start = (dfa.start, root, None)
    seen[start] = None
    work = [start]
    kinds = set()

    def path_to(st, last=None):
        p = []
        while st is not None and seen.get(st) is not None:
            prev, sym = seen[st]
            p.append(sym)
            st = prev
        p.reverse()
        if last is not None:
            p.append(last)
        return p

    def report(kind, st, sym, detail):
        if kind in kinds and len(out) >= 12:
            return
        kinds.add(kind)
        out.append(dict(kind=kind, path=path_to(st, sym), detail=detail))

    if root not in graph.states:
        return dict(product_states=0), [dict(kind='root-missing', path=[], detail='root state%s is not in the graph' % root)]
    n = 0
    while work:
        st = work.pop()
        q, s, pend = st
        n += 1
        if n > limit:
            out.append(dict(kind='limit', path=[], detail='product exploration exceeded %d states' % limit))
            break
        sd = graph.states[s]
        row = dfa.trans[q]
        # promptness (definitions without look-ahead): when the text read is a match and no successor of the reference
        # state can reach a further match, the item is decided here; the graph state must then have no continuation at
        # all (a partial lexer answers "need more input" in every state that has an edge)
        if la_free:
            succ = set(row) | {dfa.eoi[q]}
            if all(t not in later for t in succ) and all(dfa.matches.get(t) for t in succ):
                if any(x is not None for x in sd['edges']) or sd['eoi'] is not None:
                    report('withheld', st, None, 'the item is decided after this text (it is a match and nothing longer can match), but the graph state%d still has outgoing edges: a partial lexer withholds the item until one more byte arrives' % s)
        # group the 256 bytes by (dfa target, graph target)
        groups = {}
        for b in range(256):
            groups.setdefault((row[b], sd['edges'][b]), b)
        for (q2, s2), b in groups.items():
            dm = best_leaf(dfa, leaves, q2)
            if dm == 'TIE':
                report('reference-tie', st, b, 'DFA state %d matches several leaves at the top priority: the definition should have been rejected' % q2)
                continue
            if s2 is None:
                # the graph stops here: its result is the last record
                if dm != pend:
                    report('stop-record', st, b, 'graph stops (no edge) with pending early record %s, the reference reports leaf %s for the text read so far' % (pend, dm))
                if q2 in later:
                    report('stop-early', st, b, 'graph stops (no edge) although the reference can still reach a match: a longer match / a viable prefix is cut off')
                continue
            if s2 not in graph.states:
                report('dangling-edge', st, b, 'edge to state%d which is not in the graph' % s2)
                continue
            t = graph.states[s2]
            if t['early'] is None:
                gi = t['accept'] if t['accept'] is not None else pend
                if gi != dm:
                    report('record', st, b, 'after this byte the graph holds leaf %s for the text before it, the reference leaf %s' % (gi, dm))
            if dm is None and q2 not in later:
                report('overrun', st, b, 'the graph continues (state%d) although no pattern can match any extension of the text read (reference state %d is dead)' % (s2, q2))
                continue
            nxt = (q2, s2, t['early'])
            if nxt not in seen:
                seen[nxt] = (st, b)
                work.append(nxt)
        # end of input
        q2 = dfa.eoi[q]
        dm = best_leaf(dfa, leaves, q2)
        if dm == 'TIE':
            report('reference-tie', st, 'EOI', 'DFA state %d matches several leaves at the top priority' % q2)
        elif sd['eoi'] is None:
            if dm != pend:
                report('eoi-record', st, 'EOI', 'at end of input the graph result is leaf %s for the text read, the reference leaf %s' % (pend, dm))
        else:
            t = graph.states.get(sd['eoi'])
            if t is None:
                report('dangling-edge', st, 'EOI', 'end-of-input edge to a state that is not in the graph')
            else:
                if t['early'] is not None:
                    report('eoi-early', st, 'EOI', 'the end-of-input successor state%d records early: the item would end one past the end of the input' % sd['eoi'])
                gi = t['accept'] if t['accept'] is not None else pend
                if gi != dm:
                    report('eoi-record', st, 'EOI', 'at end of input the graph result is leaf %s for the text read, the reference leaf %s' % (gi, dm))
                if any(x is not None for x in t['edges']) or t['eoi'] is not None:
                    report('eoi-continues', st, 'EOI', 'the end-of-input successor state%d has outgoing edges' % sd['eoi'])
    return dict(product_states=n, dfa_states=len(dfa.trans), graph_states=len(graph.states), lookahead_free=la_free), out


def fmt_path(path):
    out = []
    for x in path:
        if x == 'EOI':
            out.append('<EOI>')
        elif 0x20 < x < 0x7f and chr(x) not in '\\<>':
            out.append(chr(x))
        else:
            out.append('\\x%02x' % x)
    return ''.join(out)
