"""Which fact sets a property's check needs, per tier: used to acquire them concurrently."""

GENQ = ['tail-quick', 'sm-quick']
GENF = ['tail-full', 'sm-full']
GENFF = GENF + ['tail-forbid-full', 'sm-forbid-full']


def needs(pid, tier):
    t = tier == 'thorough'
    gen = GENF if t else GENQ
    table = {
        'C01': (['ws-default', 'logos-forbid'], gen, False),
        'C02': (['fixture-cg', 'ws-default'] + (['logos-forbid'] if t else []), gen, False),
        'C03': (['ws-default', 'logos-forbid'], gen, False),
        'C04': (['fixture-cg', 'ws-default'] + (['logos-release', 'logos-forbid'] if t else []), gen, t),
        'C05': (['fixture-rt', 'ws-default', 'logos-forbid'] + (['logos-release'] if t else []), GENFF if t else GENQ, t),
        'C06': ([], gen, False),
        'C07': (['ws-default'], gen, False),
        'C08': (['fixture-cg', 'ws-default'], gen, False),
        'C09': (['fixture-cg', 'ws-default'], [], False),
        'C10': (['fixture-cg', 'ws-default', 'logos-forbid'] + (['codegen-sm'] if t else []), gen, False),
        'C11': (['fixture-cg', 'ws-default'], gen, False),
        'C12': (['fixture-cg', 'ws-default', 'logos-forbid'], gen, False),
        'C13': (['fixture-rt', 'ws-default'] + (['logos-forbid'] if t else []), gen, False),
        'C14': (['fixture-rt', 'ws-default', 'logos-forbid'] + (['logos-release'] if t else []), [], True),
        'C15': (['fixture-rt', 'ws-default', 'logos-release'] + (['logos-forbid'] if t else []), gen, t),
        'C16': (['fixture-cg', 'ws-default', 'fixture'] + (['codegen-sm'] if t else []), [], False),
        'C17': (['fixture-cg', 'ws-default', 'fixture'], [], False),
        'C18': (['fixture-cg', 'ws-default'], gen, False),
        'C19': (['fixture-cg', 'ws-default'] + (['codegen-sm'] if t else []), gen, False),
        'C20': (['ws-default'], gen, False),
    }
    mir, g, wit = table.get(pid, ([], [], False))
    if t and pid in ('C01', 'C02', 'C03', 'C04', 'C06', 'C07', 'C13', 'C20'):
        g = g + ['tail-enum', 'sm-enum']      # small-scope family (props.gen.smallscope)
    return mir, g, wit
