"""Which fact sets a property's check needs, per tier: used to acquire them concurrently."""

GENQ = ['tail-quick', 'sm-quick']
GENF = ['tail-full', 'sm-full']
GENFF = GENF + ['tail-forbid-full', 'sm-forbid-full']


def needs(pid, tier):
    t = tier == 'thorough'
    gen = GENF if t else GENQ
    table = {
        'C02': (['ws-default'] + (['logos-forbid'] if t else []), gen, False),
        'C03': (['ws-default'], gen, False),
        'C04': (['ws-default'] + (['logos-release', 'logos-forbid'] if t else []), [], t),
        'C05': (['ws-default', 'logos-forbid'] + (['logos-release'] if t else []), GENFF if t else GENQ, t),
        'C06': ([], gen, False),
        'C07': (['ws-default'], gen, False),
        'C08': (['ws-default'], [], False),
        'C09': (['ws-default'], [], False),
        'C10': (['ws-default'] + (['codegen-sm'] if t else []), gen, False),
        'C11': (['ws-default'], gen, False),
        'C12': (['ws-default'], gen, False),
        'C13': (['ws-default'] + (['logos-forbid'] if t else []), gen, False),
        'C14': (['ws-default', 'logos-forbid'] + (['logos-release'] if t else []), [], True),
        'C15': (['ws-default', 'logos-release'] + (['logos-forbid'] if t else []), [], t),
        'C16': (['ws-default', 'fixture'] + (['codegen-sm'] if t else []), [], False),
        'C17': (['ws-default', 'fixture'], [], False),
        'C18': (['ws-default'], gen, False),
        'C19': (['ws-default'] + (['codegen-sm'] if t else []), [], False),
        'C20': (['ws-default'], gen, False),
    }
    return table.get(pid, ([], [], False))
